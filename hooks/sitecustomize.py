"""Delay/log injection into spawned deblend workers (C06 real-pool leg).

Inert unless the environment variable PV_DEBLEND_DELAY_LOG names a log file.
When set, a one-shot sys.meta_path finder patches
photutils.segmentation.deblend._deblend_source right after the module is
executed: in *child* processes (multiprocessing.parent_process() is not None)
each call sleeps a seeded pseudo-random time that depends on the source label
only (so out-of-order completion is reproducible in distribution), runs the
original function and appends one line "pid label t_start t_end" to the log.
In the main process the wrapper only forwards the call.

Environment:
  PV_DEBLEND_DELAY_LOG     path of the log file (enables the hook)
  PV_DEBLEND_DELAY_SEED    integer seed (default 0)
  PV_DEBLEND_DELAY_MAX_MS  maximum sleep in ms (default 25)
"""
import os
import sys

_TARGET = 'photutils.segmentation.deblend'


def _install():
    import importlib.abc
    import importlib.util

    class _Finder(importlib.abc.MetaPathFinder):
        def find_spec(self, name, path=None, target=None):
            if name != _TARGET:
                return None
            sys.meta_path.remove(self)          # one shot; the remaining finders resolve the module
            spec = importlib.util.find_spec(name)
            if spec is None or spec.loader is None:
                return spec
            loader = spec.loader
            orig_exec = loader.exec_module

            def exec_module(module, _orig=orig_exec):
                _orig(module)
                _patch(module)

            try:
                loader.exec_module = exec_module
            except Exception:                   # noqa: BLE001 - cannot hook: stay inert
                pass
            return spec

    sys.meta_path.insert(0, _Finder())


def _patch(module):
    import functools
    import multiprocessing
    import time
    import zlib

    orig = getattr(module, '_deblend_source', None)
    if orig is None:
        return
    log = os.environ.get('PV_DEBLEND_DELAY_LOG')
    seed = int(os.environ.get('PV_DEBLEND_DELAY_SEED', '0') or 0)
    max_ms = float(os.environ.get('PV_DEBLEND_DELAY_MAX_MS', '25') or 25)

    @functools.wraps(orig)
    def _deblend_source(data, segment_data, label, *args, **kwargs):
        if multiprocessing.parent_process() is None:
            return orig(data, segment_data, label, *args, **kwargs)
        h = zlib.crc32(f'{seed}:{int(label)}'.encode()) / 2.0 ** 32
        t0 = time.time()
        time.sleep(h * max_ms / 1000.0)
        try:
            return orig(data, segment_data, label, *args, **kwargs)
        finally:
            try:
                line = f'{os.getpid()} {int(label)} {t0:.6f} {time.time():.6f}\n'
                fd = os.open(log, os.O_WRONLY | os.O_APPEND | os.O_CREAT, 0o644)
                try:
                    os.write(fd, line.encode())
                finally:
                    os.close(fd)
            except OSError:
                pass

    module._deblend_source = _deblend_source
    module._pv_delay_hook = True


if os.environ.get('PV_DEBLEND_DELAY_LOG'):
    try:
        _install()
    except Exception:  # noqa: BLE001 - never break the interpreter start-up
        pass
