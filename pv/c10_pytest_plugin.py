"""M8: the repository's own test-suite as a workload for the C10 write sentinel.

Usage (from the repository root):
    PV_C10_OUT=<dir> PYTHONPATH=/verif:/verif/.deps \
        /venv/bin/python -m pytest -q -p no:cacheprovider -p pv.c10_pytest_plugin -n 8 photutils

The sentinel is installed in every process at pytest_configure (xdist workers
load the plugin too because `-p` is forwarded).  The tests' own outcomes are
irrelevant: only sentinel events are dumped (one JSON file per process) at
session finish.
"""
from __future__ import annotations

import json
import os
import time

_state = {'events': [], 'node': None, 'tests': 0, 't0': time.time(), 'per_module': {}}
MAX_EVENTS = 4000


def _sink(ev):
    if len(_state['events']) < MAX_EVENTS:
        for d in ev.get('diffs', ()):
            d.pop('ids', None)
        _state['events'].append(ev)


def pytest_configure(config):
    if not os.environ.get('PV_C10_OUT'):
        return
    import warnings
    with warnings.catch_warnings():
        warnings.simplefilter('ignore')
        from pv import c10_sentinel as S
        _state['install'] = S.install()
        S.set_sink(_sink)
        if os.environ.get('PV_CONTRACTS', '1') == '1':
            try:   # M6 contracts ride along on the repository's tests as well
                from pv import contracts
                _state['contracts_installed'] = contracts.install()
            except Exception as exc:  # noqa: BLE001
                _state['contracts_error'] = repr(exc)


def pytest_runtest_logstart(nodeid, location):
    if 'install' not in _state:
        return
    from pv import c10_sentinel as S
    _state['node'] = nodeid
    if S._depth:
        _state['depth_leak'] = _state.get('depth_leak', 0) + 1
        _state.setdefault('depth_leak_first', nodeid)
    _state['tests'] += 1
    S.set_context(nodeid)
    mod = nodeid.split('::', 1)[0]
    st = S.STATS
    _state['_mark'] = (mod, st['outer_calls'], st['args_snapshotted'], st['bytes_hashed'])


def pytest_runtest_logfinish(nodeid, location):
    if 'install' not in _state or '_mark' not in _state:
        return
    from pv import c10_sentinel as S
    mod, c0, a0, b0 = _state.pop('_mark')
    st = S.STATS
    pm = _state['per_module'].setdefault(mod, {'tests': 0, 'outer_calls': 0, 'args': 0, 'bytes': 0})
    pm['tests'] += 1
    pm['outer_calls'] += st['outer_calls'] - c0
    pm['args'] += st['args_snapshotted'] - a0
    pm['bytes'] += st['bytes_hashed'] - b0
    S.set_context(None)


def pytest_sessionfinish(session, exitstatus):
    out = os.environ.get('PV_C10_OUT')
    if not out or 'install' not in _state:
        return
    from pv import c10_sentinel as S
    os.makedirs(out, exist_ok=True)
    wid = getattr(session.config, 'workerinput', {}).get('workerid', 'main')
    summ = S.summary()
    rec = {'worker': wid, 'tests': _state['tests'], 'install': _state['install'],
           'stats': summ['stats'], 'entry_calls': summ['entry_calls'], 'entry_args': summ['entry_args'],
           'surface': summ['surface'], 'per_module': _state['per_module'],
           'events': _state['events'], 'exitstatus': int(exitstatus),
           'wall_s': time.time() - _state['t0'], 'last_error': summ['last_error'],
           'depth_leak': _state.get('depth_leak', 0), 'depth_leak_first': _state.get('depth_leak_first')}
    if 'contracts_installed' in _state:
        from pv import contracts
        rec['contracts'] = contracts.report()
    with open(os.path.join(out, f'c10_{wid}_{os.getpid()}.json'), 'w') as f:
        json.dump(rec, f, default=repr)
