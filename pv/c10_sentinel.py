"""C10 write sentinel (monitor kind M4).

Deep snapshots of every caller-owned argument at entry of an OUTERMOST public
photutils call, compared at exit (return or raise).  Objects that keep their
constructor arguments get the snapshot set attached ("retained set") and the
retained objects are re-snapshotted at entry / compared at exit of every later
public method call or property evaluation of that object.

Verdict = snapshot comparison only.  Nothing in this module imports the code
it judges for anything but wrapping; the comparison is bytes/dtype/shape/
mask/unit equality computed with numpy + zlib.

Public API
----------
install()                -> dict (surface counts); idempotent
begin() / end()          -> collect the events of the calls in between
STATS                    -> global counters (entry points, args, bytes)
snapshot(obj) / diff(a, b)   -> used directly by selftest
"""
from __future__ import annotations

import functools
import importlib
import inspect
import pkgutil
import sys
import weakref
import zlib

import numpy as np

KEEP_COPY_BYTES = 1 << 17        # arrays up to 128 KiB keep a copy for the witness detail
MAX_DEPTH = 7
MAX_ELEMS = 4000

_SCALARS = (int, float, complex, str, bytes, bool, type(None), np.generic)

# ----------------------------------------------------------------------
# snapshots
# ----------------------------------------------------------------------


class Snap:
    """Flat snapshot: leaves[(subpath, kind)] = token."""
    __slots__ = ('leaves', 'copies', 'nbytes', 'narrays', 'notes')

    def __init__(self):
        self.leaves = {}
        self.copies = {}
        self.nbytes = 0
        self.narrays = 0
        self.notes = []


def _crc(a):
    """crc32 of the logical (C-order) content of a plain ndarray."""
    if a.dtype.hasobject:
        return 'obj:' + str(zlib.crc32(repr(a.tolist()).encode()))
    c = a if a.flags.c_contiguous else np.ascontiguousarray(a)
    try:
        return zlib.crc32(c)
    except (ValueError, TypeError, BufferError):
        return zlib.crc32(c.tobytes())


def _ultimate_base(a):
    b = a
    while isinstance(getattr(b, 'base', None), np.ndarray):
        b = b.base
    return b if b is not a else None


def _plain(a):
    """ndarray view (no subclass) of any ndarray subclass, without copying."""
    if type(a) is np.ndarray:
        return a
    if isinstance(a, np.ma.MaskedArray):
        a = np.ma.getdata(a)
    return a.view(np.ndarray) if type(a) is not np.ndarray else a


def _snap_buffer(arr, path, S, memo, tag='values', with_base=True):
    a = _plain(arr)
    S.leaves[(path, 'dtype')] = str(a.dtype)
    S.leaves[(path, 'shape')] = tuple(a.shape)
    S.leaves[(path, tag)] = _crc(a)
    S.nbytes += a.nbytes
    S.narrays += 1
    if a.nbytes <= KEEP_COPY_BYTES and not a.dtype.hasobject:
        S.copies[(path, tag)] = a.copy()
    if with_base:
        base = _ultimate_base(a)
        if base is not None and base.size != a.size and id(base) not in memo:
            memo[id(base)] = base
            b = _plain(base)
            if not b.dtype.hasobject:
                S.leaves[(path, 'base_' + tag)] = (str(b.dtype), tuple(b.shape), _crc(b))
                S.nbytes += b.nbytes
                if b.nbytes <= KEEP_COPY_BYTES:
                    S.copies[(path, 'base_' + tag)] = b.copy()


def _snap_array(a, path, S, memo):
    from astropy.units import Quantity
    S.leaves[(path, 'type')] = type(a).__name__
    if isinstance(a, np.ma.MaskedArray):
        _snap_buffer(np.ma.getdata(a), path, S, memo)
        m = a._mask
        if m is np.ma.nomask:
            S.leaves[(path, 'mask')] = ('nothing-masked', tuple(a.shape))
        elif m.dtype == bool and not m.any():
            # `nomask` and an all-False mask array are the same mask (numpy densifies nomask on `mask |= ...`)
            S.leaves[(path, 'mask')] = ('nothing-masked', tuple(np.shape(m)))
        else:
            S.leaves[(path, 'mask')] = (tuple(np.shape(m)), _crc(np.asarray(m)))
        if m is not np.ma.nomask:
            mm = np.asarray(m)
            S.nbytes += mm.nbytes
            if mm.nbytes <= KEEP_COPY_BYTES and not mm.dtype.hasobject:
                S.copies[(path, 'mask')] = mm.copy()
            base = _ultimate_base(mm)
            if base is not None and base.size != mm.size and id(base) not in memo:
                memo[id(base)] = base
                S.leaves[(path, 'base_mask')] = (tuple(base.shape), _crc(_plain(base)))
                S.nbytes += base.nbytes
        d = np.ma.getdata(a)
        if isinstance(d, Quantity):
            S.leaves[(path, 'unit')] = str(d.unit)
        # informational only (not one of "values, dtype, mask, units"): raw attribute, the property would set it
        S.leaves[(path, 'fill_value')] = repr(getattr(a, '_fill_value', None))
        return
    if isinstance(a, Quantity):
        S.leaves[(path, 'unit')] = str(a.unit)
    elif getattr(a, 'unit', None) is not None:      # Column
        S.leaves[(path, 'unit')] = str(a.unit)
    _snap_buffer(a, path, S, memo)


def _is_scalar_seq(x):
    n = 0
    for v in x:
        if not isinstance(v, _SCALARS):
            return False
        n += 1
        if n > 20000:
            return False
    return True


def _snap_table(t, path, S, memo, depth):
    S.leaves[(path, 'type')] = type(t).__name__
    S.leaves[(path, 'columns')] = tuple(t.colnames)
    for name in t.colnames:
        col = t.columns[name]
        _snap(col, f'{path}[{name!r}]', S, memo, depth + 1)
        mask = getattr(col, 'mask', None)
        if mask is not None and not isinstance(col, np.ma.MaskedArray):
            try:
                S.leaves[(f'{path}[{name!r}]', 'mask')] = _crc(np.asarray(mask))
            except Exception:  # noqa: BLE001
                pass
    try:
        _snap(t.meta, path + '.meta', S, memo, depth + 1, kind_override='meta')
    except Exception as exc:  # noqa: BLE001
        S.notes.append(f'meta:{type(exc).__name__}')


def _tok(v):
    """Comparable token for a parameter constraint value."""
    if callable(v):
        return ('callable', id(v))
    if isinstance(v, (tuple, list)):
        return tuple(_tok(x) for x in v)
    if isinstance(v, np.ndarray):
        return ('arr', str(v.dtype), v.shape, _crc(v))
    try:
        hash(v)
        return (type(v).__name__, repr(v))
    except TypeError:
        return (type(v).__name__, repr(v))


_MODEL_PRIVATE_ARRAYS = ('_data', '_xgrid', '_ygrid', '_grid_xypos')


def _snap_model(m, path, S, memo, depth):
    S.leaves[(path, 'type')] = type(m).__name__
    names = tuple(getattr(m, 'param_names', ()))
    S.leaves[(path, 'param_names')] = names
    keep = []
    for n in names:
        try:
            p = getattr(m, n)
        except Exception:  # noqa: BLE001
            continue
        pp = f'{path}.{n}'
        try:
            val = p.value
            S.leaves[(pp, 'param_value')] = (str(np.asarray(val).dtype), np.shape(val),
                                             _crc(np.ascontiguousarray(val)))
            S.copies[(pp, 'param_value')] = np.array(val, copy=True)
            S.narrays += 1
            S.nbytes += np.asarray(val).nbytes
        except Exception as exc:  # noqa: BLE001
            S.notes.append(f'param:{type(exc).__name__}')
        for c in ('fixed', 'bounds', 'tied'):
            try:
                v = getattr(p, c)
                if callable(v):
                    keep.append(v)
                S.leaves[(pp, c)] = _tok(v)
            except Exception:  # noqa: BLE001
                pass
        try:
            u = p.unit
            S.leaves[(pp, 'unit')] = None if u is None else str(u)
        except Exception:  # noqa: BLE001
            pass
    # array-valued instance attributes (ImagePSF.data, GriddedPSFModel.data / grid_xypos ...)
    d = getattr(m, '__dict__', {})
    tp = type(m)
    for k in sorted(d):
        v = d[k]
        if k.startswith('_') and k not in _MODEL_PRIVATE_ARRAYS:
            continue
        if isinstance(getattr(tp, k, None), property):
            continue                    # cached lazyproperty value, not a constructor input
        if isinstance(v, np.ndarray):
            _snap_array(v, f'{path}.{k}', S, memo)
        elif isinstance(v, (tuple, list)) and k in ('origin', 'oversampling'):
            S.leaves[(f'{path}.{k}', 'attr')] = repr(v)
    # compound models: leaves
    if hasattr(m, '_leaflist') or hasattr(m, 'left'):
        try:
            for i, sub in enumerate(_leaves(m)):
                dd = getattr(sub, '__dict__', {})
                for k in sorted(dd):
                    v = dd[k]
                    if (not k.startswith('_') or k in _MODEL_PRIVATE_ARRAYS) and isinstance(v, np.ndarray):
                        _snap_array(v, f'{path}<{i}>.{k}', S, memo)
        except Exception as exc:  # noqa: BLE001
            S.notes.append(f'compound:{type(exc).__name__}')
    if keep:
        S.copies[(path, '_keepalive')] = keep


def _leaves(m):
    out = []

    def rec(x, d=0):
        if d > 12:
            return
        if hasattr(x, 'left') and hasattr(x, 'right'):
            rec(x.left, d + 1)
            rec(x.right, d + 1)
        else:
            out.append(x)
    rec(m)
    return out if len(out) > 1 else []


def _snap_nddata(n, path, S, memo, depth):
    S.leaves[(path, 'type')] = type(n).__name__
    _snap(n.data, path + '.data', S, memo, depth + 1)
    if isinstance(n.mask, np.ndarray) and not isinstance(n.mask, np.ma.MaskedArray):
        if id(n.mask) not in memo:
            memo[id(n.mask)] = n.mask
            _snap_buffer(n.mask, path + '.mask', S, memo, tag='mask')
    elif n.mask is not None:
        _snap(n.mask, path + '.mask', S, memo, depth + 1, kind_override='mask')
    else:
        S.leaves[(path + '.mask', 'mask')] = None
    unc = n.uncertainty
    if unc is not None:
        S.leaves[(path + '.uncertainty', 'type')] = type(unc).__name__
        S.leaves[(path + '.uncertainty', 'unit')] = None if unc.unit is None else str(unc.unit)
        if unc.array is not None:
            _snap(unc.array, path + '.uncertainty.array', S, memo, depth + 1)
    else:
        S.leaves[(path + '.uncertainty', 'type')] = None
    S.leaves[(path, 'unit')] = None if n.unit is None else str(n.unit)
    try:
        _snap(n.meta, path + '.meta', S, memo, depth + 1, kind_override='meta')
    except Exception:  # noqa: BLE001
        pass


def _snap_skycoord(sc, path, S, memo, depth):
    S.leaves[(path, 'type')] = type(sc).__name__
    try:
        S.leaves[(path, 'frame')] = sc.frame.name
        data = sc.data
        for comp in data.components:
            _snap(getattr(data, comp), f'{path}.{comp}', S, memo, depth + 1)
    except Exception as exc:  # noqa: BLE001
        S.notes.append(f'skycoord:{type(exc).__name__}')


class _AttrBag:
    """`self` of a display / copy / repr method of an object that is not one of the enumerated kinds (profile,
    catalogue, Background2D, STDPSFGrid, ImageDepth ...): the array / table / model / NDData valued instance attributes
    that exist when the snapshot is taken.  Re-read from the live object at every snapshot, so a re-bound attribute
    is seen as well as an in-place write."""
    __slots__ = ('obj',)

    def __init__(self, obj):
        self.obj = obj


DISPLAY_METHODS = {'__repr__', '__str__', 'copy', 'deepcopy', '__copy__', '__deepcopy__', 'to_table', 'to_patches',
                   'to_regions', 'make_cmap', 'as_artist', 'to_image'}


def _is_display(name):
    return name in DISPLAY_METHODS or name.startswith('plot') or name.startswith('imshow') or name.startswith('_repr_')


def _photutils_types():
    """Resolved lazily (after photutils is imported)."""
    global _PT
    if _PT is None:
        from astropy.convolution import Kernel
        from astropy.coordinates import SkyCoord
        from astropy.modeling import Model
        from astropy.nddata import NDData
        from astropy.table import Row, Table
        from photutils.aperture import Aperture, ApertureMask, BoundingBox
        from photutils.psf import EPSFStar, EPSFStars, LinkedEPSFStar
        from photutils.segmentation import Segment, SegmentationImage
        _PT = dict(Kernel=Kernel, SkyCoord=SkyCoord, Model=Model, NDData=NDData, Table=Table, Row=Row,
                   Aperture=Aperture, ApertureMask=ApertureMask, BoundingBox=BoundingBox,
                   EPSFStar=EPSFStar, EPSFStars=EPSFStars, LinkedEPSFStar=LinkedEPSFStar,
                   SegmentationImage=SegmentationImage, Segment=Segment)
    return _PT


_PT = None


def _snap(obj, path, S, memo, depth=0, kind_override=None):
    """Recursive snapshot of one object into S under `path`."""
    if obj is None or isinstance(obj, (bool, int, float, complex, str, bytes)):
        return
    if depth > MAX_DEPTH:
        return
    oid = id(obj)
    if isinstance(obj, np.ndarray):
        if obj.ndim == 0 and type(obj) is np.ndarray and False:
            return
        if oid in memo:
            return
        memo[oid] = obj
        _snap_array(obj, path, S, memo)
        return
    if isinstance(obj, np.generic):
        return
    if oid in memo:
        return
    T = _photutils_types()
    if isinstance(obj, (list, tuple)):
        memo[oid] = obj
        S.leaves[(path, 'len')] = (type(obj).__name__, len(obj))
        if _is_scalar_seq(obj):
            S.leaves[(path, 'items')] = zlib.crc32(repr(obj).encode())
            return
        for i, v in enumerate(obj):
            if i >= MAX_ELEMS:
                S.notes.append('truncated')
                break
            if isinstance(v, _SCALARS):
                S.leaves[(f'{path}[{i}]', 'items')] = repr(v)
            else:
                S.leaves[(f'{path}[{i}]', 'identity')] = id(v)
                _snap(v, f'{path}[{i}]', S, memo, depth + 1)
        return
    if isinstance(obj, dict):
        memo[oid] = obj
        try:
            keys = sorted(obj, key=repr)
        except Exception:  # noqa: BLE001
            keys = list(obj)
        S.leaves[(path, kind_override or 'keys')] = tuple(repr(k) for k in keys)
        for k in keys[:MAX_ELEMS]:
            v = obj[k]
            if isinstance(v, _SCALARS):
                S.leaves[(f'{path}[{k!r}]', kind_override or 'items')] = repr(v)
            else:
                _snap(v, f'{path}[{k!r}]', S, memo, depth + 1, kind_override=kind_override)
        return
    if isinstance(obj, _AttrBag):
        memo[oid] = obj
        d = getattr(obj.obj, '__dict__', {})
        S.leaves[(path, 'type')] = type(obj.obj).__name__
        for k in sorted(d):
            v = d[k]
            if isinstance(v, (np.ndarray, T['Table'], T['Model'], T['NDData'])) and id(v) not in memo:
                _snap(v, f'{path}.{k}', S, memo, depth + 1)
        return
    if isinstance(obj, T['Table']):
        memo[oid] = obj
        _snap_table(obj, path, S, memo, depth)
        return
    if isinstance(obj, T['Row']):
        return
    if isinstance(obj, T['Model']):
        memo[oid] = obj
        _snap_model(obj, path, S, memo, depth)
        return
    if isinstance(obj, T['NDData']):
        memo[oid] = obj
        _snap_nddata(obj, path, S, memo, depth)
        return
    if isinstance(obj, T['SkyCoord']):
        memo[oid] = obj
        _snap_skycoord(obj, path, S, memo, depth)
        return
    if isinstance(obj, T['Kernel']):
        memo[oid] = obj
        S.leaves[(path, 'type')] = type(obj).__name__
        _snap(obj.array, path + '.array', S, memo, depth + 1)
        return
    if isinstance(obj, T['Aperture']):
        memo[oid] = obj
        S.leaves[(path, 'type')] = type(obj).__name__
        d = obj.__dict__
        for n in getattr(obj, '_params', ()):
            if n in d:
                v = d[n]
                if isinstance(v, _SCALARS):
                    S.leaves[(f'{path}.{n}', 'attr')] = repr(v)
                else:
                    _snap(v, f'{path}.{n}', S, memo, depth + 1)
        return
    if isinstance(obj, T['SegmentationImage']):
        memo[oid] = obj
        S.leaves[(path, 'type')] = type(obj).__name__
        d = obj.__dict__
        if '_data' in d:
            _snap(d['_data'], path + '.data', S, memo, depth + 1)
        dm = d.get('_deblend_label_map')
        if dm is not None:
            try:
                S.leaves[(path + '.deblend_label_map', 'deblend_map')] = tuple(
                    (int(k), tuple(int(x) for x in np.atleast_1d(v))) for k, v in sorted(dm.items()))
            except Exception:  # noqa: BLE001
                pass
        return
    if isinstance(obj, T['ApertureMask']):
        memo[oid] = obj
        S.leaves[(path, 'type')] = type(obj).__name__
        _snap(obj.__dict__.get('data'), path + '.data', S, memo, depth + 1)
        return
    if isinstance(obj, (T['EPSFStar'],)):
        memo[oid] = obj
        S.leaves[(path, 'type')] = type(obj).__name__
        d = obj.__dict__
        for k in ('_data', 'weights', 'mask', 'cutout_center', '_cutout_center', 'origin', 'flux', '_flux'):
            if k in d:
                v = d[k]
                if isinstance(v, _SCALARS):
                    S.leaves[(f'{path}.{k.lstrip("_")}', 'attr')] = repr(v)
                else:
                    _snap(v, f'{path}.{k.lstrip("_")}', S, memo, depth + 1)
        return
    if isinstance(obj, (T['EPSFStars'], T['LinkedEPSFStar'])):
        memo[oid] = obj
        S.leaves[(path, 'type')] = type(obj).__name__
        lst = obj.__dict__.get('_data')
        if isinstance(lst, (list, tuple)):
            _snap(lst, path + '.stars', S, memo, depth + 1)
        return
    # photutils objects that carry a retained set (constructed at top level earlier)
    ret = _retained_of(obj)
    if ret:
        memo[oid] = obj
        for name, o in ret:
            _snap(o, f'{path}.{name}', S, memo, depth + 1)
        return
    # everything else (estimators, sigma-clip, fitters, WCS, callables ...) is not monitored


def ext_kind(o):
    """Kinds that are monitored but are NOT in the property's enumeration (informational, never a verdict):
    plain dicts (e.g. a `meta=` argument), EPSFStar(s) containers, ApertureMask objects."""
    T = _photutils_types()
    if isinstance(o, dict):
        return 'dict'
    if isinstance(o, (T['EPSFStar'], T['EPSFStars'], T['LinkedEPSFStar'])):
        return 'epsfstars'
    if isinstance(o, T['ApertureMask']):
        return 'aperturemask'
    if isinstance(o, (list, tuple)):
        core = (np.ndarray, T['Table'], T['Model'], T['NDData'], T['SkyCoord'], T['Kernel'], T['Aperture'],
                T['SegmentationImage'])
        for v in o[:200]:
            if isinstance(v, _SCALARS) or isinstance(v, core):
                continue
            if isinstance(v, (list, tuple)):
                if ext_kind(v):
                    return 'object_list'
                continue
            return 'object_list'      # list of isophotes, ePSF stars, catalogues ...: not an enumerated kind
    return None


def reachable_ids(obj):
    """ids of every object the snapshot of `obj` visits (arrays, their ultimate bases, containers)."""
    memo = {}
    try:
        _snap(obj, '', Snap(), memo)
    except Exception:  # noqa: BLE001
        pass
    out = {i for i, o in memo.items() if isinstance(o, np.ndarray)}
    out.add(id(obj))
    return out


def snapshot(named):
    """named: list of (name, obj) -> {name: Snap}."""
    memo = {}        # id -> object: keeps every visited (also temporary) object alive so ids stay unique
    out = {}
    for name, obj in named:
        S = Snap()
        try:
            _snap(obj, '', S, memo)
        except Exception as exc:  # noqa: BLE001
            S.notes.append(f'snapshot_error:{type(exc).__name__}:{exc}'[:200])
            STATS['snapshot_errors'] += 1
        if S.leaves:
            out[name] = S
    return out


_KIND_MAP = {'param_value': 'param_value', 'items': 'items', 'identity': 'items', 'len': 'len',
             'keys': 'keys', 'attr': 'attr'}


def _where(before, after):
    try:
        if before.shape != after.shape:
            return {}
        b = before.view(np.uint8) if before.dtype.kind in 'fc' and before.ndim and before.flags.c_contiguous else None
        if b is not None:
            a = np.ascontiguousarray(after).view(np.uint8)
            ch = (a != b).reshape(before.shape + (-1,)).any(axis=-1)
        else:
            ch = before != after
        idx = np.argwhere(ch)
        n = int(ch.sum())
        out = {'n_changed': n}
        if n:
            first = tuple(int(i) for i in idx[0])
            out['first_index'] = list(first)
            out['before'] = repr(before[first])
            out['after'] = repr(after[first])
        return out
    except Exception:  # noqa: BLE001
        return {}


def diff(s0, s1, live=None):
    """Differences between two Snap objects -> list of dicts(subpath, kind, detail)."""
    out = []
    k0, k1 = s0.leaves, s1.leaves
    for key in k0:
        if key not in k1:
            out.append({'subpath': key[0], 'kind': key[1] if key[1] in ('mask', 'meta') else 'structure',
                        'detail': {'leaf': key[1], 'before': repr(k0[key])[:120], 'after': 'absent'}})
            continue
        if k0[key] != k1[key]:
            kind = key[1]
            det = {'before': repr(k0[key])[:120], 'after': repr(k1[key])[:120]}
            if key in s0.copies and key in s1.copies and isinstance(s0.copies[key], np.ndarray):
                det.update(_where(s0.copies[key], s1.copies[key]))
            out.append({'subpath': key[0], 'kind': kind, 'detail': det})
    # leaves that exist only afterwards are lazily created attributes / caches: containers report growth
    # through their own 'len' / 'keys' / 'columns' / 'meta' leaves, so nothing is lost by ignoring them here
    # a dtype/shape change implies a values change: keep one record per subpath, most specific first
    order = {'dtype': 0, 'shape': 1, 'unit': 2, 'type': 3}
    out.sort(key=lambda d: (d['subpath'], order.get(d['kind'], 9)))
    return out


# ----------------------------------------------------------------------
# retained sets
# ----------------------------------------------------------------------
_RET = {}       # id(instance) -> (weakref, [(name, obj), ...])
MAX_RET = 24


def _retained_of(obj):
    r = _RET.get(id(obj))
    if r is None:
        return None
    if r[0]() is not obj:
        return None
    return r[1]


def _monitorable(o, depth=0):
    """Cheap test: could _snap produce leaves for this object?"""
    if o is None or isinstance(o, _SCALARS):
        return False
    if isinstance(o, np.ndarray):
        return True
    if isinstance(o, list):
        return len(o) > 0
    if isinstance(o, tuple):
        return depth < 3 and any(_monitorable(v, depth + 1) for v in o[:50])
    if isinstance(o, dict):
        return len(o) > 0
    T = _photutils_types()
    if isinstance(o, (T['Table'], T['Model'], T['NDData'], T['SkyCoord'], T['Kernel'], T['Aperture'],
                      T['SegmentationImage'], T['ApertureMask'], T['EPSFStar'], T['EPSFStars'],
                      T['LinkedEPSFStar'])):
        return True
    return _retained_of(o) is not None


def _attach(instance, named):
    if instance is None or not named:
        return
    try:
        mod = type(instance).__module__
    except Exception:  # noqa: BLE001
        return
    if not str(mod).startswith('photutils'):
        return
    seen = set()
    items = []
    old = _retained_of(instance) or []
    for name, o in list(old) + list(named):
        if id(o) in seen or o is instance or not _monitorable(o):
            continue
        seen.add(id(o))
        items.append((name, o))
        if len(items) >= MAX_RET:
            break
    if not items:
        return
    key = id(instance)
    try:
        ref = weakref.ref(instance, lambda _r, k=key: _RET.pop(k, None))
    except TypeError:
        return
    _RET[key] = (ref, items)
    STATS['retained_sets'] += 1


def _attach_result(result, named, depth=0):
    if result is None or isinstance(result, _SCALARS) or isinstance(result, np.ndarray):
        return
    if isinstance(result, (list, tuple)) and depth == 0:
        for r in result[:200]:
            _attach_result(r, named, 1)
        return
    if str(getattr(type(result), '__module__', '')).startswith('photutils'):
        _attach(result, named)


# ----------------------------------------------------------------------
# wrapping
# ----------------------------------------------------------------------
STATS = {'outer_calls': 0, 'nested_calls': 0, 'args_snapshotted': 0, 'arrays_hashed': 0,
         'bytes_hashed': 0, 'raised': 0, 'mutations': 0, 'snapshot_errors': 0, 'retained_sets': 0,
         'retained_rechecks': 0, 'self_snapshots': 0, 'exempt_self': 0, 'calls_with_args': 0}
ENTRY_CALLS = {}       # definitional name -> outermost calls
ENTRY_ARGS = {}        # definitional name -> args compared
RUNTIME_ENTRIES = {}   # runtime entry name -> calls
SURFACE = {}           # definitional name -> kind
_depth = 0
_enabled = True
_collector = None
_context = None        # free label set by the workload (e.g. pytest node id)
_sigcache = {}

DUNDERS = ('__init__', '__call__', '__getitem__', '__array__', '__len__', '__iter__', '__repr__',
           '__str__', '__eq__', '__or__', '__and__', '__add__', '__sub__', '__mul__', '__rmul__',
           '__truediv__', '__contains__', '__setitem__', '__delitem__', '__copy__', '__deepcopy__')

# Methods documented as mutators of THEIR OWN object: `self` is not compared for these
# (arguments and retained constructor inputs still are).  Keys: (class name in the MRO, method).
EXEMPT_SELF = {
    ('SegmentationImage', m) for m in (
        'reassign_label', 'reassign_labels', 'relabel_consecutive', 'keep_label', 'keep_labels',
        'remove_label', 'remove_labels', 'remove_border_labels', 'remove_masked_labels', 'reset_cmap',
        '__setitem__')}
EXEMPT_SELF |= {('EPSFStar', m) for m in ('register_epsf', 'compute_residual_image')}


def _is_exempt(self_obj, name, kind):
    if kind in ('setter', 'init', 'deleter'):
        return True
    for c in type(self_obj).__mro__:
        if (c.__name__, name) in EXEMPT_SELF:
            return True
    return False


def _self_kind(o):
    T = _photutils_types()
    return isinstance(o, (T['Aperture'], T['SegmentationImage'], T['Model'], T['NDData']))


def begin(context=None):
    global _collector, _context
    _collector = []
    _context = context
    return _collector


def end():
    global _collector
    ev, _collector = _collector, None
    return ev or []


def set_context(c):
    global _context
    _context = c


def _bind(fn, args, kwargs, skip_self):
    sig = _sigcache.get(fn)
    if sig is None:
        try:
            sig = inspect.signature(fn)
        except (TypeError, ValueError):
            sig = False
        _sigcache[fn] = sig
    named = []
    if sig:
        try:
            ba = sig.bind_partial(*args, **kwargs)
            for i, (k, v) in enumerate(ba.arguments.items()):
                if skip_self and i == 0:
                    continue
                p = sig.parameters[k]
                if p.kind is p.VAR_POSITIONAL:
                    for j, x in enumerate(v):
                        named.append((f'{k}[{j}]', x))
                elif p.kind is p.VAR_KEYWORD:
                    for kk, x in v.items():
                        named.append((kk, x))
                else:
                    named.append((k, v))
            return named
        except TypeError:
            pass
    a = args[1:] if skip_self else args
    named = [(f'arg{i}', v) for i, v in enumerate(a)]
    named += list(kwargs.items())
    return named


def _outer(defn, kind, name, fn, args, kwargs, has_self):
    """Body of every wrapper when called at depth 0."""
    global _depth
    _depth += 1
    rec = None
    try:
        try:
            self_obj = args[0] if (has_self and args) else None
            named = [(n, o) for n, o in _bind(fn, args, kwargs, has_self) if _monitorable(o)]
            call_named = list(named)
            if self_obj is not None and kind != 'init':
                ret = _retained_of(self_obj)
                if ret:
                    STATS['retained_rechecks'] += 1
                    named += [(f'self.{n}', o) for n, o in ret]
                if _self_kind(self_obj):
                    if _is_exempt(self_obj, name, kind):
                        STATS['exempt_self'] += 1
                    else:
                        named.append(('self', self_obj))
                        STATS['self_snapshots'] += 1
                elif _is_display(name) and not inspect.isclass(self_obj):
                    # display / copy / repr methods: the object that owns the method is "passed to" the call
                    named.append(('self', _AttrBag(self_obj)))
                    STATS['self_snapshots'] += 1
                    STATS['display_self_snapshots'] = STATS.get('display_self_snapshots', 0) + 1
            snaps = snapshot(named) if named else {}
            rec = (named, snaps, call_named, self_obj)
        except Exception as exc:  # noqa: BLE001
            STATS['snapshot_errors'] += 1
            rec = None
            _last_error[0] = f'{type(exc).__name__}: {exc}'
        raised = False
        result = None
        try:
            result = fn(*args, **kwargs)
            return result
        except BaseException:
            raised = True
            raise
        finally:
            try:
                _after(defn, kind, name, rec, raised, result, has_self, args)
            except Exception as exc:  # noqa: BLE001
                STATS['snapshot_errors'] += 1
                _last_error[0] = f'{type(exc).__name__}: {exc}'
    finally:
        _depth -= 1


_last_error = [None]


def _runtime_name(defn, name, self_obj, kind):
    if self_obj is None or kind in ('function', 'staticmethod'):
        return defn
    c = self_obj if inspect.isclass(self_obj) else type(self_obj)
    return f'{c.__module__}.{c.__qualname__}.{name}'


def _after(defn, kind, name, rec, raised, result, has_self, args):
    STATS['outer_calls'] += 1
    ENTRY_CALLS[defn] = ENTRY_CALLS.get(defn, 0) + 1
    if raised:
        STATS['raised'] += 1
    if rec is None:
        return
    named, snaps, call_named, self_obj = rec
    entry = _runtime_name(defn, name, self_obj if has_self else None, kind)
    RUNTIME_ENTRIES[entry] = RUNTIME_ENTRIES.get(entry, 0) + 1
    diffs = []
    nbytes = 0
    if snaps:
        STATS['calls_with_args'] += 1
        after = snapshot([(n, o) for n, o in named if n in snaps])
        for n, s0 in snaps.items():
            s1 = after.get(n)
            nbytes += s0.nbytes
            STATS['arrays_hashed'] += s0.narrays
            if s1 is None:
                diffs.append({'arg': n, 'subpath': '', 'kind': 'structure', 'detail': {'after': 'unsnapshottable'}})
                continue
            for d in diff(s0, s1):
                d['arg'] = n
                diffs.append(d)
        STATS['args_snapshotted'] += len(snaps)
        STATS['bytes_hashed'] += 2 * nbytes
        ENTRY_ARGS[defn] = ENTRY_ARGS.get(defn, 0) + len(snaps)
    # retained sets for the constructed / returned object
    if not raised:
        if kind == 'init' and has_self and args:
            _attach(args[0], call_named)
        elif result is not None and kind != 'init':
            inherit = []
            if has_self and args and not inspect.isclass(args[0]):
                r = _retained_of(args[0])
                if r:
                    inherit = list(r)
            if (call_named or inherit) and result is not (args[0] if args else None):
                _attach_result(result, inherit + call_named)
    if diffs:
        STATS['mutations'] += 1
        objs = dict(named)
        for d in diffs:
            o = objs.get(d['arg'])
            d['ids'] = sorted(reachable_ids(o))
            ext = ext_kind(o)
            if ext is None and not isinstance(o, np.ndarray):
                # object carrying a retained set: classify by the retained element the path starts with
                for rn, ro in (_retained_of(o) or ()):
                    if d['subpath'].startswith('.' + rn):
                        ext = ext_kind(ro)
                        break
            if d['kind'] == 'fill_value':
                ext = 'fill_value'
            d['ext'] = ext
    if _collector is not None:
        _collector.append({'entry': entry, 'defn': defn, 'kind': kind, 'raised': raised,
                           'args': [(n, s.narrays, s.nbytes) for n, s in snaps.items()],
                           'diffs': diffs, 'context': _context})
    elif diffs and _sink is not None:
        _sink({'entry': entry, 'defn': defn, 'kind': kind, 'raised': raised, 'diffs': diffs,
               'context': _context})


_sink = None


def set_sink(fn):
    """Callback receiving every event that has diffs when no collector is active (pytest plugin)."""
    global _sink
    _sink = fn


def _wrap_callable(fn, defn, kind, name, has_self):
    if getattr(fn, '__pv_c10__', False):
        return fn

    @functools.wraps(fn)
    def wrapper(*args, **kwargs):
        if _depth or not _enabled:
            if _depth:
                STATS['nested_calls'] += 1
            return fn(*args, **kwargs)
        return _outer(defn, kind, name, fn, args, kwargs, has_self)
    wrapper.__pv_c10__ = True
    SURFACE[defn] = kind
    return wrapper


def _wrap_class(cls, done):
    from astropy.utils import lazyproperty
    n = {'methods': 0, 'properties': 0, 'lazyproperties': 0, 'setters': 0, 'dunders': 0}
    for c in cls.__mro__:
        if c in done or not str(getattr(c, '__module__', '')).startswith('photutils'):
            continue
        if '.tests' in c.__module__ or '.extern' in c.__module__:
            continue
        done.add(c)
        base = f'{c.__module__}.{c.__qualname__}'
        for name, attr in list(c.__dict__.items()):
            if name.startswith('_') and name not in DUNDERS:
                continue
            defn = f'{base}.{name}'
            try:
                if isinstance(attr, lazyproperty):
                    if attr.fget is None:
                        continue
                    w = _wrap_callable(attr.fget, defn, 'lazyproperty', name, True)
                    new = lazyproperty(w)
                    if attr.fset is not None:
                        new = new.setter(_wrap_callable(attr.fset, defn + '[set]', 'setter', name, True))
                    setattr(c, name, new)
                    if hasattr(new, '__set_name__'):
                        pass
                    n['lazyproperties'] += 1
                elif isinstance(attr, property):
                    if type(attr) is not property:
                        continue        # unknown property subclass: leave untouched
                    fget = attr.fget and _wrap_callable(attr.fget, defn, 'property', name, True)
                    fset = attr.fset and _wrap_callable(attr.fset, defn + '[set]', 'setter', name, True)
                    setattr(c, name, property(fget, fset, attr.fdel, attr.__doc__))
                    n['properties'] += 1
                    n['setters'] += bool(fset)
                elif isinstance(attr, staticmethod):
                    f = attr.__func__
                    if inspect.isfunction(f):
                        setattr(c, name, staticmethod(_wrap_callable(f, defn, 'staticmethod', name, False)))
                        n['methods'] += 1
                elif isinstance(attr, classmethod):
                    f = attr.__func__
                    if inspect.isfunction(f):
                        setattr(c, name, classmethod(_wrap_callable(f, defn, 'classmethod', name, True)))
                        n['methods'] += 1
                elif inspect.isfunction(attr):
                    if not str(getattr(attr, '__module__', '')).startswith('photutils'):
                        continue        # e.g. operator dunders injected by astropy's model metaclass
                    kind = ('init' if name == '__init__' else 'call' if name == '__call__'
                            else 'dunder' if name.startswith('__') else 'method')
                    setattr(c, name, _wrap_callable(attr, defn, kind, name, True))
                    n['dunders' if name.startswith('__') else 'methods'] += 1
            except (AttributeError, TypeError) as exc:
                _install_notes.append(f'{defn}: {type(exc).__name__}: {exc}')
    return n


_install_notes = []
_installed = None


def install():
    """Wrap the public surface. Returns counts. Idempotent."""
    global _installed
    if _installed is not None:
        return _installed
    import photutils
    mods = []
    for m in pkgutil.walk_packages(photutils.__path__, 'photutils.'):
        parts = m.name.split('.')
        if 'tests' in parts or 'extern' in parts or parts[-1] == 'conftest' or parts[-1].startswith('test_'):
            continue
        try:
            mods.append(importlib.import_module(m.name))
        except Exception as exc:  # noqa: BLE001
            _install_notes.append(f'import {m.name}: {type(exc).__name__}')
    allmods = [mm for n, mm in list(sys.modules.items())
               if (n == 'photutils' or n.startswith('photutils.')) and mm is not None and '.tests' not in n]
    _photutils_types()
    nf = 0
    ncls = 0
    done = set()
    tot = {'methods': 0, 'properties': 0, 'lazyproperties': 0, 'setters': 0, 'dunders': 0}
    for mod in mods:
        for name in (getattr(mod, '__all__', None) or []):
            obj = mod.__dict__.get(name)
            if obj is None or not str(getattr(obj, '__module__', '')).startswith('photutils'):
                continue
            if inspect.isclass(obj):
                if issubclass(obj, Warning):
                    continue
                ncls += 1
                c = _wrap_class(obj, done)
                for k in tot:
                    tot[k] += c[k]
            elif inspect.isfunction(obj):
                if getattr(obj, '__pv_c10__', False):
                    continue
                defn = f'{obj.__module__}.{obj.__qualname__}'
                w = _wrap_callable(obj, defn, 'function', name, False)
                nf += 1
                for mm in allmods:
                    d = mm.__dict__
                    for k, v in list(d.items()):
                        if v is obj:
                            d[k] = w
    _installed = dict(functions=nf, classes=ncls, classes_in_mro=len(done), **tot,
                      surface=len(SURFACE), notes=_install_notes[:20])
    return _installed


def summary():
    """Counters for the evidence."""
    never = sorted(k for k in SURFACE if k not in ENTRY_CALLS and not k.endswith('[set]'))
    return {'stats': dict(STATS), 'entry_calls': dict(ENTRY_CALLS), 'entry_args': dict(ENTRY_ARGS),
            'runtime_entries': len(RUNTIME_ENTRIES), 'surface': dict(SURFACE), 'never_reached': never,
            'last_error': _last_error[0]}
