"""M7 reach counters: sys.monitoring PY_START on photutils code objects.

Counts calls per (module-relative file, qualname) for code whose file lives
under /repo/photutils (tests excluded); everything else returns DISABLE so
the steady-state cost is negligible.
"""
from __future__ import annotations

import sys

_TOOL = 3
_counts = {}
_on = False


def start(prefix='/photutils/'):
    global _on
    if _on or not hasattr(sys, 'monitoring'):
        return
    mon = sys.monitoring
    try:
        mon.use_tool_id(_TOOL, 'pv-reach')
    except ValueError:
        return
    E = mon.events

    def on_start(code, offset):
        fn = code.co_filename
        i = fn.find(prefix)
        if i < 0 or '/tests/' in fn or '/verif/' in fn:
            return mon.DISABLE
        key = fn[i + len(prefix):] + ':' + code.co_qualname
        _counts[key] = _counts.get(key, 0) + 1
        return None

    mon.register_callback(_TOOL, E.PY_START, on_start)
    mon.set_events(_TOOL, E.PY_START)
    _on = True


def counts():
    return dict(_counts)


def to_key(spec):
    """'photutils.segmentation.detect:detect_sources' -> 'segmentation/detect.py:detect_sources'"""
    mod, qual = spec.split(':')
    parts = mod.split('.')
    if parts[0] == 'photutils':
        parts = parts[1:]
    return '/'.join(parts) + '.py:' + qual
