"""Scenes and input transformations shared by C03 (covariance) and C15 (representation).

A *scene* is a nested dict whose geometric leaves are wrapped in small marker
classes that say how the leaf behaves under the relations of C03:

    Frame(v, fill)   full-frame 2-D array      translate: embedded in a zero canvas   transpose: v.T (C-contiguous)
    XY(v)            (..., 2) float (x, y)     translate: + (dx, dy)                  transpose: last axis reversed
    Theta(v)         angle in radians          translate: unchanged                   transpose: pi/2 - v
    ThetaDeg(v)      angle in degrees          translate: unchanged                   transpose: 90 - v
    Pair(v)          (y-thing, x-thing)        translate: unchanged                   transpose: swapped
    Img(v)           small 2-D array           translate: unchanged                   transpose: v.T
    Box(ox,oy,nx,ny) the ORIGINAL frame inside the current array (for the footprint rule)

Everything else (numbers, strings, None, bool) is position-free and copied.
`unwrap()` strips the markers so entry-point adapters see plain values.

All randomness comes from the numpy Generator handed in by the check (case.rng).
"""
from __future__ import annotations

import numpy as np
from scipy import ndimage as ndi

MARGIN = 26        # exactly-zero margin (pixels) around the core of every C03 scene; wider than every
#                    kernel / box / aperture / annulus drawn by the entry-point adapters (see `limits`)


class Frame:
    def __init__(self, v, fill=0):
        self.v, self.fill = v, fill


class XY:
    def __init__(self, v):
        self.v = None if v is None else np.asarray(v, dtype=float)


class Theta:
    def __init__(self, v):
        self.v = v


class ThetaDeg:
    def __init__(self, v):
        self.v = v


class Pair:
    def __init__(self, v):
        self.v = tuple(v)


class Img:
    def __init__(self, v):
        self.v = v


class Box:
    def __init__(self, ox, oy, nx, ny):
        self.v = (int(ox), int(oy), int(nx), int(ny))


_WRAPPERS = (Frame, XY, Theta, ThetaDeg, Pair, Img, Box)


def _map(obj, fn):
    if isinstance(obj, _WRAPPERS):
        return fn(obj)
    if isinstance(obj, dict):
        return {k: _map(v, fn) for k, v in obj.items()}
    if isinstance(obj, list):
        return [_map(v, fn) for v in obj]
    if isinstance(obj, tuple):
        return tuple(_map(v, fn) for v in obj)
    if isinstance(obj, np.ndarray):
        return obj.copy()
    return obj


def unwrap(scene):
    """Plain values (fresh copies of every array: the library may mutate its inputs)."""
    def fn(w):
        v = w.v
        if isinstance(v, np.ndarray):
            return v.copy()
        return v
    return _map(scene, fn)


def embed(arr, pads, fill=0):
    """arr placed in a canvas filled with `fill`; pads = (left, right, bottom, top)."""
    pl, pr, pb, pt = pads
    ny, nx = arr.shape
    out = np.full((ny + pb + pt, nx + pl + pr), fill, dtype=arr.dtype)
    out[pb:pb + ny, pl:pl + nx] = arr
    return out


def translated(scene, pads):
    """Scene embedded at integer offset (dx, dy) = (pads[0], pads[2])."""
    dx, dy = int(pads[0]), int(pads[2])

    def fn(w):
        if isinstance(w, Frame):
            return Frame(None if w.v is None else embed(w.v, pads, w.fill), w.fill)
        if isinstance(w, XY):
            return XY(None if w.v is None else w.v + np.array([dx, dy], dtype=float))
        if isinstance(w, Box):
            ox, oy, nx, ny = w.v
            return Box(ox + dx, oy + dy, nx, ny)
        if isinstance(w, Img):
            return Img(None if w.v is None else np.array(w.v, copy=True))
        return type(w)(w.v)
    return _map(scene, fn)


def transposed(scene):
    def fn(w):
        if isinstance(w, Frame):
            return Frame(None if w.v is None else np.ascontiguousarray(w.v.T), w.fill)
        if isinstance(w, XY):
            return XY(None if w.v is None else np.ascontiguousarray(w.v[..., ::-1]))
        if isinstance(w, Theta):
            return Theta(None if w.v is None else np.pi / 2.0 - np.asarray(w.v, dtype=float)
                         if np.ndim(w.v) else np.pi / 2.0 - float(w.v))
        if isinstance(w, ThetaDeg):
            return ThetaDeg(None if w.v is None else 90.0 - np.asarray(w.v, dtype=float)
                            if np.ndim(w.v) else 90.0 - float(w.v))
        if isinstance(w, Pair):
            return Pair(w.v[::-1])
        if isinstance(w, Img):
            return Img(None if w.v is None else np.ascontiguousarray(np.asarray(w.v).T))
        if isinstance(w, Box):
            ox, oy, nx, ny = w.v
            return Box(oy, ox, ny, nx)
        return type(w)(w.v)
    return _map(scene, fn)


def draw_pads(rng, maxpad=40, shape=None):
    """Independent pad widths 0..maxpad on each side with dx != dy (on purpose). With `shape` = (ny, nx) of the scene,
    35 % of the draws add extra padding along the SHORT axis so that the canvas has the opposite aspect of the scene
    (a tall scene goes into a wide canvas and vice versa): code that confuses shape[0] with shape[1] clips
    differently in the two frames."""
    while True:
        pl, pr, pb, pt = (int(v) for v in rng.integers(0, maxpad + 1, 4))
        if rng.random() < 0.15:
            pl = 0
        if rng.random() < 0.15:
            pb = 0
        if shape is not None and rng.random() < 0.35:
            ny, nx = shape
            extra = abs(ny - nx) + int(rng.integers(10, 60))
            a = int(rng.integers(0, extra + 1))
            if ny > nx:
                pl, pr = pl + a, pr + extra - a
            else:
                pb, pt = pb + a, pt + extra - a
        if pl != pb:
            return pl, pr, pb, pt


# ----------------------------------------------------------------------
# scene generator
# ----------------------------------------------------------------------
def gauss2d(yy, xx, x0, y0, amp, sx, sy, theta):
    """Elliptical Gaussian; theta = angle of the sx-axis from +x, counter-clockwise."""
    ct, st = np.cos(theta), np.sin(theta)
    u = (xx - x0) * ct + (yy - y0) * st
    v = -(xx - x0) * st + (yy - y0) * ct
    return amp * np.exp(-0.5 * ((u / sx) ** 2 + (v / sy) ** 2))


def make_scene(rng, *, flavour='general', margin=MARGIN, integer=False, nonneg=False,
               nsrc=None, core=None, max_sigma=2.6, nonfinite=False, round_sources=False, hostile=False, elongated=None, edge=7.0, scale=1.0, int_max=None):
    """Random asymmetric scene.

    flavour: 'general' (3-8 elliptical Gaussians, some close pairs), 'stars' (round-ish, compact,
             well separated: star finders / PSF photometry), 'single' (one source: centroids, data_properties)
    integer: round the data (and error, background) to integers (C15 precision variants)
    nonneg : add an offset so that every data value is >= 0 (unsigned variants)

    Returns a scene dict with Frames data/error/mask/bkg/segm/conv, Box frame, XY src (true centres) and
    plain lists of source parameters; data is EXACTLY zero in a margin of `margin` pixels.
    """
    if core is None:
        cny, cnx = (int(v) for v in rng.integers(34, 60, 2))
        if cny == cnx:
            cnx += 3                                   # never square: a swapped shape must be visible
        if elongated is None:
            elongated = rng.random() < 0.4
        if elongated:
            # strongly elongated core (either direction): sources at the far end of the long axis have coordinates
            # beyond the length of the short axis, cutout origins have x != y by large margins
            lng, sht = int(rng.integers(90, 141)), int(rng.integers(34, 51))
            cny, cnx = (lng, sht) if rng.random() < 0.5 else (sht, lng)
    else:
        cny, cnx = core
    ny, nx = cny + 2 * margin, cnx + 2 * margin
    yy, xx = np.mgrid[0:ny, 0:nx].astype(float)
    if nsrc is None:
        nsrc = {'general': int(rng.integers(3, 8)), 'stars': int(rng.integers(3, 7)),
                'single': 1}[flavour]
    sigma_n = float(rng.uniform(0.4, 1.5))
    srcs = []
    tries = 0
    while len(srcs) < nsrc and tries < 400:
        tries += 1
        x0 = float(rng.uniform(margin + edge, margin + cnx - 1 - edge))
        y0 = float(rng.uniform(margin + edge, margin + cny - 1 - edge))
        if flavour == 'stars':
            sx = float(rng.uniform(1.1, 1.9))
            ratio = float(rng.uniform(0.75, 1.0))
            minsep = 11.0
        else:
            sx = float(rng.uniform(1.3, max_sigma))
            ratio = float(rng.uniform(0.4, 0.9))
            minsep = 9.0
            if flavour == 'general' and srcs and rng.random() < 0.25:
                # close pair: a blend sharing one segment (deblending, apermask methods)
                j = int(rng.integers(0, len(srcs)))
                ang = rng.uniform(0, 2 * np.pi)
                sep = rng.uniform(4.0, 6.5)
                x0 = float(np.clip(srcs[j][0] + sep * np.cos(ang), margin + edge, margin + cnx - 1 - edge))
                y0 = float(np.clip(srcs[j][1] + sep * np.sin(ang), margin + edge, margin + cny - 1 - edge))
                minsep = 3.5
        if any(np.hypot(x0 - s[0], y0 - s[1]) < minsep for s in srcs):
            continue
        if round_sources:
            ratio = 1.0
        amp = float(rng.uniform(25.0, 220.0)) * sigma_n / 1.0
        theta = float(rng.uniform(0.0, np.pi))
        srcs.append((x0, y0, amp, sx, sx * ratio, theta))
    model = np.zeros((ny, nx))
    for s in srcs:
        model += gauss2d(yy, xx, *s)
    inside = np.zeros((ny, nx), bool)
    inside[margin:ny - margin, margin:nx - margin] = True
    noise = rng.normal(0.0, sigma_n, (ny, nx))
    data = np.where(inside, model + noise, 0.0)
    offset = 0.0
    if nonneg:
        offset = float(np.ceil(-data.min()) + 3.0)
        data = np.where(inside, data + offset, 0.0)
    # non-constant background map with different x and y gradients (an x/y swap must show)
    gx, gy = float(rng.uniform(0.02, 0.12)), float(rng.uniform(-0.1, -0.01))
    bkg = 20.0 + gx * xx + gy * yy + 0.6 * np.sin(xx / 7.3) * np.cos(yy / 5.1)      # > 0 everywhere
    # error map: positive everywhere, with structure (a wrong error cutout must show)
    error = np.sqrt(sigma_n ** 2 + np.abs(model) / float(rng.uniform(2.0, 8.0))) * (1.0 + 0.002 * xx + 0.001 * yy)
    f_ = 1.0
    if integer:
        f_ = 8.0                                        # keep sub-sigma structure after rounding
        fe_ = 24.0                                      # errors up to ~400: error**2 does not fit int16 / uint16
        if int_max is not None:
            # narrow dtype (uint8): everything must fit [0, int_max]
            f_ = min(8.0, (int_max - 8.0) / max(float(np.abs(data).max()), float(bkg.max()) + float(np.abs(data).max())))
            fe_ = min(24.0, (int_max - 2.0) / float(error.max()))
        data = np.rint(data * f_)
        model = model * f_
        sigma_n = sigma_n * f_
        offset = offset * f_
        error = np.rint(error * fe_) + 1.0
        bkg = np.rint(bkg * f_)
        srcs = [(s[0], s[1], s[2] * f_) + s[3:] for s in srcs]
    # segmentation map from the noise-free model (scipy.ndimage.label is trusted base)
    k = float(rng.uniform(1.0, 3.0))
    lab, nlab = ndi.label((model > k * sigma_n) & inside, structure=np.ones((3, 3)))
    if nlab:
        sizes = ndi.sum(np.ones_like(lab), lab, index=np.arange(1, nlab + 1))
        keep = np.zeros(nlab + 1, int)
        keep[1:][sizes >= 6] = np.arange(1, int(np.sum(sizes >= 6)) + 1)
        lab = keep[lab]
    segm = lab.astype(np.int32)
    # mask: none, or a few isolated pixels + one small block
    mask = np.zeros((ny, nx), bool)
    if rng.random() < 0.5:
        mask |= rng.random((ny, nx)) < 0.006
        by, bx = int(rng.integers(margin, ny - margin - 3)), int(rng.integers(margin, nx - margin - 3))
        mask[by:by + int(rng.integers(1, 4)), bx:bx + int(rng.integers(1, 4))] = True
    hostile_kinds = []
    if hostile:
        segm, mask, hostile_kinds = add_hostile_segments(rng, data, model, segm, mask, srcs, margin)
    conv = ndi.gaussian_filter(data, 1.1, mode='constant', cval=0.0, truncate=3.0)
    if integer:
        conv = np.rint(conv)
    # second band of the same field (multi-band catalogues with detection_cat): other noise, other fluxes
    data2 = np.where(inside, 0.55 * model + rng.normal(0.0, sigma_n, (ny, nx)) + offset, 0.0)
    if nonneg:
        data2 = np.maximum(data2, 0.0)
    if integer:
        data2 = np.rint(data2)
    nbad = 0
    if nonfinite:
        # a few NaN / inf pixels inside the core, half of them also flagged in the mask
        nbad = int(rng.integers(1, 6))
        by = rng.integers(margin, ny - margin, nbad)
        bx = rng.integers(margin, nx - margin, nbad)
        data[by, bx] = rng.choice([np.nan, np.nan, np.inf, -np.inf], nbad)
        mask[by[::2], bx[::2]] = True
    scene = {
        'data': Frame(data), 'error': Frame(error), 'mask': Frame(mask, False), 'bkg': Frame(bkg),
        'segm': Frame(segm), 'conv': Frame(conv), 'data2': Frame(data2), 'nonfinite': nbad, 'hostile': hostile_kinds,
        # data on top of the background map over the whole frame (no zero margin): Background2D,
        # detect_threshold, calc_total_error (C15 only; never used by C03)
        'bdata': Frame(np.maximum(np.where(inside, data, (np.rint(noise * f_ + offset) if integer else noise + offset)) + bkg,
                                  0.0 if nonneg else -np.inf)),
        'bkg_scalar': float(np.rint(np.median(bkg))), 'err_scalar': float(np.rint(np.median(error))),
        'frame': Box(0, 0, nx, ny),
        'src': XY(np.array([(s[0], s[1]) for s in srcs]).reshape(-1, 2)),
        'src_amp': [s[2] for s in srcs], 'src_sx': [s[3] for s in srcs], 'src_sy': [s[4] for s in srcs],
        'src_theta': Theta(np.array([s[5] for s in srcs])),
        'sigma': sigma_n, 'offset': offset, 'margin': margin, 'nlabels': int(segm.max()),
        'amp': float(np.nanmax(np.abs(np.where(np.isfinite(data), data, 0.0)))),
        'opts': {}, 'scale': 1.0,
    }
    if scale != 1.0:
        apply_scale(scene, scale)
    return scene


def draw_scale(rng):
    """Overall magnitude of the data and of every value-like input: 1 for about half of the cases, else a power of two
    2**-60..2**40 or a decimal power 1e-20..1e10 (hidden absolute tolerances, float32 intermediates, `close to 0`
    tests are the target)."""
    r = rng.random()
    if r < 0.5:
        return 1.0
    if r < 0.75:
        return float(2.0 ** int(rng.integers(-60, 41)))
    return float(10.0 ** int(rng.integers(-20, 11)))


def apply_scale(scene, scale):
    for k in ('data', 'error', 'bkg', 'conv', 'data2', 'bdata'):
        scene[k] = Frame(scene[k].v * scale, scene[k].fill)
    for k in ('sigma', 'offset', 'amp', 'bkg_scalar', 'err_scalar'):
        scene[k] = scene[k] * scale
    scene['src_amp'] = [a * scale for a in scene['src_amp']]
    scene['scale'] = scale


def add_hostile_segments(rng, data, model, segm, mask, srcs, margin):
    """Segments and masks that drive SourceCatalog / data_properties into their documented fallback branches:

    tiny      1-5 pixel segments (single pixel, pairs, L / diagonal shapes) on a source flank or on the noise:
              quadratic fit has < 6 points -> barycentre fallback; degenerate second moments; Kron radius below
              the minimum circular radius
    corner    a block on the flank of a source whose maximum sits at the corner / border of the segment
    ragged    a sparse (50 %) random subset of a 5x5 .. 6x7 box of faint pixels
    peakmask  a 2x3 + 1 block of masked pixels right next to the peak of a source (5 of the 9 pixels of the
              3x3 fit box masked)
    allmasked a small segment that lies entirely under the mask (fully masked source -> NaN row)

    New segments never overlap existing labels; they get the next free labels. Returns (segm, mask, kinds)."""
    ny, nx = data.shape
    segm = segm.copy()
    mask = mask.copy()
    kinds = []
    nextlab = int(segm.max()) + 1

    def free(sel):
        return sel.any() and not segm[sel].any()

    def place(shape_mask, y0, x0, kind):
        nonlocal nextlab
        h, w = shape_mask.shape
        if y0 < margin or x0 < margin or y0 + h > ny - margin or x0 + w > nx - margin:
            return False
        sel = np.zeros((ny, nx), bool)
        sel[y0:y0 + h, x0:x0 + w] = shape_mask
        # keep one pixel of clearance to other labels so that the new segment stays its own component
        grown = ndi.binary_dilation(sel, structure=np.ones((3, 3)))
        if not free(grown):
            return False
        segm[sel] = nextlab
        nextlab += 1
        kinds.append(kind)
        return True

    tiny_shapes = [np.ones((1, 1), bool), np.ones((1, 2), bool), np.ones((2, 1), bool),
                   np.array([[1, 0], [1, 1]], bool), np.array([[1, 0], [0, 1]], bool),
                   np.array([[1, 1, 1]], bool), np.array([[1, 1], [1, 1]], bool),
                   np.array([[0, 1, 0], [1, 1, 1], [0, 1, 0]], bool), np.array([[1, 1, 0], [0, 1, 1]], bool)]
    wanted = list(rng.permutation(['tiny', 'tiny', 'tiny', 'corner', 'ragged', 'peakmask', 'allmasked']))
    for kind in wanted[:int(rng.integers(3, 8))]:
        for _ in range(30):
            if kind == 'tiny':
                sh = tiny_shapes[int(rng.integers(0, len(tiny_shapes)))]
                if srcs and rng.random() < 0.6:
                    j = int(rng.integers(0, len(srcs)))
                    ang, rad = rng.uniform(0, 2 * np.pi), rng.uniform(4.0, 9.0)
                    y0, x0 = int(srcs[j][1] + rad * np.sin(ang)), int(srcs[j][0] + rad * np.cos(ang))
                else:
                    y0, x0 = int(rng.integers(margin, ny - margin)), int(rng.integers(margin, nx - margin))
                if place(sh, y0, x0, 'tiny'):
                    break
            elif kind == 'corner' and srcs:
                # block just outside the existing segment of a source, towards one corner direction: its brightest
                # pixel is the corner nearest to the source
                j = int(rng.integers(0, len(srcs)))
                h, w = int(rng.integers(2, 5)), int(rng.integers(2, 5))
                sy, sx = int(rng.choice([-1, 1])), int(rng.choice([-1, 1]))
                d = int(rng.integers(3, 8))
                y0 = int(srcs[j][1]) + (d if sy > 0 else -d - h + 1)
                x0 = int(srcs[j][0]) + (d if sx > 0 else -d - w + 1)
                if place(np.ones((h, w), bool), y0, x0, 'corner'):
                    break
            elif kind == 'ragged':
                h, w = int(rng.integers(5, 7)), int(rng.integers(5, 8))
                sh = rng.random((h, w)) < 0.5
                if sh.sum() < 3:
                    continue
                y0, x0 = int(rng.integers(margin, ny - margin)), int(rng.integers(margin, nx - margin))
                if place(sh, y0, x0, 'ragged'):
                    break
            elif kind == 'peakmask' and srcs:
                j = int(rng.integers(0, len(srcs)))
                py, px = int(round(srcs[j][1])), int(round(srcs[j][0]))
                # true peak of the noisy data near the source centre
                win = data[py - 1:py + 2, px - 1:px + 2]
                if win.shape != (3, 3) or not np.isfinite(win).all():
                    continue
                oy, ox = np.unravel_index(np.argmax(win), win.shape)
                py, px = py - 1 + int(oy), px - 1 + int(ox)
                if rng.random() < 0.5:
                    mask[py - 1:py + 1, px + 1] = True
                    mask[py + 1, px - 1:px + 2] = True
                else:
                    mask[py + 1, px - 1:px + 1] = True
                    mask[py - 1:py + 2, px - 1] = True
                    mask[py - 1, px] = True
                kinds.append('peakmask')
                break
            elif kind == 'allmasked':
                h, w = int(rng.integers(1, 4)), int(rng.integers(1, 4))
                y0, x0 = int(rng.integers(margin, ny - margin)), int(rng.integers(margin, nx - margin))
                if place(np.ones((h, w), bool), y0, x0, 'allmasked'):
                    mask[y0:y0 + h, x0:x0 + w] = True
                    break
    return segm, mask, kinds


def make_pedestal_image(rng, integer_ok=True):
    """Raw-frame-like image: large sky pedestal, small scatter, many pixels (>= 150 x 170), a few sources and a
    mild gradient. Every value is an integer in [0, 32500] so that the SAME numbers are exactly representable as
    float32, int16, int32, int64 and uint16. mean / scatter ~ 1e3..1e4 is what makes single-precision accumulation
    visible; an honest float64-accumulated statistic of the float32 input is identical to the float64 one."""
    ny, nx = int(rng.integers(150, 260)), int(rng.integers(170, 300))
    ped = float(rng.integers(6000, 30001))
    sig = float(rng.uniform(3.0, 20.0))
    yy, xx = np.mgrid[0:ny, 0:nx].astype(float)
    img = ped + rng.normal(0.0, sig, (ny, nx)) + float(rng.uniform(0, 0.02)) * xx - float(rng.uniform(0, 0.02)) * yy
    for _ in range(int(rng.integers(0, 6))):
        img += gauss2d(yy, xx, rng.uniform(10, nx - 10), rng.uniform(10, ny - 10), rng.uniform(50, 1500),
                       rng.uniform(1.2, 3.0), rng.uniform(1.2, 3.0), rng.uniform(0, np.pi))
    img = np.clip(np.rint(img), 0, 32500)
    mask = np.zeros((ny, nx), bool)
    if rng.random() < 0.5:
        mask |= rng.random((ny, nx)) < 0.01
    return img, mask, ped, sig


def make_galaxy_image(rng):
    """Bright elliptical galaxy (exponential profile, peak ~20000, scale length 35-55 px) + sky + noise on a
    ~150 x 165 frame, integer-valued in [0, 32500]: exactly representable in every precision variant, and bright
    enough that the pixel SUM over one area-integration sector at sma 45-60 exceeds the int16 and uint16 ranges."""
    ny, nx = int(rng.integers(145, 160)), int(rng.integers(160, 176))
    x0, y0 = nx / 2.0 + float(rng.uniform(-4, 4)), ny / 2.0 + float(rng.uniform(-4, 4))
    eps, pa = float(rng.uniform(0.1, 0.45)), float(rng.uniform(0.0, np.pi))
    h = float(rng.uniform(35.0, 55.0))
    yy, xx = np.mgrid[0:ny, 0:nx].astype(float)
    ct, st = np.cos(pa), np.sin(pa)
    u = (xx - x0) * ct + (yy - y0) * st
    v = -(xx - x0) * st + (yy - y0) * ct
    r = np.hypot(u, v / (1.0 - eps))
    img = float(rng.uniform(17000, 21000)) * np.exp(-r / h) + float(rng.uniform(100, 600)) \
        + rng.normal(0.0, float(rng.uniform(5, 30)), (ny, nx))
    img = np.clip(np.rint(img), 0, 32500)
    return img, dict(x0=x0, y0=y0, eps=eps, pa=pa)


def scene_digest_arrays(scene):
    return [scene['data'].v, scene['mask'].v, scene['segm'].v]


# ----------------------------------------------------------------------
# C15: representations of the same numbers
# ----------------------------------------------------------------------
VALUE_PRESERVING = ['bigendian', 'fortran', 'negstride', 'sliced', 'maskedarray', 'nddata', 'quantity']
PRECISION_CHANGING = ['int16', 'int32', 'int64', 'uint16', 'float32', 'uint8', 'uint32']


def represent(arr, variant, rng=None):
    """The same numbers in another representation. `arr` is a float64 C-contiguous ndarray (all scene
    arithmetic has already been done in float64). Container variants (nddata, quantity, maskedarray) are
    applied by the caller because they depend on the entry point's signature."""
    a = np.ascontiguousarray(arr, dtype=np.float64) if arr.dtype.kind == 'f' else np.ascontiguousarray(arr)
    if variant == 'native':
        return a.copy()
    if variant == 'bigendian':
        return a.astype(a.dtype.newbyteorder('>'))
    if variant == 'fortran':
        return np.asfortranarray(a)
    if variant == 'negstride':
        return np.ascontiguousarray(a[::-1, ::-1])[::-1, ::-1]
    if variant == 'sliced':
        ny, nx = a.shape
        big = np.full((2 * ny + 3, 3 * nx + 5), 1e30 if a.dtype.kind == 'f' else 1, dtype=a.dtype)
        big[1:1 + 2 * ny:2, 2:2 + 3 * nx:3] = a
        return big[1:1 + 2 * ny:2, 2:2 + 3 * nx:3]
    if variant == 'maskedarray':
        return np.ma.MaskedArray(a.copy(), mask=np.zeros(a.shape, bool))
    if variant in ('int16', 'int32', 'int64', 'uint16', 'float32', 'uint8', 'uint32'):
        out = a.astype(variant)
        if not np.array_equal(out.astype(np.float64), a):
            raise AssertionError(f'harness: values not exactly representable as {variant}')
        return out
    raise ValueError(variant)
