"""C10 workload table: public entry points that take array-like input.

Each entry is a function of a `pv.gen.c10_scene.Ctx`.  It passes represented
scene objects to the real API through `c.call` (library exceptions are counted,
not fatal: the sentinel compares the inputs on return AND on raise) and then
reads every public property of the result.
"""
from __future__ import annotations

import numpy as np

ENTRIES = {}
SLOW = set()


def entry(name, slow=False):
    def deco(f):
        ENTRIES[name] = f
        if slow:
            SLOW.add(name)
        return f
    return deco


def _positions(c):
    return c.plain(c.xy, 'positions')


def _pixel_apertures(c, which=None):
    from photutils.aperture import (CircularAnnulus, CircularAperture, EllipticalAnnulus,
                                    EllipticalAperture, RectangularAnnulus, RectangularAperture)
    p = _positions(c)
    th = float(c.rng.uniform(0, 3))
    mk = {
        'CircularAperture': lambda: CircularAperture(p, r=4.0),
        'CircularAnnulus': lambda: CircularAnnulus(p, r_in=4.0, r_out=7.0),
        'EllipticalAperture': lambda: EllipticalAperture(p, a=5.0, b=3.0, theta=th),
        'EllipticalAnnulus': lambda: EllipticalAnnulus(p, a_in=3.0, a_out=6.0, b_out=4.0, theta=th),
        'RectangularAperture': lambda: RectangularAperture(p, w=6.0, h=4.0, theta=th),
        'RectangularAnnulus': lambda: RectangularAnnulus(p, w_in=3.0, w_out=8.0, h_out=5.0, theta=th),
    }
    names = list(mk) if which is None else [which]
    return [c.own(c.call(mk[n]), 'aperture') for n in names]


def _method(c):
    return ['exact', 'center', 'subpixel'][int(c.rng.integers(0, 3))]


# ----------------------------------------------------------------------
# aperture
# ----------------------------------------------------------------------
@entry('aperture_photometry')
def e_aperture_photometry(c):
    from photutils.aperture import aperture_photometry
    aps = _pixel_apertures(c)
    k = int(c.rng.integers(1, 4))
    t = c.call(aperture_photometry, c.data, aps[:k] if k > 1 else aps[0], error=c.error, mask=c.mask,
               method=_method(c))
    c.call(aperture_photometry, c.data, aps[3], mask=c.mask)
    return t


@entry('aperture_photometry_nddata')
def e_aperture_photometry_nddata(c):
    import astropy.units as u
    from astropy.nddata import NDData, StdDevUncertainty
    from photutils.aperture import aperture_photometry
    from photutils.datasets import make_wcs
    data = c.data
    unit = None
    if c.unit is not None:
        data = c.own(np.array(c.data.value), 'nddata_values')
        unit = c.unit
    nd = c.call(NDData, data, uncertainty=StdDevUncertainty(np.array(c.raw_err)), mask=c.mask, unit=unit,
                wcs=make_wcs(c.shape), meta={'k': 1})
    if nd is None:
        return
    c.own(nd, 'nddata')
    aps = _pixel_apertures(c, 'CircularAperture')
    c.call(aperture_photometry, nd, aps[0], method=_method(c))
    sky = c.call(aps[0].to_sky, nd.wcs)
    if sky is not None:
        c.own(sky, 'sky_aperture')
        c.call(aperture_photometry, nd, sky)
        c.call(aperture_photometry, c.data, sky, wcs=nd.wcs, error=c.error, mask=c.mask)
        pix = c.call(sky.to_pixel, nd.wcs)
        c.read_all(sky)
        c.read_all(pix)
    _ = u


@entry('ApertureStats')
def e_aperture_stats(c):
    from astropy.stats import SigmaClip
    from photutils.aperture import ApertureStats
    which = ['CircularAperture', 'EllipticalAperture', 'RectangularAnnulus', 'CircularAnnulus'][int(c.rng.integers(0, 4))]
    ap = _pixel_apertures(c, which)[0]
    lb = c.plain(c.rng.uniform(0, 1, len(c.xy)), 'local_bkg') if c.rng.random() < 0.5 else None
    if lb is not None and c.unit is not None:
        lb = c.own(lb * c.unit, 'local_bkg_q')
    sc = SigmaClip(3.0) if c.rng.random() < 0.5 else None
    st = c.call(ApertureStats, c.data, ap, error=c.error, mask=c.mask, sigma_clip=sc,
                sum_method=_method(c), local_bkg=lb)
    c.read_all(st, methods=('to_table', 'copy'))
    if st is not None:
        one = c.call(st.__getitem__, 0)
        c.read_all(one)
        c.call(st.get_id, 1)
        c.call(st.get_ids, [1, 2])
    return st


def _mk_ap_entry(cls):
    @entry(f'{cls}.do_photometry')
    def e(c, cls=cls):
        ap = _pixel_apertures(c, cls)[0]
        if ap is None:
            return
        c.call(ap.do_photometry, c.data, error=c.error, mask=c.mask, method=_method(c))
        c.call(ap.area_overlap, c.data, mask=c.mask, method=_method(c))
        masks = c.call(ap.to_mask, method=_method(c))
        c.read_all(ap, methods=('copy',))
        if masks:
            m = masks[0]
            c.call(m.cutout, c.data, copy=bool(c.rng.integers(0, 2)))
            c.call(m.multiply, c.data)
            c.call(m.get_values, c.data, mask=c.mask)
            c.call(m.to_image, c.shape)
            c.read_all(m)
        c.call(ap.__getitem__, 0)
    return e


for _cls in ('CircularAperture', 'CircularAnnulus', 'EllipticalAperture', 'EllipticalAnnulus',
             'RectangularAperture', 'RectangularAnnulus'):
    _mk_ap_entry(_cls)


# ----------------------------------------------------------------------
# background
# ----------------------------------------------------------------------
def _mk_est_entry(cls):
    @entry(cls)
    def e(c, cls=cls):
        import photutils.background as B
        from astropy.stats import SigmaClip
        est = c.call(getattr(B, cls), sigma_clip=SigmaClip(3.0) if c.rng.random() < 0.7 else None)
        if est is None:
            return
        c.call(est, c.data)
        c.call(est, c.data, axis=int(c.rng.integers(0, 2)), masked=bool(c.rng.integers(0, 2)))
        fn = getattr(est, 'calc_background', None) or getattr(est, 'calc_background_rms')
        c.call(fn, c.data, axis=None)
        d3 = c.arr(np.stack([c.raw, c.raw + 1.0]), 'cube', primary=True)
        c.call(est, d3, axis=(1, 2))
    return e


for _cls in ('MeanBackground', 'MedianBackground', 'ModeEstimatorBackground', 'MMMBackground',
             'SExtractorBackground', 'BiweightLocationBackground', 'StdBackgroundRMS',
             'MADStdBackgroundRMS', 'BiweightScaleBackgroundRMS'):
    _mk_est_entry(_cls)


@entry('Background2D')
def e_background2d(c):
    import photutils.background as B
    rng = c.rng
    ny, nx = c.shape
    # ordinary boxes, boxes that divide the image exactly, full-width / full-height strips, one box = whole image
    box = [(8, 8), (7, 9), 10, (12, 11), (ny // 2, nx // 2), (ny // 3, nx), (ny, nx // 3), (ny, nx),
           (ny // 4, nx)][int(rng.integers(0, 9))]
    cov = None
    if rng.random() < 0.4:
        cm = np.zeros(c.shape, bool)
        cm[:3, :] = True
        cov = c.boolarr(cm, 'coverage_mask')
    kw = dict(mask=c.mask, coverage_mask=cov, filter_size=[(3, 3), 1, (1, 3)][int(rng.integers(0, 3))],
              exclude_percentile=[10.0, 50.0, 90.0][int(rng.integers(0, 3))],
              edge_method='pad')
    if rng.random() < 0.5:
        kw['bkg_estimator'] = getattr(B, ['MedianBackground', 'SExtractorBackground', 'MMMBackground',
                                          'BiweightLocationBackground'][int(rng.integers(0, 4))])()
        kw['bkgrms_estimator'] = getattr(B, ['StdBackgroundRMS', 'MADStdBackgroundRMS',
                                             'BiweightScaleBackgroundRMS'][int(rng.integers(0, 3))])()
    if rng.random() < 0.3:
        kw['interpolator'] = B.BkgIDWInterpolator()
    if rng.random() < 0.3:
        kw['filter_threshold'] = 5.0
        kw['filter_size'] = 3
    b = c.call(B.Background2D, c.data, box, **kw)
    c.read_all(b)
    return b


@entry('LocalBackground')
def e_local_background(c):
    from photutils.background import LocalBackground, MedianBackground
    lb = c.call(LocalBackground, 5.0, 9.0, MedianBackground())
    if lb is None:
        return
    x = c.plain(c.xy[:, 0], 'x')
    y = c.plain(c.xy[:, 1], 'y')
    c.call(lb, c.data, x, y, mask=c.mask)
    c.call(lb, c.data, float(c.xy[0, 0]), float(c.xy[0, 1]))


# ----------------------------------------------------------------------
# segmentation
# ----------------------------------------------------------------------
def _thr(c):
    level = 25.0 if c.cond == 'clean' else 4.0
    return level * c.scale


@entry('detect_threshold')
def e_detect_threshold(c):
    from photutils.segmentation import detect_threshold
    bkg = c.arr(np.full(c.shape, c.s(0.5)), 'background', secondary=True)
    c.call(detect_threshold, c.data, 2.0, background=bkg, error=c.error, mask=c.mask)
    c.call(detect_threshold, c.data, 3.0, mask=c.mask)
    c.call(detect_threshold, c.data, 3.0, background=c.q(c.s(0.1)), error=c.q(c.s(1.0)))


def _segm(c, deblend=False):
    """Harness-side segmentation image built from the raw scene (plain arrays, not monitored)."""
    from photutils.segmentation import detect_sources
    raw = np.nan_to_num(c.raw, nan=0.0, posinf=0.0, neginf=0.0)
    return detect_sources(raw, _thr(c), 5)


@entry('detect_sources')
def e_detect_sources(c):
    from photutils.segmentation import detect_sources
    thr2d = c.arr(np.full(c.shape, _thr(c)), 'threshold', secondary=True)
    s = c.call(detect_sources, c.data, thr2d, 5, mask=c.mask, connectivity=int(c.rng.choice([4, 8])))
    c.call(detect_sources, c.data, c.q(_thr(c)), 3)
    c.read_all(s, skip=('cmap',))
    return s


@entry('deblend_sources')
def e_deblend(c):
    from photutils.segmentation import deblend_sources
    segm = _segm(c)
    if segm is None:
        return
    c.own(segm, 'segment_img')
    labels = c.plain(segm.labels[:2], 'labels', dtype=int) if c.rng.random() < 0.4 else None
    s = c.call(deblend_sources, c.data, segm, 4, labels=labels, nlevels=8, contrast=0.01,
               mode=str(c.rng.choice(['exponential', 'linear', 'sinh'])), progress_bar=False)
    c.read_all(s, skip=('cmap',))


@entry('SourceFinder')
def e_source_finder(c):
    from photutils.segmentation import SourceFinder
    f = c.call(SourceFinder, 5, deblend=True, nlevels=8, progress_bar=False)
    if f is None:
        return
    thr2d = c.arr(np.full(c.shape, _thr(c)), 'threshold', secondary=True)
    s = c.call(f, c.data, thr2d, mask=c.mask)
    c.read_all(s, skip=('cmap',))


@entry('SourceCatalog')
def e_source_catalog(c):
    from astropy.convolution import convolve
    from photutils.datasets import make_wcs
    from photutils.segmentation import SourceCatalog, make_2dgaussian_kernel
    rng = c.rng
    segm = _segm(c)
    if segm is None:
        return
    c.own(segm, 'segment_img')
    kern = make_2dgaussian_kernel(c.fwhm, 5)
    conv = convolve(np.nan_to_num(c.raw, nan=0.0, posinf=0.0, neginf=0.0), kern)
    kw = dict(error=c.error, mask=c.mask, localbkg_width=int(rng.choice([0, 4])),
              apermask_method=str(rng.choice(['correct', 'mask', 'none'])), progress_bar=False)
    if rng.random() < 0.7:
        kw['convolved_data'] = c.arr(conv, 'convolved_data', secondary=True, allow_int=False)
    if rng.random() < 0.5:
        kw['background'] = c.arr(np.full(c.shape, c.s(0.3)) + rng.normal(0, c.s(0.01), c.shape), 'background',
                                 secondary=True, allow_int=False)
    if rng.random() < 0.4:
        kw['wcs'] = make_wcs(c.shape)
    cat = c.call(SourceCatalog, c.data, segm, **kw)
    if cat is None:
        return
    c.read_all(cat, methods=('to_table', 'copy', 'make_kron_apertures'))
    c.call(cat.circular_photometry, 4.0)
    c.call(cat.kron_photometry, (2.0, 1.0))
    c.call(cat.fluxfrac_radius, 0.5)
    c.call(cat.make_circular_apertures, 3.0)
    c.call(cat.make_cutouts, (9, 9))
    c.call(cat.make_cutouts, (9, 9), array=c.error)
    one = c.call(cat.__getitem__, 0)
    c.read_all(one)
    c.call(cat.get_labels, c.plain(cat.labels[:2], 'labels', dtype=int))
    if rng.random() < 0.5:
        cat2 = c.call(SourceCatalog, c.data, segm, detection_cat=cat, error=c.error, mask=c.mask,
                      progress_bar=False)
        c.read_all(cat2)
    extra = c.plain(np.arange(cat.nlabels, dtype=float), 'extra')
    c.call(cat.add_extra_property, 'myprop', extra)
    c.call(cat.to_table, columns=('label', 'myprop'))
    return cat


@entry('SegmentationImage')
def e_segmentation_image(c):
    from photutils.segmentation import SegmentationImage
    from photutils.utils import circular_footprint
    rng = c.rng
    base = _segm(c)
    if base is None:
        return
    arr = c.labels(base.data.copy(), 'segm_array')
    s = c.call(SegmentationImage, arr)
    if s is None:
        return
    c.read_all(s, skip=('cmap',), methods=('copy',))
    m = c.raw_mask if c.raw_mask is not None else (rng.random(c.shape) < 0.02)
    mk = c.boolarr(m, 'mask_arg')
    c.call(s.remove_masked_labels, mk, partial_overlap=bool(rng.integers(0, 2)), relabel=bool(rng.integers(0, 2)))
    fp = c.plain(circular_footprint(2), 'footprint', dtype=int)
    c.call(s.make_source_mask, footprint=fp)
    c.call(s.make_source_mask, size=3)
    if s.nlabels >= 2:
        labs = c.plain(s.labels[:2], 'labels', dtype=int)
        c.call(s.get_indices, labs)
        c.call(s.get_areas, labs)
        c.call(s.check_labels, labs)
        c.call(s.keep_labels, labs, relabel=bool(rng.integers(0, 2)))
        labs2 = c.plain(s.labels[:1], 'labels', dtype=int)
        c.call(s.reassign_labels, labs2, 7)
        c.call(s.remove_labels, c.plain(s.labels[:1], 'labels', dtype=int))
    c.call(s.relabel_consecutive, 2)
    c.call(s.remove_border_labels, 2)
    arr2 = c.labels(base.data.copy(), 'segm_array2')
    c.call(setattr, s, 'data', arr2)
    c.read_all(s, skip=('cmap',))
    if s.nlabels:
        seg = c.call(lambda: s.segments[0])
        if seg is not None:
            c.call(seg.make_cutout, c.data, masked_array=bool(rng.integers(0, 2)))
            c.read_all(seg)
    sl = c.call(s.__getitem__, (slice(2, 20), slice(3, 25)))
    c.read_all(sl, skip=('cmap',))
    c.call(np.asarray, s)


@entry('make_2dgaussian_kernel')
def e_kernel(c):
    from photutils.segmentation import make_2dgaussian_kernel
    from photutils.utils import circular_footprint
    c.call(make_2dgaussian_kernel, c.fwhm, 5)
    c.call(circular_footprint, 3)


# ----------------------------------------------------------------------
# detection
# ----------------------------------------------------------------------
@entry('find_peaks')
def e_find_peaks(c):
    from photutils.centroids import centroid_com
    from photutils.detection import find_peaks
    from photutils.utils import circular_footprint
    rng = c.rng
    thr2d = c.arr(np.full(c.shape, _thr(c)), 'threshold', secondary=True)
    fp = c.plain(circular_footprint(2), 'footprint', dtype=bool)
    c.call(find_peaks, c.data, thr2d, box_size=5, mask=c.mask)
    c.call(find_peaks, c.data, c.q(_thr(c)), footprint=fp, mask=c.mask, border_width=2,
           npeaks=int(rng.integers(1, 6)), centroid_func=centroid_com, error=c.error)


def _mk_finder_entry(name):
    @entry(name)
    def e(c, name=name):
        import photutils.detection as D
        rng = c.rng
        thr = c.q(_thr(c) * 1.5)
        kw = {}
        if rng.random() < 0.3:
            kw['xycoords'] = c.plain(c.xy + 0.2, 'xycoords')
        if rng.random() < 0.3:
            kw['brightest'] = 2
        if rng.random() < 0.3:
            kw['peakmax'] = c.q(c.s(250.0))
        f = c.call(getattr(D, name), thr, c.fwhm, **kw)
        if f is None:
            return
        c.call(f, c.data, mask=c.mask)
        c.call(f.find_stars, c.data, mask=c.mask)
    return e


_mk_finder_entry('DAOStarFinder')
_mk_finder_entry('IRAFStarFinder')


@entry('StarFinder')
def e_starfinder(c):
    from photutils.detection import StarFinder
    rng = c.rng
    kern = c.arr(c.raw_kernel * 3.0, 'kernel', secondary=True, unit=False, allow_int=False)
    f = c.call(StarFinder, c.q(_thr(c) * 1.5), kern, min_separation=3.0,
               brightest=(2 if rng.random() < 0.3 else None), peakmax=(c.q(c.s(250.0)) if rng.random() < 0.3 else None))
    if f is None:
        return
    if rng.random() < 0.5:
        c.call(f, c.data, mask=c.mask)
        c.call(f.find_stars, c.data, mask=c.mask)
    else:
        c.call(f.find_stars, c.data, mask=c.mask)
        c.call(f, c.data, mask=c.mask)


# ----------------------------------------------------------------------
# centroids
# ----------------------------------------------------------------------
def _cutout(c, size=15, what='data'):
    """Represented cutout around star 0 (a fresh represented array; for rep 'view' a view)."""
    x, y = c.xy[0]
    x0, y0 = int(round(x)) - size // 2, int(round(y)) - size // 2
    x0, y0 = max(x0, 0), max(y0, 0)
    sl = (slice(y0, y0 + size), slice(x0, x0 + size))
    d = c.arr(c.raw[sl], 'cutout', primary=True)
    e = c.arr(c.raw_err[sl], 'cutout_error', secondary=True)
    m = None if c.raw_mask is None else c.boolarr(c.raw_mask[sl], 'cutout_mask')
    return d, e, m


@entry('centroid_com')
def e_centroid_com(c):
    from photutils.centroids import centroid_com
    d, e, m = _cutout(c)
    c.call(centroid_com, d, mask=m)
    c.call(centroid_com, c.data, mask=c.mask)


@entry('centroid_quadratic')
def e_centroid_quadratic(c):
    from photutils.centroids import centroid_quadratic
    d, e, m = _cutout(c)
    c.call(centroid_quadratic, d, mask=m)
    c.call(centroid_quadratic, c.data, xpeak=int(round(c.xy[0, 0])), ypeak=int(round(c.xy[0, 1])),
           fit_boxsize=5, search_boxsize=3, mask=c.mask)


@entry('centroid_1dg')
def e_centroid_1dg(c):
    from photutils.centroids import centroid_1dg
    d, e, m = _cutout(c)
    c.call(centroid_1dg, d, error=e, mask=m)
    c.call(centroid_1dg, d, mask=m)


@entry('centroid_2dg')
def e_centroid_2dg(c):
    from photutils.centroids import centroid_2dg
    d, e, m = _cutout(c)
    c.call(centroid_2dg, d, error=e, mask=m)
    c.call(centroid_2dg, d, mask=m)


@entry('centroid_sources')
def e_centroid_sources(c):
    from photutils.centroids import (centroid_1dg, centroid_2dg, centroid_com, centroid_quadratic,
                                     centroid_sources)
    from photutils.utils import circular_footprint
    rng = c.rng
    x = c.plain(c.xy[:, 0] + rng.uniform(-1, 1, len(c.xy)), 'xpos')
    y = c.plain(c.xy[:, 1] + rng.uniform(-1, 1, len(c.xy)), 'ypos')
    func = [centroid_com, centroid_quadratic, centroid_1dg, centroid_2dg][int(rng.integers(0, 4))]
    kw = {}
    if func in (centroid_1dg, centroid_2dg) and rng.random() < 0.6:
        kw['error'] = c.error
    if rng.random() < 0.5:
        c.call(centroid_sources, c.data, x, y, box_size=9, mask=c.mask, centroid_func=func, **kw)
    else:
        fp = c.plain(circular_footprint(4), 'footprint', dtype=bool)
        c.call(centroid_sources, c.data, x, y, box_size=None, footprint=fp, mask=c.mask,
               centroid_func=func, **kw)
    c.call(centroid_sources, c.data, list(map(float, x)), list(map(float, y)), box_size=7)


# ----------------------------------------------------------------------
# psf
# ----------------------------------------------------------------------
@entry('fit_2dgaussian')
def e_fit_2dgaussian(c):
    from photutils.psf import fit_2dgaussian
    xy = c.plain(c.xy, 'xypos')
    r = c.call(fit_2dgaussian, c.data, xypos=xy, fwhm=c.fwhm, fix_fwhm=bool(c.rng.integers(0, 2)),
               fit_shape=7, mask=c.mask, error=c.error)
    c.read_all(r)
    d, e, m = _cutout(c)
    c.call(fit_2dgaussian, d, mask=m, error=e)


@entry('fit_fwhm')
def e_fit_fwhm(c):
    from photutils.psf import fit_fwhm
    xy = c.plain(c.xy, 'xypos')
    c.call(fit_fwhm, c.data, xypos=xy, fit_shape=7, mask=c.mask, error=c.error)
    d, e, m = _cutout(c)
    c.call(fit_fwhm, d, mask=m)


def _psf_model(c, kind=None):
    from photutils.psf import CircularGaussianPRF, ImagePSF
    kind = kind or ['prf', 'image'][int(c.rng.integers(0, 2))]
    if kind == 'prf':
        m = CircularGaussianPRF(flux=1.0, fwhm=c.fwhm)
    else:
        yy, xx = np.mgrid[-10:11, -10:11]
        d = np.exp(-(xx ** 2 + yy ** 2) / (2 * c.sigma ** 2))
        d /= d.sum()
        m = ImagePSF(d, flux=1.0)
    return c.own(m, 'psf_model')


@entry('PSFPhotometry')
def e_psf_photometry(c):
    from photutils.background import LocalBackground
    from photutils.detection import DAOStarFinder
    from photutils.psf import PSFPhotometry, SourceGrouper
    rng = c.rng
    model = _psf_model(c)
    kw = dict(aperture_radius=4.0, progress_bar=False)
    use_init = rng.random() < 0.7
    if not use_init or rng.random() < 0.3:
        kw['finder'] = DAOStarFinder(c.q(_thr(c) * 1.5), c.fwhm)
    if rng.random() < 0.5:
        kw['grouper'] = SourceGrouper(12.0)
    if rng.random() < 0.4:
        kw['localbkg_estimator'] = LocalBackground(5.0, 9.0)
    if rng.random() < 0.3:
        kw['xy_bounds'] = (2.0, 2.0)
    p = c.call(PSFPhotometry, model, (5, 5), **kw)
    if p is None:
        return
    init = None
    if use_init:
        names = [('x_0', 'y_0', 'flux'), ('x_init', 'y_init', 'flux_init'), ('xcentroid', 'ycentroid')][int(rng.integers(0, 3))]
        extra = {}
        n = len(c.xy)
        if rng.random() < 0.3:
            extra['group_id'] = np.arange(n) // 2 + 1
        if rng.random() < 0.3:
            extra['local_bkg'] = c.q(np.full(n, c.s(0.1)))
        init = c.star_table(names, extra=extra)
    t = c.call(p, c.data, mask=c.mask, error=c.error, init_params=init)
    c.read_all(p)
    if t is not None:
        c.call(p.make_model_image, c.shape, psf_shape=(7, 7))
        c.call(p.make_residual_image, c.data, psf_shape=(7, 7))
    return p


@entry('IterativePSFPhotometry', slow=True)
def e_iter_psf_photometry(c):
    from photutils.detection import DAOStarFinder
    from photutils.psf import IterativePSFPhotometry, SourceGrouper
    rng = c.rng
    model = _psf_model(c)
    finder = DAOStarFinder(c.q(_thr(c) * 1.5), c.fwhm)
    p = c.call(IterativePSFPhotometry, model, (5, 5), finder, aperture_radius=4.0, maxiters=2,
               mode=str(rng.choice(['new', 'all'])), grouper=SourceGrouper(10.0), progress_bar=False)
    if p is None:
        return
    init = c.star_table() if rng.random() < 0.5 else None
    t = c.call(p, c.data, mask=c.mask, error=c.error, init_params=init)
    c.read_all(p)
    if t is not None:
        c.call(p.make_model_image, c.shape, psf_shape=(7, 7))
        c.call(p.make_residual_image, c.data, psf_shape=(7, 7))


@entry('SourceGrouper')
def e_grouper(c):
    from photutils.psf import SourceGrouper
    g = c.call(SourceGrouper, 15.0)
    x = c.plain(c.xy[:, 0], 'x')
    y = c.plain(c.xy[:, 1], 'y')
    c.call(g, x, y)
    c.call(g, list(map(float, x)), list(map(float, y)))


def _stars(c):
    from astropy.nddata import NDData
    from photutils.psf import extract_stars
    data = c.data
    if c.unit is not None or isinstance(data, np.ma.MaskedArray) and False:
        pass
    nd = c.call(NDData, data)
    if nd is None:
        return None, None
    c.own(nd, 'nddata')
    tbl = c.star_table(('x', 'y'))
    stars = c.call(extract_stars, nd, tbl, size=11)
    return nd, stars


@entry('extract_stars')
def e_extract_stars(c):
    from astropy.nddata import NDData
    from photutils.psf import extract_stars
    nd, stars = _stars(c)
    if stars is None:
        return
    c.read_all(stars)
    for s in list(stars)[:2]:
        c.read_all(s)
    nd2 = c.own(NDData(c.arr(c.raw, 'data2', primary=True)), 'nddata2')
    c.call(extract_stars, [nd, nd2], [c.star_table(('x', 'y')), c.star_table(('x', 'y'))], size=(9, 11))


@entry('EPSFBuilder', slow=True)
def e_epsf_builder(c):
    from photutils.psf import EPSFBuilder
    nd, stars = _stars(c)
    if stars is None:
        return
    c.own(stars, 'stars')
    b = c.call(EPSFBuilder, oversampling=2, maxiters=2, progress_bar=False,
               smoothing_kernel=str(c.rng.choice(['quartic', 'quadratic'])))
    if b is None:
        return
    r = c.call(b, stars)
    if r is not None:
        epsf, fitted = r
        c.read_all(epsf)
        c.read_all(fitted)
        for s in list(fitted)[:2]:
            c.read_all(s)
            c.call(s.compute_residual_image, epsf)
            c.call(s.register_epsf, epsf)


@entry('EPSFStar')
def e_epsf_star(c):
    from photutils.psf import EPSFStar, EPSFStars
    d, e, m = _cutout(c, 11)
    w = c.arr(1.0 / np.where(np.isfinite(c.raw_err[:11, :11]), c.raw_err[:11, :11], 1.0) ** 2, 'weights',
              secondary=True, unit=False)
    cc = c.plain([5.2, 4.9], 'cutout_center')
    s = c.call(EPSFStar, d, weights=w, cutout_center=cc, origin=(3, 4))
    c.read_all(s)
    if s is not None:
        ss = c.call(EPSFStars, [s])
        c.read_all(ss)


@entry('ImagePSF')
def e_image_psf(c):
    from photutils.psf import ImagePSF
    rng = c.rng
    yy, xx = np.mgrid[-8:9, -8:9]
    d = np.exp(-(xx ** 2 + yy ** 2) / (2 * c.sigma ** 2))
    if c.cond in ('nonfinite', 'mask_nonfinite'):
        d[0, 0] = np.nan
    if c.cond != 'clean':
        d[1, 1] = -0.01
    arr = c.arr(d, 'psf_data', primary=True, unit=False)
    m = c.call(ImagePSF, arr, flux=2.0, x_0=8.3, y_0=7.7, oversampling=int(rng.choice([1, 2])))
    if m is None:
        return
    c.own(m, 'psf_model')
    x = c.plain(rng.uniform(0, 16, (6, 5)), 'x')
    y = c.plain(rng.uniform(0, 16, (6, 5)), 'y')
    c.call(m, x, y)
    c.call(m.evaluate, x, y, 1.5, 8.0, 8.0)
    c.read_all(m, methods=('copy',))
    return m


@entry('GriddedPSFModel')
def e_gridded_psf(c):
    from astropy.nddata import NDData
    from photutils.psf import GriddedPSFModel
    rng = c.rng
    yy, xx = np.mgrid[-6:7, -6:7]
    psfs = []
    for k in range(4):
        s = c.sigma * (1 + 0.05 * k)
        d = np.exp(-(xx ** 2 + yy ** 2) / (2 * s ** 2))
        psfs.append(d / d.sum())
    cube = c.arr(np.array(psfs), 'psf_cube', primary=True, unit=False, allow_int=False)
    meta = {'grid_xypos': [(0, 0), (40, 0), (0, 40), (40, 40)], 'oversampling': 1}
    nd = c.call(NDData, cube, meta=meta)
    if nd is None:
        return
    c.own(nd, 'nddata')
    m = c.call(GriddedPSFModel, nd, flux=3.0, x_0=20.0, y_0=21.0)
    if m is None:
        return
    c.own(m, 'psf_model')
    x = c.plain(rng.uniform(10, 30, 25), 'x')
    y = c.plain(rng.uniform(10, 30, 25), 'y')
    c.call(m, x, y)
    c.call(m.evaluate, x, y, 1.0, 20.5, 20.5)
    c.read_all(m, methods=('copy',))
    yy2, xx2 = np.mgrid[15:26, 15:26]
    c.call(m, c.plain(xx2.astype(float), 'xg'), c.plain(yy2.astype(float), 'yg'))


@entry('GriddedPSFModel_photometry', slow=True)
def e_gridded_phot(c):
    from astropy.nddata import NDData
    from photutils.psf import GriddedPSFModel, PSFPhotometry
    yy, xx = np.mgrid[-6:7, -6:7]
    d = np.exp(-(xx ** 2 + yy ** 2) / (2 * c.sigma ** 2))
    d /= d.sum()
    nd = NDData(np.array([d, d, d, d]), meta={'grid_xypos': [(0, 0), (50, 0), (0, 50), (50, 50)],
                                              'oversampling': 1})
    m = c.call(GriddedPSFModel, nd)
    if m is None:
        return
    c.own(m, 'psf_model')
    p = c.call(PSFPhotometry, m, (5, 5), aperture_radius=4.0, progress_bar=False)
    if p is None:
        return
    c.call(p, c.data, mask=c.mask, error=c.error, init_params=c.star_table())
    c.read_all(p)


@entry('legacy_image_models')
def e_legacy_models(c):
    from photutils.psf import EPSFModel, FittableImageModel
    rng = c.rng
    yy, xx = np.mgrid[-8:9, -8:9]
    d = np.exp(-(xx ** 2 + yy ** 2) / (2 * c.sigma ** 2))
    for cls in (FittableImageModel, EPSFModel):
        arr = c.arr(d, 'psf_data', primary=True, unit=False)
        m = c.call(cls, arr, flux=2.0, x_0=8.0, y_0=8.0, normalize=bool(rng.integers(0, 2)))
        if m is None:
            continue
        c.own(m, 'psf_model')
        x = c.plain(rng.uniform(0, 16, 12), 'x')
        y = c.plain(rng.uniform(0, 16, 12), 'y')
        c.call(m, x, y)
        c.read_all(m, methods=('copy',))


def _mk_func_model_entry(name):
    @entry(name)
    def e(c, name=name):
        import photutils.psf as P
        rng = c.rng
        m = c.call(getattr(P, name))
        if m is None:
            return
        c.own(m, 'psf_model')
        x = c.arr(rng.uniform(-4, 4, (7, 6)), 'x', primary=True, unit=False)
        y = c.arr(rng.uniform(-4, 4, (7, 6)), 'y', secondary=True, unit=False, allow_int=False)
        c.call(m, x, y)
        pv = [float(getattr(m, p).value) for p in m.param_names]
        c.call(m.evaluate, x, y, *pv)
        if hasattr(m, 'fit_deriv') and m.fit_deriv is not None:
            c.call(m.fit_deriv, x, y, *pv)
        c.read_all(m, methods=('copy',))
    return e


for _n in ('AiryDiskPSF', 'CircularGaussianPRF', 'CircularGaussianPSF', 'CircularGaussianSigmaPRF',
           'GaussianPRF', 'GaussianPSF', 'IntegratedGaussianPRF', 'MoffatPSF'):
    _mk_func_model_entry(_n)


@entry('make_psf_model')
def e_make_psf_model(c):
    from astropy.modeling.models import Gaussian2D
    from photutils.psf import make_psf_model
    g = c.own(Gaussian2D(amplitude=1.0, x_stddev=c.sigma, y_stddev=c.sigma), 'model')
    m = c.call(make_psf_model, g, x_name='x_mean', y_name='y_mean', normalize=True, dx=15, dy=15, subsample=3)
    if m is None:
        return
    c.own(m, 'psf_model')
    x = c.plain(c.rng.uniform(-3, 3, 10), 'x')
    y = c.plain(c.rng.uniform(-3, 3, 10), 'y')
    c.call(m, x, y)


@entry('make_model_image')
def e_make_model_image(c):
    from photutils.datasets import make_model_image
    from photutils.psf import make_psf_model_image
    model = _psf_model(c)
    t = c.star_table()
    c.call(make_model_image, c.shape, model, t, model_shape=(9, 9),
           discretize_method=str(c.rng.choice(['center', 'interp', 'oversample'])), discretize_oversample=3)
    c.call(make_model_image, c.shape, model, t, bbox_factor=(None if c.rng.random() < 0.5 else 3.0),
           model_shape=(None if model.bounding_box is not None and False else (7, 7)))
    c.call(make_psf_model_image, c.shape, model, 4, model_shape=(9, 9), seed=1,
           flux=(100, 200))


@entry('model_params')
def e_model_params(c):
    from photutils.datasets import (make_model_params, make_random_models_table, params_table_to_models)
    from photutils.psf import CircularGaussianPRF
    ranges = c.own({'amplitude': [100, 200], 'x_mean': [0, 30], 'y_mean': [0, 30]}, 'param_ranges')
    c.call(make_random_models_table, 5, ranges, seed=0)
    c.call(make_model_params, c.shape, 4, flux=(1, 2), seed=0)
    t = c.star_table()
    m = c.own(CircularGaussianPRF(fwhm=c.fwhm), 'psf_model')
    c.call(params_table_to_models, t, m)


@entry('psf_matching')
def e_matching(c):
    from photutils.psf.matching import (CosineBellWindow, SplitCosineBellWindow, TopHatWindow, TukeyWindow,
                                        HanningWindow, create_matching_kernel, resize_psf)
    yy, xx = np.mgrid[-12:13, -12:13]
    g1 = np.exp(-(xx ** 2 + yy ** 2) / (2 * 3.0 ** 2))
    g2 = np.exp(-(xx ** 2 + yy ** 2) / (2 * 5.0 ** 2))
    if c.cond != 'clean':
        g1[0, 0] = -1e-4
    a = c.arr(g1, 'source_psf', primary=True, unit=False)
    b = c.arr(g2, 'target_psf', secondary=True, unit=False, allow_int=False)
    w = [CosineBellWindow(0.35), SplitCosineBellWindow(0.3, 0.2), TopHatWindow(0.4), TukeyWindow(0.4),
         HanningWindow(), None][int(c.rng.integers(0, 6))]
    c.call(create_matching_kernel, a, b, window=w)
    c.call(resize_psf, a, 0.1, 0.05)
    if w is not None:
        c.call(w, (25, 25))


@entry('grid_from_epsfs')
def e_grid_from_epsfs(c):
    from photutils.psf import ImagePSF, grid_from_epsfs
    yy, xx = np.mgrid[-6:7, -6:7]
    d = np.exp(-(xx ** 2 + yy ** 2) / (2 * c.sigma ** 2))
    eps = []
    for k, (x0, y0) in enumerate([(0, 0), (40, 0), (0, 40), (40, 40)]):
        m = ImagePSF(d * (1 + 0.01 * k), x_0=x0, y_0=y0)
        eps.append(c.own(m, 'epsf'))
    lst = c.own(eps, 'epsfs')
    c.call(grid_from_epsfs, lst, meta=c.own({'a': 1}, 'meta'))
    pos = c.plain([(0, 0), (40, 0), (0, 40), (40, 40)], 'grid_xypos', dtype=float)
    c.call(grid_from_epsfs, lst, grid_xypos=pos)


# ----------------------------------------------------------------------
# datasets / utils / morphology
# ----------------------------------------------------------------------
@entry('apply_poisson_noise')
def e_poisson(c):
    from photutils.datasets import apply_poisson_noise, make_noise_image
    c.call(apply_poisson_noise, c.data, seed=1)
    pos = c.arr(np.abs(np.nan_to_num(c.raw, nan=1.0, posinf=5.0, neginf=2.0)), 'posdata', primary=True)
    c.call(apply_poisson_noise, pos, seed=1)
    c.call(make_noise_image, c.shape, distribution='gaussian', mean=0.0, stddev=1.0, seed=0)


@entry('calc_total_error')
def e_total_error(c):
    from photutils.utils import calc_total_error
    bkg_err = c.arr(np.full(c.shape, c.s(1.2)), 'bkg_error', secondary=True)
    gain = c.plain(np.full(c.shape, 2.0 / c.scale), 'effective_gain')
    if c.unit is not None:
        import astropy.units as u
        gain = c.own(np.full(c.shape, 2.0 / c.scale) * u.electron / c.unit, 'effective_gain')
    c.call(calc_total_error, c.data, bkg_err, gain)
    c.call(calc_total_error, c.data, bkg_err, 2.0 / c.scale if c.unit is None else gain[0, 0])


@entry('ImageDepth', slow=True)
def e_depth(c):
    from photutils.utils import ImageDepth
    d = c.call(ImageDepth, 3.0, nsigma=5.0, napers=30, niters=2, overlap=False, seed=1, zeropoint=23.9,
               progress_bar=False)
    if d is None:
        return
    segm = _segm(c)
    m = (segm.data > 0) if segm is not None else np.zeros(c.shape, bool)
    if c.raw_mask is not None:
        m |= c.raw_mask
    mk = c.boolarr(m, 'mask_arg')
    c.call(d, c.data, mk)
    c.read_all(d)
    # (xi) nothing-detected source mask: all False, caller-owned, and the same object used for a second request
    empty = c.plain(np.zeros(c.shape, bool), 'mask_allfalse', dtype=bool)
    c.call(d, c.data, empty)
    d2 = c.call(ImageDepth, 2.5, nsigma=3.0, napers=20, niters=1, mask_pad=int(c.rng.integers(0, 3)), seed=2,
                progress_bar=False)
    if d2 is not None:
        c.call(d2, c.data, empty)
        c.read_all(d2)


@entry('gini')
def e_gini(c):
    from photutils.morphology import gini
    c.call(gini, c.data, mask=c.mask)
    d, e, m = _cutout(c)
    c.call(gini, d, mask=m)


@entry('data_properties')
def e_data_properties(c):
    from photutils.morphology import data_properties
    d, e, m = _cutout(c)
    bkg = c.arr(np.full(np.shape(d), c.s(0.2)), 'background', secondary=True)
    r = c.call(data_properties, d, mask=m, background=bkg)
    c.read_all(r)
    c.call(data_properties, d, mask=m, background=c.q(c.s(0.1)))


@entry('CutoutImage')
def e_cutout_image(c):
    from photutils.utils import CutoutImage
    rng = c.rng
    x, y = c.xy[0]
    for mode in ('trim', 'partial'):
        ci = c.call(CutoutImage, c.data, (float(y), float(x)) if rng.random() < 0.5 else (2.0, 3.0), (9, 11),
                    mode=mode, copy=bool(rng.integers(0, 2)))
        c.read_all(ci)
        if ci is not None:
            c.call(np.asarray, ci)


@entry('ShepardIDWInterpolator')
def e_idw(c):
    from photutils.utils import ShepardIDWInterpolator
    rng = c.rng
    n = 40
    coords = c.arr(rng.uniform(0, 10, (n, 2)), 'coordinates', primary=True, unit=False)
    vals = c.arr(rng.normal(0, 1, n), 'values', secondary=True, unit=False, allow_int=False)
    w = c.plain(rng.uniform(0.5, 1, n), 'weights') if rng.random() < 0.5 else None
    f = c.call(ShepardIDWInterpolator, coords, vals, weights=w)
    if f is None:
        return
    pos = c.plain(rng.uniform(0, 10, (7, 2)), 'positions')
    c.call(f, pos, n_neighbors=5, reg=0.1)
    c.call(f, [1.0, 2.0])


@entry('moments')
def e_moments(c):
    from photutils.utils._moments import _moments, _moments_central
    d, e, m = _cutout(c)
    c.call(_moments, d, order=2)
    c.call(_moments_central, d, center=(7.0, 7.0), order=2)
    c.call(_moments_central, d, order=3)


# ----------------------------------------------------------------------
# profiles
# ----------------------------------------------------------------------
def _profile_entry(c, cls):
    import photutils.profiles as P
    rng = c.rng
    x, y = c.xy[0]
    if cls == 'RadialProfile':
        radii = c.plain(np.arange(0, 9.0, 1.0), 'radii')
    else:
        radii = c.plain(np.arange(1, 9.0, 1.0), 'radii')
    if rng.random() < 0.3:
        radii = c.own(list(map(float, radii)), 'radii_list')
    xycen = c.plain([x, y], 'xycen') if rng.random() < 0.5 else (float(x), float(y))
    p = c.call(getattr(P, cls), c.data, xycen, radii, error=c.error, mask=c.mask, method=_method(c))
    if p is None:
        # the library may reject this representation: try again without the optional inputs
        p = c.call(getattr(P, cls), c.data, xycen, radii, mask=c.mask)
    c.read_all(p)
    if p is not None:
        c.call(p.normalize, method=str(rng.choice(['max', 'sum'])))
        c.read_all(p)
        c.call(p.unnormalize)
        if cls == 'CurveOfGrowth':
            c.call(p.calc_ee_at_radius, c.plain([2.0, 3.5], 'radius_arg'))
            c.call(p.normalize)
            c.call(p.calc_radius_at_ee, c.plain([0.3, 0.5], 'ee_arg'))
    return p


@entry('RadialProfile')
def e_radial_profile(c):
    return _profile_entry(c, 'RadialProfile')


@entry('CurveOfGrowth')
def e_cog(c):
    return _profile_entry(c, 'CurveOfGrowth')


# ----------------------------------------------------------------------
# isophote
# ----------------------------------------------------------------------
def _galaxy(c):
    rng = c.rng
    ny, nx = 45, 47
    yy, xx = np.mgrid[0:ny, 0:nx]
    x0, y0 = 23.0 + rng.uniform(-0.5, 0.5), 22.0 + rng.uniform(-0.5, 0.5)
    eps, pa = 0.3, 0.6
    ct, st = np.cos(pa), np.sin(pa)
    xr = (xx - x0) * ct + (yy - y0) * st
    yr = -(xx - x0) * st + (yy - y0) * ct
    r = np.sqrt(xr ** 2 + (yr / (1 - eps)) ** 2)
    img = 200 * np.exp(-r / 6.0) + rng.normal(0, 0.5, (ny, nx))
    if c.cond == 'clean':
        img = np.abs(img) + 1
    img = img * c.scale
    if c.cond in ('nonfinite', 'mask_nonfinite'):
        img[5, 5] = np.nan
        img[int(y0) + 4, int(x0) + 3] = np.nan
    g = c.arr(img, 'galaxy', primary=True)
    if c.cond in ('masked', 'mask_nonfinite') and not isinstance(g, np.ma.MaskedArray):
        mm = rng.random((ny, nx)) < 0.03
        g = c.own(np.ma.MaskedArray(g, mask=mm), 'galaxy_ma')
    return g, (x0, y0, eps, pa)


@entry('Ellipse.fit_image', slow=True)
def e_ellipse(c):
    from photutils.isophote import Ellipse, EllipseGeometry, build_ellipse_model
    g, (x0, y0, eps, pa) = _galaxy(c)
    geom = c.call(EllipseGeometry, x0, y0, 8.0, eps, pa)
    ell = c.call(Ellipse, g, geom)
    if ell is None:
        return
    iso = c.call(ell.fit_image, sma0=8.0, minsma=4.0, maxsma=14.0, step=0.25, maxit=15,
                 fix_center=bool(c.rng.integers(0, 2)))
    if iso is not None and len(iso) > 0:
        c.read_all(iso, methods=('to_table',))
        c.read_all(iso[0])
        c.call(iso.get_closest, 8.0)
        c.call(build_ellipse_model, g.shape, iso, fill=0.0)
    return iso


@entry('Ellipse.fit_isophote')
def e_fit_isophote(c):
    from photutils.isophote import Ellipse, EllipseGeometry, EllipseSample
    g, (x0, y0, eps, pa) = _galaxy(c)
    geom = c.call(EllipseGeometry, x0, y0, 8.0, eps, pa)
    ell = c.call(Ellipse, g, geom)
    if ell is not None:
        iso = c.call(ell.fit_isophote, 8.0, maxit=10, integrmode=str(c.rng.choice(['bilinear', 'median', 'mean'])))
        c.read_all(iso)
    s = c.call(EllipseSample, g, 6.0, x0=x0, y0=y0, eps=eps, position_angle=pa,
               integrmode=str(c.rng.choice(['bilinear', 'nearest_neighbor'])), sclip=3.0, nclip=1)
    if s is not None:
        c.call(s.extract)
        c.call(s.update)
        c.call(s.coordinates)
        c.read_all(s)


@entry('harmonics')
def e_harmonics(c):
    from photutils.isophote.harmonics import (first_and_second_harmonic_function,
                                              fit_first_and_second_harmonics, fit_upper_harmonic)
    rng = c.rng
    phi = c.arr(np.linspace(0, 2 * np.pi, 40, endpoint=False), 'phi', primary=True, unit=False, allow_int=False)
    inten = c.arr(10 + np.sin(np.linspace(0, 2 * np.pi, 40, endpoint=False)) + rng.normal(0, 0.05, 40),
                  'intensities', secondary=True, unit=False)
    r = c.call(fit_first_and_second_harmonics, phi, inten)
    c.call(fit_upper_harmonic, phi, inten, 3)
    coef = c.plain([10.0, 0.1, 0.2, 0.05, 0.01], 'coeffs')
    c.call(first_and_second_harmonic_function, phi, coef)
    _ = r


# ----------------------------------------------------------------------
# plotting methods (matplotlib Agg): public methods that take origins / axes and read the inputs again
# ----------------------------------------------------------------------
_FIG = []


def _ax():
    import matplotlib
    matplotlib.use('Agg')
    import matplotlib.pyplot as plt
    if not _FIG:
        _FIG.append(plt.figure(figsize=(2, 2), dpi=30))
    fig = _FIG[0]
    fig.clf()
    return fig.add_subplot(111)


@entry('plots', slow=True)
def e_plots(c):
    import photutils.profiles as P
    from photutils.aperture import ApertureStats
    from photutils.background import Background2D
    from photutils.segmentation import SourceCatalog
    rng = c.rng
    origin = c.plain([1.0, 2.0], 'origin')
    aps = _pixel_apertures(c)
    ap = aps[int(rng.integers(0, len(aps)))]
    if ap is not None:
        c.call(ap.plot, ax=_ax(), origin=origin)
        c.call(ap.plot, ax=_ax(), origin=(1, 1))
    segm = _segm(c)
    if segm is not None:
        c.own(segm, 'segment_img')
        c.call(segm.to_patches, origin=origin, scale=2.0)
        c.call(segm.plot_patches, ax=_ax(), origin=origin, labels=c.plain(segm.labels[:1], 'labels', dtype=int))
        c.call(segm.imshow, ax=_ax())
        c.call(segm.imshow_map, ax=_ax())
        c.call(segm.make_cmap, seed=1)
        c.call(segm.to_regions)
        cat = c.call(SourceCatalog, c.data, segm, error=c.error, mask=c.mask, progress_bar=False)
        if cat is not None:
            c.call(cat.plot_kron_apertures, ax=_ax(), origin=origin)
            c.call(cat.plot_circular_apertures, 3.0, ax=_ax(), origin=origin)
    b = c.call(Background2D, c.data, 10, mask=c.mask)
    if b is not None:
        c.call(b.plot_meshes, ax=_ax(), outlines=True)
    x, y = c.xy[0]
    p = c.call(P.RadialProfile, c.data, (float(x), float(y)), c.plain(np.arange(0, 8.0), 'radii'), error=c.error,
               mask=c.mask)
    if p is not None:
        c.call(p.plot, ax=_ax())
        c.call(p.plot_error, ax=_ax())


# ----------------------------------------------------------------------
# second layer: the rest of the public surface (sky apertures, bounding boxes, isophote / ePSF helper API,
# single-label variants, I/O readers) so that the "never reached" list stays short
# ----------------------------------------------------------------------
@entry('sky_apertures')
def e_sky_apertures(c):
    import astropy.units as u
    from photutils.aperture import (SkyCircularAnnulus, SkyCircularAperture, SkyEllipticalAnnulus,
                                    SkyEllipticalAperture, SkyRectangularAnnulus, SkyRectangularAperture,
                                    aperture_photometry)
    from photutils.datasets import make_gwcs, make_wcs
    wcs = make_wcs(c.shape)
    pix = _pixel_apertures(c)
    skies = []
    for ap in pix:
        if ap is None:
            continue
        s = c.call(ap.to_sky, wcs)
        if s is not None:
            skies.append(c.own(s, 'sky_aperture'))
            c.call(s.to_pixel, wcs)
            c.read_all(s, methods=('copy',))
    if skies:
        pos = skies[0].positions
        c.own(pos, 'skycoord')
        a = 0.5 * u.arcsec
        mk = [lambda: SkyCircularAperture(pos, r=a), lambda: SkyCircularAnnulus(pos, r_in=a, r_out=2 * a),
              lambda: SkyEllipticalAperture(pos, a=2 * a, b=a, theta=10 * u.deg),
              lambda: SkyEllipticalAnnulus(pos, a_in=a, a_out=2 * a, b_out=1.5 * a, theta=10 * u.deg),
              lambda: SkyRectangularAperture(pos, w=2 * a, h=a, theta=10 * u.deg),
              lambda: SkyRectangularAnnulus(pos, w_in=a, w_out=3 * a, h_out=2 * a, theta=10 * u.deg)]
        made = [c.call(m) for m in mk]
        made = [c.own(m, 'sky_aperture') for m in made if m is not None]
        k = int(c.rng.integers(0, max(1, len(made))))
        if made:
            c.call(aperture_photometry, c.data, made[k], error=c.error, mask=c.mask, wcs=wcs)
            c.call(aperture_photometry, c.data, made[:2], wcs=wcs)
            c.call(made[k].__eq__, made[k])
    if c.rng.random() < 0.3:
        g = c.call(make_gwcs, c.shape)
        if g is not None and pix and pix[0] is not None:
            c.call(pix[0].to_sky, g)


@entry('bounding_box_regions')
def e_bbox_regions(c):
    from photutils.aperture import BoundingBox, aperture_to_region, region_to_aperture
    pix = _pixel_apertures(c)
    ap = pix[int(c.rng.integers(0, len(pix)))]
    if ap is None:
        return
    bb = c.call(lambda: ap.bbox)
    if bb:
        b0, b1 = bb[0], bb[-1]
        c.read_all(b0)
        c.call(b0.union, b1)
        c.call(b0.intersection, b1)
        c.call(b0.__or__, b1)
        c.call(b0.__and__, b1)
        c.call(b0.__eq__, b1)
        c.call(b0.get_overlap_slices, c.shape)
        c.call(b0.to_aperture)
        c.call(b0.as_artist)
        c.call(b0.plot, ax=_ax(), origin=c.plain([1.0, 1.0], 'origin'))
    c.call(BoundingBox.from_float, 1.2, 7.7, 2.1, 9.9)
    c.call(BoundingBox, 1, 5, 2, 8)
    one = c.call(ap.__getitem__, 0)
    if one is not None:
        c.own(one, 'aperture')
        reg = c.call(aperture_to_region, one)
        if reg is not None:
            c.call(region_to_aperture, reg)
    m = c.call(ap.to_mask)
    if m:
        c.call(np.asarray, m[0])
        c.call(m[0].get_overlap_slices, c.shape)
    c.call(lambda: [a for a in ap])
    c.call(len, ap)
    c.call(repr, ap)
    c.call(str, ap)


@entry('isophote_api', slow=True)
def e_isophote_api(c):
    from photutils.isophote import (Ellipse, EllipseFitter, EllipseGeometry, EllipseSample, Isophote,
                                    IsophoteList)
    g, (x0, y0, eps, pa) = _galaxy(c)
    geom = c.call(EllipseGeometry, x0 + 1.0, y0 - 1.0, 8.0, eps, pa)
    if geom is None:
        return
    c.call(geom.find_center, g, verbose=False)
    c.call(geom.bounding_ellipses)
    c.call(geom.radius, 0.3)
    c.call(geom.to_polar, c.plain([20.0, 25.0], 'x'), c.plain([21.0, 19.0], 'y'))
    c.call(geom.initialize_sector_geometry, 0.5)
    c.call(geom.polar_angle_sector_limits)
    c.call(geom.update_sma, 0.1)
    c.call(geom.reset_sma, 0.1)
    c.read_all(geom)
    ell = c.call(Ellipse, g, geom)
    isos = []
    if ell is not None:
        c.call(ell.set_threshold, 0.2)
        for sma in (6.0, 8.0):
            iso = c.call(ell.fit_isophote, sma, maxit=8)
            if iso is not None:
                isos.append(iso)
    s = c.call(EllipseSample, g, 7.0, x0=x0, y0=y0, eps=eps, position_angle=pa)
    if s is not None:
        f = c.call(EllipseFitter, s)
        if f is not None:
            iso = c.call(f.fit, maxit=8)
            if iso is not None:
                isos.append(iso)
        c.call(s.extract)
        iso2 = c.call(Isophote, s, 1, True, 0)
        if iso2 is not None:
            isos.append(iso2)
    if len(isos) >= 2:
        c.call(isos[0].fix_geometry, isos[1])
        c.call(isos[0].sampled_coordinates)
        c.call(isos[0].to_table)
        c.call(isos[0].__eq__, isos[1])
        c.call(str, isos[0])
        lst = c.call(IsophoteList, list(isos[:-1]))
        if lst is not None:
            c.call(lst.append, isos[-1])
            c.call(lst.insert, 0, isos[-1])
            other = c.call(IsophoteList, list(isos[:1]))
            if other is not None:
                c.call(lst.extend, other)
                c.call(lst.__add__, other)
            c.call(lst.sort)
            c.call(lst.get_names)
            c.call(lst.__setitem__, 0, isos[0])
            c.call(lst.__delitem__, 0)
            c.call(lst.__getitem__, slice(0, 2))
            c.read_all(lst, methods=('to_table',))


@entry('epsf_api', slow=True)
def e_epsf_api(c):
    from astropy.nddata import NDData
    from astropy.table import Table
    from photutils.datasets import make_wcs
    from photutils.psf import EPSFBuilder, EPSFFitter, EPSFStars, LinkedEPSFStar, extract_stars
    nd, stars = _stars(c)
    if stars is None:
        return
    c.own(stars, 'stars')
    c.call(stars.__getitem__, 0)
    c.call(lambda: stars[0].estimate_flux())
    c.call(np.asarray, stars[0])
    c.call(len, stars)
    b = c.call(EPSFBuilder, oversampling=2, maxiters=1, progress_bar=False)
    epsf = None
    if b is not None:
        r = c.call(b.build_epsf, stars)
        if r is not None:
            epsf, fitted = r
            c.call(b.build_epsf, stars, init_epsf=epsf)
    if epsf is not None:
        ft = c.call(EPSFFitter, fit_boxsize=5)
        if ft is not None:
            c.call(ft, epsf, stars)
    # linked stars: two images with WCS, one catalogue with sky coordinates
    wcs = make_wcs(c.shape)
    nd1 = c.call(NDData, c.data, wcs=wcs)
    nd2 = c.call(NDData, c.arr(c.raw, 'data2', primary=True), wcs=wcs)
    if nd1 is not None and nd2 is not None:
        c.own(nd1, 'nddata')
        c.own(nd2, 'nddata')
        sky = wcs.pixel_to_world(c.xy[:, 0], c.xy[:, 1])
        t = Table()
        t['skycoord'] = sky
        c.own(t, 'table')
        ls = c.call(extract_stars, [nd1, nd2], t, size=11)
        if ls is not None:
            c.read_all(ls)
            for s in list(ls)[:2]:
                c.read_all(s)
                if isinstance(s, LinkedEPSFStar):
                    c.call(s.constrain_centers)
                    c.call(LinkedEPSFStar, list(s))
            c.call(ls.__getitem__, 0)
            st2 = c.call(EPSFStars, list(ls.all_stars))
            if st2 is not None:
                c.call(st2.__delitem__, 0)


@entry('catalog_misc')
def e_catalog_misc(c):
    from photutils.segmentation import SourceCatalog
    segm = _segm(c)
    if segm is None:
        return
    c.own(segm, 'segment_img')
    cat = c.call(SourceCatalog, c.data, segm, error=c.error, mask=c.mask, progress_bar=False)
    if cat is None:
        return
    c.call(lambda: cat.nlabels)
    c.call(lambda: cat.isscalar)
    c.call(cat.get_label, int(segm.labels[0]))
    v = c.plain(np.arange(cat.nlabels, dtype=float), 'extra')
    c.call(cat.add_extra_property, 'p1', v)
    c.call(cat.add_extra_property, 'p2', c.q(np.arange(cat.nlabels, dtype=float)))
    c.call(cat.rename_extra_property, 'p1', 'p3')
    c.call(cat.remove_extra_property, 'p3')
    c.call(cat.remove_extra_properties, c.own(['p2'], 'names'))
    c.call(len, cat)
    c.call(repr, cat)
    c.call(lambda: [x for x in cat])
    one = c.call(cat.__getitem__, 0)
    if one is not None:
        c.call(lambda: one.isscalar)
        c.read_all(one)


@entry('segm_single_label')
def e_segm_single(c):
    from photutils.segmentation import Segment, SegmentationImage
    base = _segm(c)
    if base is None or base.nlabels < 2:
        return
    arr = c.labels(base.data.copy(), 'segm_array')
    s = c.call(SegmentationImage, arr)
    if s is None:
        return
    lab = int(s.labels[0])
    c.call(lambda: s.shape)
    c.call(lambda: s.cmap)
    c.call(s.reset_cmap, seed=2)
    c.call(s.check_label, lab)
    c.call(s.get_area, lab)
    c.call(s.get_index, lab)
    c.call(s.reassign_label, lab, 99)
    c.call(s.keep_label, int(s.labels[-1]))
    s2 = c.call(SegmentationImage, c.labels(base.data.copy(), 'segm_array'))
    if s2 is not None:
        c.call(s2.remove_label, int(s2.labels[0]), relabel=True)
        seg = c.call(lambda: s2.segments[0])
        if seg is not None:
            c.call(np.asarray, seg)
            c.call(repr, seg)
            c.call(Segment, c.plain(seg.data, 'segment_data', dtype=int), seg.label, seg.slices, seg.bbox, seg.area)
        c.call(repr, s2)
        c.call(str, s2)


@entry('psf_io_misc')
def e_psf_io_misc(c):
    import glob as _g
    import os
    import photutils
    from astropy.modeling.models import Gaussian2D
    from astropy.nddata import NDData
    from photutils.psf import GriddedPSFModel, ImagePSF, PRFAdapter, STDPSFGrid, FittableImageModel
    ddir = os.path.join(os.path.dirname(photutils.__file__), 'psf', 'tests', 'data')
    files = sorted(_g.glob(os.path.join(ddir, 'STDPSF_*.fits')))
    if files:
        f = files[int(c.rng.integers(0, len(files)))]
        g = c.call(STDPSFGrid, f)
        if g is not None:
            c.call(repr, g)
            c.call(str, g)
        c.call(GriddedPSFModel.read, f, format='stdpsf', detector_id=1)
        from photutils.psf import stdpsf_reader
        c.call(stdpsf_reader, f, detector_id=1)
    web = sorted(_g.glob(os.path.join(ddir, 'nircam*.fits')))
    if web:
        c.call(GriddedPSFModel.read, web[0], format='webbpsf')
        from photutils.psf import webbpsf_reader
        c.call(webbpsf_reader, web[0])
    yy, xx = np.mgrid[-6:7, -6:7]
    d = np.exp(-(xx ** 2 + yy ** 2) / (2 * c.sigma ** 2))
    d /= d.sum()
    cube = c.arr(np.array([d, d, d, d]), 'psf_cube', primary=True, unit=False, allow_int=False)
    nd = c.call(NDData, cube, meta={'grid_xypos': [(0, 0), (40, 0), (0, 40), (40, 40)], 'oversampling': 1})
    if nd is not None:
        c.own(nd, 'nddata')
        m = c.call(GriddedPSFModel, nd)
        if m is not None:
            c.own(m, 'psf_model')
            c.call(m.deepcopy)
            c.call(lambda: m.origin)
            c.call(m.plot_grid, ax=_ax())
            c.call(repr, m)
    ip = c.call(ImagePSF, c.arr(d, 'psf_data', primary=True, unit=False))
    if ip is not None:
        c.own(ip, 'psf_model')
        c.call(ip.deepcopy)
    fm = c.call(FittableImageModel, c.arr(d, 'psf_data', primary=True, unit=False))
    if fm is not None:
        c.own(fm, 'psf_model')
        c.call(fm.compute_interpolator)
    g2 = c.own(Gaussian2D(1.0, 0, 0, c.sigma, c.sigma), 'model')
    pa = c.call(PRFAdapter, g2, renormalize_psf=False)
    if pa is not None:
        x = c.plain(c.rng.uniform(-3, 3, 8), 'x')
        y = c.plain(c.rng.uniform(-3, 3, 8), 'y')
        c.call(pa, x, y)


@entry('datasets_misc')
def e_datasets_misc(c):
    import photutils.background as B
    from photutils.datasets import make_4gaussians_image, make_100gaussians_image
    from photutils.psf import SourceGrouper
    from photutils.segmentation import SourceFinder
    from photutils.utils import make_random_cmap
    c.call(make_4gaussians_image, noise=bool(c.rng.integers(0, 2)))
    if c.rng.random() < 0.3:
        c.call(make_100gaussians_image)
    c.call(make_random_cmap, 20, seed=1)
    for name in ('MeanBackground', 'ModeEstimatorBackground', 'BiweightLocationBackground', 'StdBackgroundRMS',
                 'BiweightScaleBackgroundRMS', 'BkgZoomInterpolator', 'BkgIDWInterpolator'):
        o = c.call(getattr(B, name))
        c.call(repr, o)
    c.call(repr, c.call(B.LocalBackground, 3, 6))
    c.call(repr, c.call(SourceGrouper, 3.0))
    c.call(repr, c.call(SourceFinder, 5, progress_bar=False))
    mesh = c.arr(c.rng.normal(1, 0.1, (5, 6)), 'mesh', primary=True)
    z = c.call(B.BkgZoomInterpolator)
    b = c.call(B.Background2D, c.data, 8, mask=c.mask, interpolator=z)
    c.read_all(b)
    _ = mesh


# ----------------------------------------------------------------------
# third layer (follow-up): every NDData argument form of the ePSF family, catalogues with neighbouring
# segments inside the Kron / circular aperture boxes, patch helpers with a non-default origin
# ----------------------------------------------------------------------
def _weights_uncertainty_cls():
    from astropy.nddata import NDUncertainty

    class WeightsUncertainty(NDUncertainty):
        """Minimal NDUncertainty whose uncertainty_type is 'weights' (the kind extract_stars documents)."""

        @property
        def uncertainty_type(self):
            return 'weights'

        def _data_unit_to_uncertainty_unit(self, value):
            return None

        def _propagate_add(self, *a):
            return None

        def _propagate_subtract(self, *a):
            return None

        def _propagate_multiply(self, *a):
            return None

        def _propagate_divide(self, *a):
            return None
    return WeightsUncertainty


UNC_KINDS = ('none', 'std', 'var', 'ivar', 'weights', 'weights_f32', 'unknown')


def _nddata_form(c, kind, with_mask=True, wcs=None, which='data'):
    """NDData carrying the represented image, a mask with masked pixels inside the star cutouts and one
    uncertainty kind. Every array is registered with the case-level sentinel."""
    from astropy.nddata import (InverseVariance, NDData, StdDevUncertainty, UnknownUncertainty,
                                VarianceUncertainty)
    data = c.data if which == 'data' else c.arr(c.raw, 'data2', primary=True)
    unit = None
    if c.unit is not None:
        data = c.own(np.array(data.value), 'nddata_values')
        unit = c.unit
    err = np.where(np.isfinite(c.raw_err), c.raw_err, 1.0)
    mask = None
    if with_mask:
        m = np.zeros(c.shape, bool) if c.raw_mask is None else c.raw_mask.copy()
        for (x, y) in c.xy:                      # masked pixels INSIDE every star cutout (not the core)
            for (r_, c_) in ((int(round(y)) + 3, int(round(x)) - 2), (int(round(y)) - 4, int(round(x)) + 1)):
                if 0 <= r_ < c.shape[0] and 0 <= c_ < c.shape[1]:
                    m[r_, c_] = True
        mask = c.boolarr(m, 'nd_mask')
    if kind == 'none':
        unc = None
    elif kind == 'std':
        unc = StdDevUncertainty(c.plain(err, 'unc_array'))
    elif kind == 'var':
        unc = VarianceUncertainty(c.plain(err ** 2, 'unc_array'))
    elif kind == 'ivar':
        unc = InverseVariance(c.plain(1.0 / err ** 2, 'unc_array'))
    elif kind == 'weights':
        unc = _weights_uncertainty_cls()(c.plain(1.0 / err, 'unc_array'))
    elif kind == 'weights_f32':
        unc = _weights_uncertainty_cls()(c.plain((1.0 / err).astype(np.float32), 'unc_array', dtype=np.float32))
    else:
        unc = UnknownUncertainty(c.plain(err, 'unc_array'))
    nd = c.call(NDData, data, uncertainty=unc, mask=mask, unit=unit, wcs=wcs, meta={'form': kind})
    if nd is not None:
        c.own(nd, 'nddata')
    return nd


@entry('extract_stars_nddata')
def e_extract_stars_nddata(c):
    from astropy.table import Table
    from photutils.datasets import make_wcs
    from photutils.psf import EPSFBuilder, EPSFFitter, EPSFStar, EPSFStars, LinkedEPSFStar, extract_stars
    rng = c.rng
    kinds = [UNC_KINDS[i] for i in rng.permutation(len(UNC_KINDS))]
    wcs = make_wcs(c.shape)
    k1, k2 = kinds[0], kinds[1]
    form = int(rng.integers(0, 4))
    stars = None
    if form == 0:                                   # single NDData, x/y catalogue
        nd = _nddata_form(c, k1)
        if nd is None:
            return
        stars = c.call(extract_stars, nd, c.star_table(('x', 'y')), size=int(rng.choice([9, 11])))
    elif form == 1:                                 # single NDData + wcs, skycoord catalogue
        nd = _nddata_form(c, k1, wcs=wcs)
        if nd is None:
            return
        t = Table()
        t['skycoord'] = wcs.pixel_to_world(c.xy[:, 0], c.xy[:, 1])
        c.own(t, 'table')
        stars = c.call(extract_stars, nd, t, size=11)
    elif form == 2:                                 # list of NDData, one catalogue per image
        nd1 = _nddata_form(c, k1)
        nd2 = _nddata_form(c, k2, which='data2')
        if nd1 is None or nd2 is None:
            return
        lst = c.own([nd1, nd2], 'nddata_list')
        cats = c.own([c.star_table(('x', 'y')), c.star_table(('x', 'y'))], 'catalogs')
        stars = c.call(extract_stars, lst, cats, size=(9, 11))
    else:                                           # list of NDData with wcs, ONE skycoord catalogue -> linked stars
        nd1 = _nddata_form(c, k1, wcs=wcs)
        nd2 = _nddata_form(c, k2, wcs=wcs, which='data2')
        if nd1 is None or nd2 is None:
            return
        t = Table()
        t['skycoord'] = wcs.pixel_to_world(c.xy[:, 0], c.xy[:, 1])
        if rng.random() < 0.5:
            t['id'] = np.arange(len(c.xy)) + 10
        c.own(t, 'table')
        stars = c.call(extract_stars, c.own([nd1, nd2], 'nddata_list'), t, size=11)
    if stars is None:
        return
    c.own(stars, 'stars')
    c.read_all(stars)
    for s in list(stars)[:2]:
        c.read_all(s)
        if isinstance(s, LinkedEPSFStar):
            c.call(s.constrain_centers)
        elif isinstance(s, EPSFStar):
            c.call(s.estimate_flux)
            c.call(np.asarray, s)
    c.call(stars.__getitem__, 0)
    c.call(stars.__getitem__, slice(0, 2))
    c.call(len, stars)
    c.call(lambda: [s for s in stars])
    flat = c.call(lambda: stars.all_good_stars)
    if flat:
        c.call(EPSFStars, list(flat))
    if rng.random() < 0.5:                          # tiny build on these stars (maxiters 1-2)
        b = c.call(EPSFBuilder, oversampling=int(rng.choice([1, 2])), maxiters=int(rng.choice([1, 2])),
                   progress_bar=False, recentering_maxiters=3)
        if b is not None:
            r = c.call(b, stars)
            if r is not None:
                epsf, fitted = r
                c.read_all(fitted)
                ft = c.call(EPSFFitter, fit_boxsize=int(rng.choice([3, 5])))
                if ft is not None:
                    c.call(ft, epsf, stars)
                for s in list(fitted)[:1]:
                    if hasattr(s, 'compute_residual_image'):
                        c.call(s.compute_residual_image, epsf)
                        c.call(s.register_epsf, epsf)


@entry('SourceCatalog_neighbours')
def e_source_catalog_neighbours(c):
    """Close pairs: every source has pixels of ANOTHER labelled segment inside its Kron / circular aperture
    box, float64 error array, each apermask_method, then the lazy aperture-based reads."""
    from photutils.segmentation import SegmentationImage, SourceCatalog
    rng = c.rng
    ny, nx = c.shape
    yy, xx = np.mgrid[0:ny, 0:nx]
    img = np.array(c.raw, copy=True)
    centres = []
    for (x, y) in c.xy[:3]:                          # add a companion 4-6 px away from each of the first stars
        ang = rng.uniform(0, 2 * np.pi)
        d = rng.uniform(4.0, 6.0)
        x2, y2 = x + d * np.cos(ang), y + d * np.sin(ang)
        if not (4 < x2 < nx - 5 and 4 < y2 < ny - 5):
            x2, y2 = x - d * np.cos(ang), y - d * np.sin(ang)
        fin = np.isfinite(img)
        img[fin] += (120.0 * c.scale * np.exp(-((xx - x2) ** 2 + (yy - y2) ** 2) / (2 * c.sigma ** 2)))[fin]
        centres += [(x, y), (x2, y2)]
    for (x, y) in c.xy[3:]:
        centres.append((x, y))
    centres = np.array(centres)
    # harness-side segmentation: pixels within 3.2 px of a centre, assigned to the nearest centre
    d2 = (xx[None] - centres[:, 0, None, None]) ** 2 + (yy[None] - centres[:, 1, None, None]) ** 2
    nearest = np.argmin(d2, axis=0)
    seg = np.where(np.min(d2, axis=0) <= 3.2 ** 2, nearest + 1, 0).astype(int)
    segm = SegmentationImage(seg)
    c.own(segm, 'segment_img')
    data = c.arr(img, 'data_pairs', primary=True)
    err64 = np.array(np.where(np.isfinite(c.raw_err), c.raw_err, 1.0), dtype=np.float64)
    if c.cond in ('nonfinite', 'mask_nonfinite'):
        err64[int(c.xy[0, 1]) - 3, int(c.xy[0, 0]) + 3] = np.nan
    error = c.arr(err64, 'error64', secondary=True, allow_int=False)
    method = ['correct', 'mask', 'none'][int(rng.integers(0, 3))]
    kw = dict(error=error, mask=c.mask, apermask_method=method, progress_bar=False,
              kron_params=(2.5, 1.4, 0.0) if rng.random() < 0.5 else (2.0, 1.0, 3.0),
              localbkg_width=int(rng.choice([0, 0, 5])))
    if rng.random() < 0.4:
        kw['background'] = c.arr(np.full(c.shape, c.s(0.2)), 'background', secondary=True, allow_int=False)
    cat = c.call(SourceCatalog, data, segm, **kw)
    if cat is None:
        return
    lazy = ['kron_flux', 'kron_fluxerr', 'kron_radius', 'kron_aperture', 'local_background',
            'centroid_win', 'fwhm', 'segment_fluxerr']
    for name in [lazy[i] for i in rng.permutation(len(lazy))]:
        c.call(getattr, cat, name)
    c.call(cat.circular_photometry, float(rng.choice([3.0, 6.0])))
    c.call(cat.kron_photometry, (2.0, 1.2))
    c.call(cat.fluxfrac_radius, 0.5)
    c.call(cat.make_kron_apertures)
    c.call(cat.to_table)
    c.call(cat.plot_kron_apertures, ax=_ax(), origin=c.plain([2.0, 3.0], 'origin'))
    c.call(cat.plot_circular_apertures, 4.0, ax=_ax(), origin=(1.5, 2.5))
    one = c.call(cat.__getitem__, 1)
    if one is not None:
        c.call(getattr, one, 'kron_flux')
        c.call(one.circular_photometry, 5.0)
    # a second catalogue re-using the SAME inputs (what a corrupted error array would silently change)
    cat2 = c.call(SourceCatalog, data, segm, error=error, mask=c.mask, apermask_method='correct',
                  detection_cat=cat, progress_bar=False)
    if cat2 is not None:
        c.call(getattr, cat2, 'kron_fluxerr')


@entry('aperture_patches')
def e_aperture_patches(c):
    """plot / patch helpers of every pixel aperture class with a non-default origin, scalar and multi-position."""
    rng = c.rng
    aps = _pixel_apertures(c)
    for ap in aps:
        if ap is None:
            continue
        origin = c.plain([float(rng.uniform(1, 5)), float(rng.uniform(1, 5))], 'origin')
        c.call(ap.plot, ax=_ax(), origin=origin, color='r')
        c.call(ap.plot, ax=_ax(), origin=(3, 2))
        one = c.call(ap.__getitem__, 0)
        if one is not None:
            c.own(one, 'aperture')
            c.call(one.plot, ax=_ax(), origin=origin)
        bb = c.call(lambda a=ap: a.bbox)
        if bb:
            c.call(bb[0].plot, ax=_ax(), origin=origin)
            c.call(bb[0].as_artist)
        c.call(lambda a=ap: a.positions)
        c.call(ap.to_mask)
        c.call(ap.do_photometry, c.data, mask=c.mask)       # photometry AFTER plotting with the same object
        c.call(ap.copy)


# ----------------------------------------------------------------------
# fourth layer (follow-up 2): every small "parameter-like" array-valued argument as a caller-owned ndarray
# (int / float / strided view) or list, with values inside, at and beyond the valid / clamped range, so that the
# clamping, sorting, normalising, rounding and broadcasting branches run on the caller's object.
# ----------------------------------------------------------------------
def _rng_mode(c):
    return ['inside', 'at', 'beyond'][int(c.rng.integers(0, 3))]


def _size2(c, shape, mode, odd=False, inside=(7, 9)):
    ny, nx = shape
    if mode == 'inside':
        v = list(inside)
    elif mode == 'at':
        v = [ny, nx]
    else:
        v = [[ny + 24, inside[1]], [inside[0], nx + 11], [ny + 5, nx + 8]][int(c.rng.integers(0, 3))]
    if odd:
        v = [int(x) | 1 for x in v]
    return v


@entry('param_background')
def e_param_background(c):
    import photutils.background as B
    mode = _rng_mode(c)
    box = c.par(_size2(c, c.shape, mode, inside=(8, 9)), 'box_size', kinds=('int', 'intview', 'float', 'list'))
    fs = c.par([[3, 3], [1, 5], [5, 1], [c.shape[0] | 1, 3]][int(c.rng.integers(0, 4))], 'filter_size',
               kinds=('int', 'intview', 'list'))
    b = c.call(B.Background2D, c.data, box, mask=c.mask, filter_size=fs,
               exclude_percentile=float(c.rng.choice([10.0, 80.0])), fill_value=0.0)
    c.read_all(b)
    lb = c.call(B.LocalBackground, 4.0, 8.0)
    if lb is not None:
        c.call(lb, c.data, c.par(c.xy[:, 0], 'x', kinds=('float', 'int', 'list')),
               c.par(c.xy[:, 1], 'y', kinds=('float', 'int', 'list')), mask=c.mask)
        c.call(lb, c.data, c.par([-5.0, c.xy[0, 0]], 'x', kinds=('float', 'list')),
               c.par([c.shape[0] + 20.0, c.xy[0, 1]], 'y', kinds=('float', 'list')))      # beyond the image


@entry('param_centroids')
def e_param_centroids(c):
    from photutils.centroids import centroid_com, centroid_quadratic, centroid_sources
    d, e, m = _cutout(c)
    shp = np.shape(d)
    mode = _rng_mode(c)
    fit = c.par(_size2(c, shp, mode, odd=True, inside=(5, 5)), 'fit_boxsize', kinds=('int', 'intview', 'list'))
    search = c.par(_size2(c, shp, _rng_mode(c), odd=True, inside=(3, 5)), 'search_boxsize',
                   kinds=('int', 'intview', 'list'))
    c.call(centroid_quadratic, d, fit_boxsize=fit, search_boxsize=search, mask=m)
    c.call(centroid_quadratic, d, xpeak=7, ypeak=7, fit_boxsize=fit)
    big = c.par(_size2(c, c.shape, _rng_mode(c), odd=True, inside=(9, 11)), 'box_size',
                kinds=('int', 'intview', 'list'))
    x = c.par(c.xy[:, 0], 'xpos', kinds=('float', 'int', 'list'))
    y = c.par(c.xy[:, 1], 'ypos', kinds=('float', 'int', 'list'))
    c.call(centroid_sources, c.data, x, y, box_size=big, mask=c.mask, centroid_func=centroid_com)
    c.call(centroid_sources, c.data, x, y, box_size=big, centroid_func=centroid_quadratic, fit_boxsize=fit)
    # positions beyond the image (raises) / at the edge
    c.call(centroid_sources, c.data, c.par([1.0, c.shape[1] + 5.0], 'xpos', kinds=('float', 'list')),
           c.par([1.0, 3.0], 'ypos', kinds=('float', 'list')), box_size=5)
    fp = c.par(np.ones(_size2(c, c.shape, mode, odd=True, inside=(5, 7)), dtype=int), 'footprint',
               kinds=('int', 'float'))
    c.call(centroid_sources, c.data, x, y, box_size=None, footprint=fp)


@entry('param_detection')
def e_param_detection(c):
    import photutils.detection as D
    from photutils.detection import find_peaks
    mode = _rng_mode(c)
    ny, nx = c.shape
    bw = c.par({'inside': [2, 3], 'at': [ny // 2, nx // 2], 'beyond': [ny + 3, 4]}[mode], 'border_width',
               kinds=('int', 'intview', 'list'))
    box = c.par(_size2(c, c.shape, _rng_mode(c), odd=True, inside=(5, 3)), 'box_size', kinds=('int', 'intview', 'list'))
    thr_int = c.par(np.full(c.shape, int(_thr(c))), 'threshold', kinds=('int', 'float'))
    if c.unit is not None:
        thr_int = c.own(np.asarray(thr_int) * c.unit, 'threshold_q')
    c.call(find_peaks, c.data, thr_int, box_size=box, border_width=bw, mask=c.mask,
           npeaks=c.par(3, 'npeaks', kinds=('plain', 'float')))
    fp = c.par(np.ones(_size2(c, c.shape, mode, odd=True, inside=(3, 5)), dtype=int), 'footprint', kinds=('int', 'float'))
    c.call(find_peaks, c.data, c.q(_thr(c)), footprint=fp, border_width=c.par(2, 'border_width', kinds=('plain', 'int')))
    # finders: xycoords as int / float / list, some outside the image; kernel of int dtype / larger than the image
    xyc = np.vstack([c.xy, [[-3.0, 2.0], [nx + 4.0, ny + 2.0]]]) if c.rng.random() < 0.3 else np.array(c.xy)
    xy = c.par(np.rint(xyc) if c.rng.random() < 0.5 else xyc, 'xycoords', kinds=('int', 'float'))
    for name in ('DAOStarFinder', 'IRAFStarFinder'):
        f = c.call(getattr(D, name), c.q(_thr(c) * 1.5), c.fwhm, xycoords=xy,
                   brightest=c.par(2, 'brightest', kinds=('plain', 'int')))
        if f is not None:
            c.call(f, c.data, mask=c.mask)
    ksz = {'inside': 7, 'at': min(ny, nx) | 1, 'beyond': (max(ny, nx) + 4) | 1}[mode]
    yk, xk = np.mgrid[-(ksz // 2):ksz // 2 + 1, -(ksz // 2):ksz // 2 + 1]
    kern = np.exp(-(xk ** 2 + yk ** 2) / (2 * c.sigma ** 2))
    kernel = c.par(np.rint(kern * 10) if c.rng.random() < 0.5 else kern * 2.5, 'kernel', kinds=('int', 'float'))
    sf = c.call(D.StarFinder, c.q(_thr(c) * 1.5), kernel, min_separation=c.par(3.0, 'min_separation', kinds=('plain', 'float')))
    if sf is not None:
        c.call(sf, c.data, mask=c.mask)
        c.call(sf.find_stars, c.data)


@entry('param_psf')
def e_param_psf(c):
    from photutils.datasets import make_model_image
    from photutils.psf import (EPSFBuilder, ImagePSF, PSFPhotometry, fit_2dgaussian, fit_fwhm,
                               make_psf_model_image)
    rng = c.rng
    mode = _rng_mode(c)
    model = _psf_model(c)
    fshape = c.par(_size2(c, c.shape, mode, odd=True, inside=(5, 7)), 'fit_shape', kinds=('int', 'intview', 'list'))
    bounds = c.par([2.0, 3.0], 'xy_bounds', kinds=('float', 'int', 'list'))
    p = c.call(PSFPhotometry, model, fshape, aperture_radius=4.0,
               xy_bounds=bounds, progress_bar=False)
    if p is not None:
        t = c.call(p, c.data, mask=c.mask, error=c.error, init_params=c.star_table())
        if t is not None:
            pshape = c.par(_size2(c, c.shape, _rng_mode(c), odd=True, inside=(7, 9)), 'psf_shape',
                           kinds=('int', 'intview', 'list'))
            c.call(p.make_model_image, c.shape, psf_shape=pshape)
            c.call(p.make_residual_image, c.data, psf_shape=pshape)
    xy = c.par(np.rint(c.xy) if rng.random() < 0.5 else c.xy, 'xypos', kinds=('int', 'float', 'list'))
    c.call(fit_2dgaussian, c.data, xypos=xy, fit_shape=fshape, mask=c.mask,
           fwhm=(c.par(np.full(len(c.xy), c.fwhm), 'fwhm', kinds=('float', 'list')) if rng.random() < 0.3 else c.fwhm))
    c.call(fit_fwhm, c.data, xypos=xy, fit_shape=c.par([5, 5], 'fit_shape', kinds=('int', 'list')))
    mshape = c.par(_size2(c, c.shape, _rng_mode(c), odd=True, inside=(9, 9)), 'model_shape',
                   kinds=('int', 'intview', 'list'))
    ishape = c.shape
    c.call(make_model_image, ishape, model, c.star_table(), model_shape=mshape)
    c.call(make_model_image, c.par(list(c.shape), 'shape', kinds=('int', 'list')), model, c.star_table())   # rejected
    c.call(make_psf_model_image, ishape, model, c.par(4, 'n_sources', kinds=('plain',)), model_shape=mshape,
           border_size=c.par([3, 4], 'border_size', kinds=('int', 'list')), seed=1,
           flux=c.par([100, 200], 'flux_range', kinds=('int', 'float', 'list')))
    yy, xx = np.mgrid[-8:9, -8:9]
    dd = np.exp(-(xx ** 2 + yy ** 2) / (2 * c.sigma ** 2))
    ovs = c.par([[1, 1], [2, 3], [4, 1]][int(rng.integers(0, 3))], 'oversampling', kinds=('int', 'intview', 'list', 'float'))
    ip = c.call(ImagePSF, c.plain(dd, 'psf_data'), oversampling=ovs,
                origin=c.par([8.0, 8.0], 'origin', kinds=('float', 'int', 'list')))
    if ip is not None:
        c.call(ip, c.plain(rng.uniform(0, 8, 6), 'x'), c.plain(rng.uniform(0, 8, 6), 'y'))
        c.call(setattr, ip, 'oversampling', c.par([2, 2], 'oversampling', kinds=('int', 'list')))
    c.call(EPSFBuilder, oversampling=c.par([2, 2], 'oversampling', kinds=('int', 'list')),
           shape=c.par([21, 23], 'shape', kinds=('int', 'list')), maxiters=1, progress_bar=False,
           recentering_boxsize=c.par([5, 5], 'recentering_boxsize', kinds=('int', 'list')))


@entry('param_shapes')
def e_param_shapes(c):
    from photutils.aperture import CircularAperture
    from photutils.datasets import make_model_params, make_noise_image, make_wcs
    from photutils.psf import extract_stars
    from photutils.psf.matching import TukeyWindow
    from photutils.segmentation import make_2dgaussian_kernel
    from photutils.utils import CutoutImage, circular_footprint
    from astropy.nddata import NDData
    rng = c.rng
    mode = _rng_mode(c)
    shp = c.par(list(c.shape), 'shape', kinds=('int', 'intview', 'list'))
    c.call(make_noise_image, shp, distribution='gaussian', mean=0.0, stddev=1.0, seed=0)
    c.call(make_model_params, shp, 4, border_size=c.par([2, 3], 'border_size', kinds=('int', 'list')),
           flux=c.par([1, 5], 'flux', kinds=('int', 'float', 'list')), seed=0)
    c.call(make_wcs, shp)
    c.call(TukeyWindow(0.4), shp)
    c.call(make_2dgaussian_kernel, c.fwhm, c.par([5, 7], 'size', kinds=('int', 'list')))
    c.call(circular_footprint, c.par(3, 'radius', kinds=('plain', 'int')))
    pos = c.par({'inside': [20.0, 18.0], 'at': [0.0, 0.0], 'beyond': [-30.0, 500.0]}[mode], 'position',
                kinds=('float', 'int', 'list'))
    csz = c.par(_size2(c, c.shape, _rng_mode(c), odd=True, inside=(9, 11)), 'cutout_shape', kinds=('int', 'intview', 'list'))
    ci = c.call(CutoutImage, c.data, pos, csz, mode=str(rng.choice(['trim', 'partial'])))
    c.read_all(ci)
    ap = c.call(CircularAperture, c.par(np.rint(c.xy), 'positions', kinds=('int', 'float', 'list')),
                4.0)
    if ap is not None:
        m = c.call(ap.to_mask)
        if m:
            c.call(m[0].to_image, shp)
            c.call(m[0].get_overlap_slices, shp)
        bb = c.call(lambda: ap.bbox)
        if bb:
            c.call(bb[0].get_overlap_slices, shp)
        c.call(ap.do_photometry, c.data, mask=c.mask)
    nd = c.call(NDData, c.data)
    if nd is not None:
        c.call(extract_stars, nd, c.star_table(('x', 'y')),
               size=c.par(_size2(c, c.shape, mode, odd=True, inside=(9, 11)), 'size', kinds=('int', 'intview', 'list')))


@entry('param_segmentation')
def e_param_segmentation(c):
    from photutils.segmentation import (SegmentationImage, SourceCatalog, SourceFinder, deblend_sources,
                                        detect_sources, detect_threshold)
    rng = c.rng
    mode = _rng_mode(c)
    base = _segm(c)
    if base is None:
        return
    thr = c.par(np.full(c.shape, int(_thr(c))), 'threshold', kinds=('int', 'float'))
    if c.unit is not None:
        thr = c.own(np.asarray(thr) * c.unit, 'threshold_q')
    c.call(detect_sources, c.data, thr, c.par(5, 'npixels', kinds=('plain', 'int')), mask=c.mask)
    c.call(detect_threshold, c.data, c.par(2.0, 'nsigma', kinds=('plain', 'float')),
           background=c.arr(np.full(c.shape, c.s(0.0)), 'background', secondary=True),
           error=c.arr(np.ones(c.shape), 'error1', secondary=True))
    f = c.call(SourceFinder, c.par([5, 3], 'npixels', kinds=('int', 'intview', 'list')), nlevels=4, progress_bar=False)
    if f is not None:
        c.call(f, c.data, c.q(_thr(c)), mask=c.mask)
    s = c.call(SegmentationImage, c.labels(base.data.copy(), 'segm_array'))
    if s is None:
        return
    labs = np.asarray(s.labels)
    sel = {'inside': labs[:2], 'at': labs[::-1], 'beyond': np.r_[labs[:1], labs.max() + 7]}[mode]
    if rng.random() < 0.3 and len(labs) > 1:
        sel = np.r_[sel, sel[:1]]                     # duplicates, unsorted
    la = c.par(sel, 'labels', kinds=('int', 'intview', 'list', 'tuple'))
    c.call(s.check_labels, la)
    c.call(s.get_indices, la)
    c.call(s.get_areas, la)
    c.call(deblend_sources, c.data, s, 4, labels=la, nlevels=4, progress_bar=False)
    cat = c.call(SourceCatalog, c.data, s, error=c.error, mask=c.mask, progress_bar=False,
                 kron_params=c.par([2.5, 1.4, 0.0], 'kron_params', kinds=('float', 'list')))
    if cat is not None:
        c.call(cat.get_labels, la)
        c.call(cat.kron_photometry, c.par([2.0, 1.0], 'kron_params', kinds=('float', 'list')))
        c.call(cat.make_cutouts, c.par(_size2(c, c.shape, _rng_mode(c), odd=True, inside=(9, 9)), 'shape',
                                       kinds=('int', 'intview', 'list')))
        c.call(cat.to_table, columns=c.own(['label', 'xcentroid', 'kron_flux'], 'columns'))
    c.call(s.keep_labels, la, relabel=bool(rng.integers(0, 2)))
    s2 = c.call(SegmentationImage, c.labels(base.data.copy(), 'segm_array'))
    if s2 is not None:
        c.call(s2.reassign_labels, la, c.par(int(labs.max()) + 3, 'new_label', kinds=('plain', 'int')))
        c.call(s2.remove_labels, c.par(np.asarray(s2.labels)[:1], 'labels', kinds=('int', 'list')), relabel=True)
        c.call(s2.remove_border_labels, c.par({'inside': 2, 'at': min(c.shape) // 2, 'beyond': max(c.shape) + 5}[mode],
                                              'border_width', kinds=('plain', 'int')))
        c.call(s2.make_source_mask, size=c.par([3, 5], 'size', kinds=('int', 'list')))
        c.call(s2.relabel_consecutive, c.par(4, 'start_label', kinds=('plain', 'int')))


@entry('param_profiles_apertures')
def e_param_profiles_apertures(c):
    import photutils.profiles as P
    from photutils.aperture import (ApertureStats, CircularAnnulus, CircularAperture, EllipticalAperture,
                                    aperture_photometry)
    from photutils.psf import SourceGrouper
    from photutils.utils import ShepardIDWInterpolator
    rng = c.rng
    mode = _rng_mode(c)
    x, y = c.xy[0]
    rmax = {'inside': 8, 'at': min(c.shape) // 2, 'beyond': max(c.shape) + 10}[mode]
    r0 = np.arange(0, rmax + 1, max(1, rmax // 8))
    radii = c.par(r0, 'radii', kinds=('int', 'intview', 'float', 'list'))
    xyc = c.par([x, y] if rng.random() < 0.7 else [round(x), round(y)], 'xycen', kinds=('float', 'int', 'list'))
    rp = c.call(P.RadialProfile, c.data, xyc, radii, error=c.error, mask=c.mask)
    c.read_all(rp)
    cog = c.call(P.CurveOfGrowth, c.data, xyc, c.par(r0[1:], 'radii', kinds=('int', 'intview', 'float', 'list')),
                 mask=c.mask)
    c.read_all(cog)
    if cog is not None:
        c.call(cog.normalize)
        c.call(cog.calc_ee_at_radius, c.par([1.0, float(rmax) + 5.0], 'radius', kinds=('float', 'int', 'list')))
        c.call(cog.calc_radius_at_ee, c.par([0.5, 0.1, 1.5], 'ee', kinds=('float', 'list')))      # unsorted, beyond 1
    c.call(P.RadialProfile, c.data, xyc, c.par(r0[::-1], 'radii', kinds=('int', 'float', 'list')))   # unsorted: raises
    pos_v = np.vstack([np.rint(c.xy), [[-4.0, 3.0], [c.shape[1] + 6.0, 5.0]]])                       # some off-image
    pos = c.par(pos_v, 'positions', kinds=('int', 'float', 'list'))
    ap = c.call(CircularAperture, pos, 3.0)
    an = c.call(CircularAnnulus, pos, 4.0, 7.0)
    el = c.call(EllipticalAperture, pos, 5.0, 3.0, theta=0.5)
    if ap is not None:
        c.call(aperture_photometry, c.data, c.own([a for a in (ap, an, el) if a is not None], 'apertures'),
               error=c.error, mask=c.mask, subpixels=3, method='subpixel')
        st = c.call(ApertureStats, c.data, ap, error=c.error, mask=c.mask,
                    local_bkg=c.par(np.zeros(len(pos_v)), 'local_bkg', kinds=('float', 'int', 'list')))
        if st is not None:
            c.call(st.get_ids, c.par([2, 1], 'ids', kinds=('int', 'list')))
            c.call(getattr, st, 'sum')
            c.call(getattr, st, 'centroid')
    g = c.call(SourceGrouper, c.par(12.0, 'min_separation', kinds=('plain', 'float')))
    if g is not None:
        c.call(g, c.par(np.rint(c.xy[:, 0]), 'x', kinds=('int', 'float', 'list')),
               c.par(np.rint(c.xy[:, 1]), 'y', kinds=('int', 'float', 'list')))
    coords = c.par(np.rint(rng.uniform(0, 10, (30, 2))), 'coordinates', kinds=('int', 'float', 'list'))
    vals = c.par(np.rint(rng.normal(0, 5, 30)), 'values', kinds=('int', 'float', 'list'))
    f = c.call(ShepardIDWInterpolator, coords, vals)
    if f is not None:
        c.call(f, c.par([[1, 2], [50, 60]], 'positions', kinds=('int', 'float', 'list')), n_neighbors=4)


# ----------------------------------------------------------------------
# fifth layer (generic axes ii / vi): unit-ful inputs in EQUIVALENT BUT DIFFERENT units, Table vs QTable, Angle forms,
# numpy-scalar / 0-d scalar forms; degenerate inputs.  Where photutils documents "same units" the documented error
# is simply counted (the inputs are compared on raise as well).
# ----------------------------------------------------------------------
def _unit_pair(c):
    import astropy.units as u
    pairs = [(u.Jy, u.mJy, 1e3), (u.Jy, u.uJy, 1e6), (u.mJy, u.Jy, 1e-3), (u.ct, u.kct, 1e-3), (u.ct, u.ct, 1.0),
             (u.electron, u.electron, 1.0)]
    return pairs[int(c.rng.integers(0, len(pairs)))]


def _as_q(c, arr, unit, name):
    """Quantity built on top of a represented value array (the Quantity object is what the library receives)."""
    import astropy.units as u
    a = np.asarray(np.ma.getdata(arr) if isinstance(arr, np.ma.MaskedArray) else
                   (arr.value if isinstance(arr, u.Quantity) else arr), dtype=float)
    return c.own(u.Quantity(a, unit, copy=True), name)


@entry('units_tables')
def e_units_tables(c):
    import astropy.units as u
    from astropy.table import QTable, Table
    from photutils.datasets import make_model_image
    from photutils.psf import (CircularGaussianPRF, IterativePSFPhotometry, PSFPhotometry, SourceGrouper,
                               make_psf_model_image)
    from photutils.detection import DAOStarFinder
    rng = c.rng
    du, ou, f = _unit_pair(c)              # data unit, other (equivalent) unit, value factor data->other
    c.axes['unit_pair_' + ('same' if du == ou else 'different')] = 1
    n = len(c.xy)
    flux = c.amp * 2 * np.pi * c.sigma ** 2
    # ---- make_model_image / make_psf_model_image: QTable with flux in the data unit and local_bkg in the other
    def params(local=True, flux_unit=du, lb_unit=ou, cls=QTable, names=('x_0', 'y_0', 'flux')):
        t = cls()
        t[names[0]] = c.xy[:, 0] + rng.uniform(-0.3, 0.3, n)
        t[names[1]] = c.xy[:, 1] + rng.uniform(-0.3, 0.3, n)
        fv = flux if flux_unit is None else (flux * (f if flux_unit == ou else 1.0)) * flux_unit
        t[names[2]] = fv
        if local:
            lb = np.full(n, c.s(0.2))
            t['local_bkg'] = lb if lb_unit is None else (lb * (f if lb_unit == ou else 1.0)) * lb_unit
        if rng.random() < 0.3:
            t['model_shape'] = 9
        t.meta['k'] = 'v'
        return c.own(t, 'params_table')
    model = c.own(CircularGaussianPRF(fwhm=c.fwhm), 'psf_model')
    c.call(make_model_image, c.shape, model, params(), model_shape=(9, 9))
    c.call(make_model_image, c.shape, model, params(lb_unit=du), model_shape=(9, 9))
    c.call(make_model_image, c.shape, model, params(flux_unit=ou, lb_unit=du), bbox_factor=3.0)
    c.call(make_model_image, c.shape, model, params(flux_unit=None, lb_unit=None, cls=Table), model_shape=(7, 7))
    c.call(make_model_image, c.shape, model, params(flux_unit=None, lb_unit=ou), model_shape=(7, 7))   # unit mismatch
    qmodel = c.own(CircularGaussianPRF(flux=1.0 * du, fwhm=c.fwhm), 'psf_model')
    c.call(make_model_image, c.shape, qmodel, params(lb_unit=ou), model_shape=(9, 9))
    c.call(make_psf_model_image, c.shape, model, 4, model_shape=(9, 9), seed=1,
           flux=c.own((flux.min(), flux.max()) * du, 'flux_range'))
    # ---- PSF photometry: data in du, error in ou, init_params flux / local_bkg columns in ou
    data_q = _as_q(c, c.data, du, 'data_q')
    err_q = _as_q(c, np.where(np.isfinite(c.raw_err), c.raw_err, c.s(1.0)) * f, ou, 'error_q')
    init = params(flux_unit=ou, lb_unit=ou, names=[('x_0', 'y_0', 'flux'), ('x_init', 'y_init', 'flux_init'),
                                                    ('xcentroid', 'ycentroid', 'flux')][int(rng.integers(0, 3))])
    p = c.call(PSFPhotometry, model, (5, 5), aperture_radius=4.0, progress_bar=False,
               grouper=SourceGrouper(10.0) if rng.random() < 0.4 else None)
    if p is not None:
        r = c.call(p, data_q, mask=c.mask, error=err_q, init_params=init)
        if r is not None:
            c.call(p.make_model_image, c.shape, psf_shape=(7, 7), include_localbkg=True)
            c.call(p.make_residual_image, data_q, psf_shape=(7, 7), include_localbkg=bool(rng.integers(0, 2)))
        c.call(p, data_q, error=_as_q(c, c.raw_err, du, 'error_q'), init_params=params(flux_unit=du, lb_unit=du))
        c.call(p, c.data, init_params=params(flux_unit=None, lb_unit=None, cls=Table))
    if rng.random() < 0.4:
        thr = (_thr(c) * 1.5 * f) * ou
        ip = c.call(IterativePSFPhotometry, model, (5, 5), DAOStarFinder(thr, c.fwhm), aperture_radius=4.0,
                    maxiters=2, progress_bar=False)
        if ip is not None:
            c.call(ip, data_q, mask=c.mask, error=err_q, init_params=init if rng.random() < 0.5 else None)


@entry('units_images')
def e_units_images(c):
    import astropy.units as u
    import photutils.profiles as P
    from astropy.coordinates import Angle
    from photutils.aperture import (ApertureStats, CircularAperture, EllipticalAperture, RectangularAperture,
                                    SkyCircularAperture, SkyEllipticalAperture, aperture_photometry)
    from photutils.background import Background2D, LocalBackground
    from photutils.datasets import make_wcs
    from photutils.detection import DAOStarFinder, find_peaks
    from photutils.morphology import data_properties
    from photutils.segmentation import SourceCatalog, detect_sources, detect_threshold
    from photutils.utils import calc_total_error
    rng = c.rng
    du, ou, f = _unit_pair(c)
    c.axes['unit_pair_' + ('same' if du == ou else 'different')] = 1
    data_q = _as_q(c, c.data, du, 'data_q')
    err = np.where(np.isfinite(c.raw_err), c.raw_err, c.s(1.0))
    err_o = _as_q(c, err * f, ou, 'error_q')
    bkg_o = _as_q(c, np.full(c.shape, c.s(0.2)) * f, ou, 'background_q')
    thr_o = _as_q(c, np.full(c.shape, _thr(c)) * f, ou, 'threshold_q')
    pos = c.plain(c.xy, 'positions')
    # angle forms: radians float, Quantity deg / arcmin, Angle
    th = [0.4, 23.0 * u.deg, (23.0 * 60) * u.arcmin, Angle(0.4, u.rad)][int(rng.integers(0, 4))]
    if not isinstance(th, float):
        c.own(th, 'theta')
        c.axes['angle_quantity_form'] = 1
    aps = [c.call(CircularAperture, pos, 4.0), c.call(EllipticalAperture, pos, 5.0, 3.0, theta=th),
           c.call(RectangularAperture, pos, 6.0, 4.0, theta=th)]
    aps = [c.own(a, 'aperture') for a in aps if a is not None]
    if aps:
        c.call(aperture_photometry, data_q, aps, error=err_o, mask=c.mask)
        c.call(aperture_photometry, data_q, aps[0], error=_as_q(c, err, du, 'error_q'))
        c.call(aperture_photometry, c.data, aps[0], error=err_o)                      # unit-less data, unit-ful error
        st = c.call(ApertureStats, data_q, aps[-1], error=err_o, mask=c.mask,
                    local_bkg=c.own(np.full(len(c.xy), c.s(0.1)) * f * ou, 'local_bkg_q'))
        c.read_all(st)
        wcs = make_wcs(c.shape)
        sky = c.call(aps[0].to_sky, wcs)
        if sky is not None:
            sp = c.own(sky.positions, 'skycoord')
            r = [0.4 * u.arcsec, (0.4 / 60) * u.arcmin, (0.4 / 3600) * u.deg][int(rng.integers(0, 3))]
            s1 = c.call(SkyCircularAperture, sp, r=c.own(r, 'r'))
            s2 = c.call(SkyEllipticalAperture, sp, a=2 * r, b=r, theta=c.own(30 * 60 * u.arcmin, 'theta'))
            for s_ in (s1, s2):
                if s_ is not None:
                    c.call(aperture_photometry, data_q, s_, error=err_o, wcs=wcs)
                    c.call(s_.to_pixel, wcs)
    segm = _segm(c)
    if segm is not None:
        c.own(segm, 'segment_img')
        cat = c.call(SourceCatalog, data_q, segm, error=err_o, background=bkg_o, mask=c.mask, progress_bar=False,
                     localbkg_width=int(rng.choice([0, 4])))
        c.read_all(cat, methods=('to_table',))
        cat2 = c.call(SourceCatalog, data_q, segm, error=_as_q(c, err, du, 'error_q'),
                      background=_as_q(c, np.full(c.shape, c.s(0.2)), du, 'background_q'), progress_bar=False)
        if cat2 is not None:
            c.call(getattr, cat2, 'kron_flux')
            c.call(getattr, cat2, 'segment_fluxerr')
            c.call(getattr, cat2, 'background_mean')
    gain = c.own(np.full(c.shape, 2.0 / c.scale) * u.electron / du, 'effective_gain')
    c.call(calc_total_error, data_q, _as_q(c, np.full(c.shape, c.s(1.2)) * f, ou, 'bkg_error_q'), gain)
    c.call(calc_total_error, data_q, _as_q(c, np.full(c.shape, c.s(1.2)), du, 'bkg_error_q'), gain)
    c.call(detect_threshold, data_q, c.par(2.0, 'nsigma', kinds=('plain', 'npscalar')), background=bkg_o, error=err_o,
           mask=c.mask)
    c.call(detect_threshold, data_q, 2.0, background=(c.s(0.1) * f) * ou, error=(c.s(1.0) * f) * ou)
    c.call(detect_sources, data_q, thr_o, 5, mask=c.mask)
    c.call(detect_sources, data_q, (_thr(c) * f) * ou, 5)
    c.call(find_peaks, data_q, thr_o, box_size=5, mask=c.mask, error=err_o)
    c.call(find_peaks, data_q, (_thr(c) * f) * ou, box_size=5)
    fd = c.call(DAOStarFinder, (_thr(c) * 1.5 * f) * ou, c.par(c.fwhm, 'fwhm', kinds=('plain', 'npscalar')),
                peakmax=(c.s(250.0) * f) * ou if rng.random() < 0.5 else None)
    if fd is not None:
        c.call(fd, data_q, mask=c.mask)
    c.call(Background2D, data_q, 8, mask=c.mask)
    lb = c.call(LocalBackground, 5.0, 9.0)
    if lb is not None:
        c.call(lb, data_q, float(c.xy[0, 0]), float(c.xy[0, 1]))
    d, e, m = _cutout(c)
    dq = _as_q(c, d, du, 'cutout_q')
    c.call(data_properties, dq, mask=m, background=(c.s(0.1) * f) * ou)
    x, y = c.xy[0]
    rp = c.call(P.RadialProfile, data_q, (float(x), float(y)), c.plain(np.arange(0, 8.0), 'radii'), error=err_o,
                mask=c.mask)
    c.read_all(rp)
    cg = c.call(P.CurveOfGrowth, data_q, (float(x), float(y)), c.plain(np.arange(1, 8.0), 'radii'),
                error=_as_q(c, err, du, 'error_q'), mask=c.mask)
    c.read_all(cg)


@entry('degenerate')
def e_degenerate(c):
    """(vi) rarely used branches: 1xN / Nx1 / 1x1 images, constant image, everything masked, nothing detected,
    empty tables and selections, a single source, objects entirely off the image."""
    import photutils.profiles as P
    from astropy.table import QTable, Table
    from photutils.aperture import ApertureStats, CircularAperture, aperture_photometry
    from photutils.background import Background2D, MedianBackground
    from photutils.centroids import centroid_com, centroid_quadratic, centroid_sources
    from photutils.datasets import make_model_image
    from photutils.detection import DAOStarFinder, StarFinder, find_peaks
    from photutils.morphology import data_properties, gini
    from photutils.psf import CircularGaussianPRF, PSFPhotometry, SourceGrouper
    from photutils.segmentation import SegmentationImage, SourceCatalog, deblend_sources, detect_sources
    from photutils.utils import CutoutImage
    rng = c.rng
    kind = ['row', 'column', 'pixel', 'constant', 'allmasked', 'nothing', 'empty_tables', 'single', 'offimage'][
        int(rng.integers(0, 9))]
    c.axes['degenerate_' + kind] = 1
    model = c.own(CircularGaussianPRF(fwhm=c.fwhm), 'psf_model')
    if kind in ('row', 'column', 'pixel'):
        n = int(rng.integers(5, 40))
        shp = {'row': (1, n), 'column': (n, 1), 'pixel': (1, 1)}[kind]
        img = c.arr(rng.normal(c.s(5.0), c.s(1.0), shp), 'data_thin', primary=True)
        msk = c.boolarr(rng.random(shp) < 0.2, 'mask_thin')
        c.call(Background2D, img, (1, 3) if kind == 'row' else (3, 1) if kind == 'column' else 1, mask=msk)
        c.call(detect_sources, img, c.q(c.s(5.0)), 1, mask=msk)
        c.call(find_peaks, img, c.q(c.s(5.0)), box_size=3, mask=msk)
        c.call(centroid_com, img, mask=msk)
        c.call(centroid_quadratic, img)
        c.call(gini, img, mask=msk)
        ap = c.call(CircularAperture, c.plain([[0.0, 0.0], [2.0, 0.0]], 'positions'), 1.5)
        if ap is not None:
            c.call(aperture_photometry, img, ap, mask=msk)
            st = c.call(ApertureStats, img, ap, mask=msk)
            c.read_all(st)
        c.call(CutoutImage, img, (0, 0), (3, 3), mode='partial')
        c.call(MedianBackground(), img)
        c.call(data_properties, img, mask=msk)
        return
    if kind in ('constant', 'allmasked', 'nothing'):
        if kind == 'constant':
            img = c.arr(np.full(c.shape, c.s(3.0)), 'data_const', primary=True)
            msk = c.mask
        elif kind == 'allmasked':
            img = c.data
            msk = c.boolarr(np.ones(c.shape, bool), 'mask_all')
        else:
            img = c.arr(rng.normal(0, c.s(1.0), c.shape), 'data_noise', primary=True)
            msk = c.mask
        high = c.q(c.s(1e4))
        b = c.call(Background2D, img, 8, mask=msk)
        c.read_all(b)
        c.call(detect_sources, img, high, 5, mask=msk)
        c.call(find_peaks, img, high, box_size=5, mask=msk)
        f = c.call(DAOStarFinder, high, c.fwhm)
        if f is not None:
            c.call(f, img, mask=msk)
        sf = c.call(StarFinder, high, c.arr(c.raw_kernel, 'kernel', secondary=True, unit=False, allow_int=False))
        if sf is not None:
            c.call(sf, img, mask=msk)
        c.call(centroid_com, img, mask=msk)
        c.call(gini, img, mask=msk)
        x, y = c.xy[0]
        rp = c.call(P.RadialProfile, img, (float(x), float(y)), c.plain(np.arange(0, 8.0), 'radii'), mask=msk)
        c.read_all(rp)
        ap = c.call(CircularAperture, c.plain(c.xy, 'positions'), 4.0)
        if ap is not None:
            st = c.call(ApertureStats, img, ap, mask=msk)
            c.read_all(st)
        p = c.call(PSFPhotometry, model, (5, 5), finder=DAOStarFinder(high, c.fwhm), aperture_radius=4.0,
                   progress_bar=False)
        if p is not None:
            c.call(p, img, mask=msk)                      # nothing found
            c.call(p, img, mask=msk, init_params=c.star_table())
        return
    if kind == 'empty_tables':
        cls = QTable if c.qtable else Table
        t = c.own(cls({'x_0': np.array([], float), 'y_0': np.array([], float), 'flux': np.array([], float)}), 'table')
        c.call(make_model_image, c.shape, model, t, model_shape=(7, 7))
        p = c.call(PSFPhotometry, model, (5, 5), aperture_radius=4.0, progress_bar=False)
        if p is not None:
            c.call(p, c.data, mask=c.mask, error=c.error, init_params=t)
        e0 = c.plain(np.array([], float), 'empty')
        c.call(centroid_sources, c.data, e0, e0, box_size=5)
        c.call(SourceGrouper(5.0), e0, e0)
        segm = _segm(c)
        if segm is not None:
            s = SegmentationImage(segm.data.copy())
            c.call(s.keep_labels, c.plain(np.array([], int), 'labels', dtype=int))
            c.call(s.remove_labels, c.plain(np.array([], int), 'labels', dtype=int))
            c.call(s.get_indices, c.plain(np.array([], int), 'labels', dtype=int))
            c.call(deblend_sources, c.data, s, 4, labels=c.plain(np.array([], int), 'labels', dtype=int),
                   progress_bar=False)
            z = c.call(SegmentationImage, c.plain(np.zeros(c.shape, int), 'segm_zero', dtype=int))
            c.read_all(z, skip=('cmap',))
            if z is not None:
                c.call(z.relabel_consecutive)
                c.call(SourceCatalog, c.data, z, error=c.error, progress_bar=False)
        return
    if kind == 'single':
        t = c.star_table()
        one = c.own(t[:1], 'table_one')
        c.call(make_model_image, c.shape, model, one, model_shape=(7, 7))
        p = c.call(PSFPhotometry, model, (5, 5), aperture_radius=4.0, grouper=SourceGrouper(5.0), progress_bar=False)
        if p is not None:
            c.call(p, c.data, mask=c.mask, error=c.error, init_params=one)
            c.read_all(p)
        ap = c.call(CircularAperture, c.plain(c.xy[0], 'position'), 4.0)                  # scalar aperture
        if ap is not None:
            c.call(aperture_photometry, c.data, ap, error=c.error, mask=c.mask)
            st = c.call(ApertureStats, c.data, ap, error=c.error, mask=c.mask)
            c.read_all(st)
            c.read_all(ap)
        segm = _segm(c)
        if segm is not None:
            s = SegmentationImage(segm.data.copy())
            s.keep_label(int(s.labels[0]))
            c.own(s, 'segment_img')
            cat = c.call(SourceCatalog, c.data, s, error=c.error, mask=c.mask, progress_bar=False)
            c.read_all(cat, methods=('to_table',))
            one_c = c.call(lambda: cat[0]) if cat is not None else None
            c.read_all(one_c)
        return
    # objects entirely off the image / partially overlapping
    off = np.array([[-30.0, -30.0], [c.shape[1] + 40.0, 5.0], [c.xy[0, 0], c.xy[0, 1]], [0.0, c.shape[0] - 1.0]])
    pos = c.plain(off, 'positions')
    ap = c.call(CircularAperture, pos, 4.0)
    if ap is not None:
        c.call(aperture_photometry, c.data, ap, error=c.error, mask=c.mask)
        st = c.call(ApertureStats, c.data, ap, error=c.error, mask=c.mask)
        c.read_all(st)
        c.call(ap.to_mask)
        c.call(ap.area_overlap, c.data, mask=c.mask)
    cls = QTable if c.qtable else Table
    t = cls()
    t['x_0'] = off[:, 0]
    t['y_0'] = off[:, 1]
    t['flux'] = c.q(np.full(len(off), c.s(500.0)))
    t['local_bkg'] = c.q(np.full(len(off), c.s(0.1)))
    c.own(t, 'table')
    c.call(make_model_image, c.shape, model, t, model_shape=(9, 9))
    p = c.call(PSFPhotometry, model, (5, 5), aperture_radius=4.0, progress_bar=False)
    if p is not None:
        c.call(p, c.data, mask=c.mask, error=c.error, init_params=t)
        c.call(p.make_model_image, c.shape, psf_shape=(7, 7))
    c.call(CutoutImage, c.data, (-20, -20), (5, 5), mode='partial')
    x, y = off[0]
    rp = c.call(P.RadialProfile, c.data, (float(x), float(y)), c.plain(np.arange(0, 6.0), 'radii'), mask=c.mask)
    c.read_all(rp)


# ----------------------------------------------------------------------
# sixth layer (generic axes 2, x): objects WITH A HISTORY handed in as inputs, the same object used for two requests
# ----------------------------------------------------------------------
@entry('provenance')
def e_provenance(c):
    import astropy.units as u
    from photutils.aperture import (ApertureStats, CircularAperture, EllipticalAperture, aperture_photometry)
    from photutils.datasets import make_model_image, make_wcs
    from photutils.psf import PSFPhotometry
    from photutils.segmentation import SegmentationImage, SourceCatalog, deblend_sources
    rng = c.rng
    c.axes['axis2_x_provenance'] = 1
    base = _segm(c)
    if base is not None and base.nlabels >= 2:
        s = SegmentationImage(base.data.copy())
        _ = (s.areas, s.slices, s.bbox)                       # cached properties read BEFORE the edits
        s.relabel_consecutive(start_label=int(rng.integers(2, 9)))
        s.reassign_label(int(s.labels[0]), int(s.max_label) + 5)
        if s.nlabels > 2 and rng.random() < 0.5:
            s.remove_label(int(s.labels[-1]))
        _ = (s.areas, s.labels)                               # and AFTER
        c.own(s, 'segment_img_history')
        cat = c.call(SourceCatalog, c.data, s, error=c.error, mask=c.mask, progress_bar=False)
        c.read_all(cat, methods=('to_table',))
        c.call(deblend_sources, c.data, s, 4, nlevels=4, progress_bar=False)
        if cat is not None and cat.nlabels >= 2:
            sub = c.call(cat.__getitem__, slice(0, 2))        # an indexed catalogue as detection_cat
            if sub is not None:
                c.call(SourceCatalog, c.data, s, detection_cat=cat, error=c.error, progress_bar=False)
                c.read_all(sub)
                c.call(sub.to_table)
        sl = c.call(s.__getitem__, (slice(1, None), slice(2, None)))      # a sliced segmentation image
        if sl is not None:
            c.own(sl, 'segment_img_slice')
            dview = c.data[1:, 2:] if hasattr(c.data, '__getitem__') else c.data
            c.call(SourceCatalog, c.own(dview, 'data_slice'), sl, progress_bar=False)
    # apertures with a history: to_sky -> to_pixel, indexing, in-place attribute update; used twice
    wcs = make_wcs(c.shape)
    ap0 = CircularAperture(c.xy, 4.0)
    sky = c.call(ap0.to_sky, wcs)
    if sky is not None:
        c.own(sky, 'sky_aperture')
        ap1 = c.call(sky.to_pixel, wcs)
        if ap1 is not None:
            c.own(ap1, 'aperture_roundtrip')
            ap2 = ap1[:2] if len(ap1) > 1 else ap1.copy()
            ap2.r = 3.5                                       # in-place update by the caller BEFORE it is handed over
            c.own(ap2, 'aperture_indexed')
            for ap in (ap1, ap2):
                c.call(aperture_photometry, c.data, ap, error=c.error, mask=c.mask)
                c.call(aperture_photometry, c.data, ap, error=c.error, mask=c.mask)      # same object again
                st = c.call(ApertureStats, c.data, ap, mask=c.mask)
                c.read_all(st)
                c.read_all(ap)
        c.call(aperture_photometry, c.data, sky, wcs=wcs, mask=c.mask)
        c.call(aperture_photometry, c.data, sky, wcs=wcs, mask=c.mask)                  # sky path object used twice
        c.read_all(sky)
    el = EllipticalAperture(c.xy, 5.0, 3.0, theta=30.0 * u.deg)
    c.own(el, 'aperture_theta_deg')
    esky = c.call(el.to_sky, wcs)
    if esky is not None:
        c.own(esky, 'sky_aperture')
        e1 = c.call(esky.to_pixel, wcs)
        e2 = c.call(esky.to_pixel, wcs)                       # theta converted twice
        c.read_all(esky)
        for e_ in (e1, e2):
            if e_ is not None:
                c.call(aperture_photometry, c.data, e_, mask=c.mask)
        c.read_all(el)
    # a model that was copied and evaluated before; a table that is a slice of another
    model = _psf_model(c)
    m2 = model.copy()
    m2(np.array([1.0, 2.0]), np.array([1.0, 2.0]))
    m2.flux = 3.0
    c.own(m2, 'psf_model_history')
    full = c.star_table()
    part = c.own(full[1:], 'table_slice')
    c.call(make_model_image, c.shape, m2, part, model_shape=(7, 7))
    p = c.call(PSFPhotometry, m2, (5, 5), aperture_radius=4.0, progress_bar=False)
    if p is not None:
        c.call(p, c.data, mask=c.mask, error=c.error, init_params=part)
        c.call(p, c.data, mask=c.mask, error=c.error, init_params=part)                # same fitter, same table again
        c.read_all(p)


@entry('geometry')
def e_geometry(c):
    """The three compiled overlap kernels take scalars only (no caller-owned arrays); called for the surface audit."""
    from photutils.geometry import circular_overlap_grid, elliptical_overlap_grid, rectangular_overlap_grid
    c.call(circular_overlap_grid, -2.0, 2.0, -2.0, 2.0, 5, 5, 1.5, 1, 5)
    c.call(elliptical_overlap_grid, -2.0, 2.0, -2.0, 2.0, 5, 5, 1.5, 1.0, 0.3, 1, 5)
    c.call(rectangular_overlap_grid, -2.0, 2.0, -2.0, 2.0, 5, 5, 2.0, 1.0, 0.3, 0, 5)


# ----------------------------------------------------------------------
# seventh layer: display / repr / copy / pickle round trips of every object kind; the object that owns the method is
# snapshotted as a caller-owned object (sentinel: `self` for enumerated kinds, attribute bag for the others)
# ----------------------------------------------------------------------
def _bag(c, obj, name):
    from pv.c10_sentinel import _AttrBag
    if obj is not None:
        c.own(_AttrBag(obj), name)
    return obj


def _roundtrips(c, obj):
    import copy
    import pickle
    if obj is None:
        return
    c.call(repr, obj)
    c.call(str, obj)
    c.call(copy.copy, obj)
    c.call(copy.deepcopy, obj)
    c.call(lambda: pickle.loads(pickle.dumps(obj)))
    for m in ('copy', 'deepcopy'):
        f = getattr(obj, m, None)
        if callable(f):
            c.call(f)


@entry('display_grids', slow=True)
def e_display_grids(c):
    from astropy.nddata import NDData
    from photutils.psf import GriddedPSFModel
    rng = c.rng
    yy, xx = np.mgrid[-5:6, -5:6]
    layout = ['1x1', 'nx1', '1xn', 'nxm'][int(rng.integers(0, 4))]
    c.axes['display_grid_' + layout] = 1
    pos = {'1x1': [(20, 20)], 'nx1': [(20, 0), (20, 20), (20, 40)], '1xn': [(0, 20), (20, 20), (40, 20)],
           'nxm': [(0, 0), (20, 0), (40, 0), (0, 30), (20, 30), (40, 30)]}[layout]
    psfs = []
    for k in range(len(pos)):
        s = c.sigma * (1 + 0.07 * k)
        d = np.exp(-(xx ** 2 + yy ** 2) / (2 * s ** 2)) * (k + 2.0)
        if rng.random() < 0.15:
            d = np.zeros_like(d)                      # a blank ePSF (the `deltas` branch skips it)
        psfs.append(d)
    cube = c.arr(np.array(psfs), 'psf_cube', primary=True, unit=False, allow_int=False)
    nd = c.call(NDData, cube, meta={'grid_xypos': pos, 'oversampling': int(rng.choice([1, 2]))})
    if nd is None:
        return
    c.own(nd, 'nddata')
    m = c.call(GriddedPSFModel, nd, flux=2.0, x_0=20.0, y_0=20.0)
    if m is None:
        return
    c.own(m, 'psf_model')
    for _ in range(3):
        kw = dict(peak_norm=bool(rng.integers(0, 2)), deltas=bool(rng.integers(0, 2)),
                  dividers=bool(rng.integers(0, 2)))
        if rng.random() < 0.4:
            kw['vmax_scale'] = float(rng.choice([0.5, 1.0, 2.0]))
        c.call(m.plot_grid, ax=_ax(), **kw)
    c.call(m.plot_grid, ax=_ax(), peak_norm=True)
    c.call(m, c.plain(rng.uniform(15, 25, 5), 'x'), c.plain(rng.uniform(15, 25, 5), 'y'))     # evaluate AFTER plotting
    _roundtrips(c, m)
    c.read_all(m)


@entry('display_methods', slow=True)
def e_display_methods(c):
    import glob as _g
    import os
    import photutils
    import photutils.profiles as P
    from photutils.aperture import ApertureStats, BoundingBox, CircularAperture
    from photutils.background import Background2D, LocalBackground, MedianBackground
    from photutils.detection import DAOStarFinder
    from photutils.psf import STDPSFGrid, SourceGrouper
    from photutils.segmentation import SourceCatalog, SourceFinder
    from photutils.utils import CutoutImage, ImageDepth
    rng = c.rng
    aps = _pixel_apertures(c)
    for ap in aps[:int(rng.integers(1, 4))]:
        if ap is None:
            continue
        c.call(ap.plot, ax=_ax(), origin=(1.5, 0.5))
        _roundtrips(c, ap)
        ms = c.call(ap.to_mask)
        if ms:
            _bag(c, ms[0], 'aperture_mask_obj')
            c.call(ms[0].to_image, c.shape)
            _roundtrips(c, ms[0])
            c.call(np.asarray, ms[0])
        bb = c.call(lambda a=ap: a.bbox)
        if bb:
            c.call(bb[0].plot, ax=_ax())
            _roundtrips(c, bb[0])
    segm = _segm(c)
    if segm is not None:
        c.own(segm, 'segment_img')
        c.call(segm.imshow, ax=_ax())
        c.call(segm.imshow_map, ax=_ax())
        c.call(segm.make_cmap, seed=3)
        c.call(lambda: segm.cmap)
        c.call(segm.to_patches, origin=(1, 2), scale=1.5)
        c.call(segm.plot_patches, ax=_ax(), origin=(1, 2))
        c.call(segm.to_regions)
        c.call(lambda: segm.polygons)
        _roundtrips(c, segm)
        cat = c.call(SourceCatalog, c.data, segm, error=c.error, mask=c.mask, progress_bar=False)
        if cat is not None:
            _bag(c, cat, 'catalog_obj')
            c.call(cat.plot_kron_apertures, ax=_ax())
            c.call(cat.plot_circular_apertures, 3.0, ax=_ax())
            _roundtrips(c, cat)
            c.call(cat.to_table)
        for seg in (segm.segments[:1] if segm.nlabels else []):
            _roundtrips(c, seg)
    x, y = c.xy[0]
    for cls in ('RadialProfile', 'CurveOfGrowth'):
        p = c.call(getattr(P, cls), c.data, (float(x), float(y)), c.plain(np.arange(1 if cls == 'CurveOfGrowth' else 0, 8.0), 'radii'),
                   error=c.error, mask=c.mask)
        if p is not None:
            _bag(c, p, 'profile_obj')
            c.call(p.plot, ax=_ax())
            c.call(p.plot_error, ax=_ax())
            c.call(getattr, p, 'profile')
            c.call(p.plot, ax=_ax(), color='k')
            _roundtrips(c, p)
    b = c.call(Background2D, c.data, 9, mask=c.mask)
    if b is not None:
        _bag(c, b, 'background_obj')
        c.call(b.plot_meshes, ax=_ax(), outlines=bool(rng.integers(0, 2)))
        _roundtrips(c, b)
    from photutils.aperture import ApertureMask
    am = c.call(ApertureMask, c.plain(rng.uniform(0, 1, (3, 4)), 'mask_weights'), BoundingBox(1, 5, 2, 5))
    if am is not None:
        c.call(am.cutout, c.data)
        c.call(am.multiply, c.data)
        _roundtrips(c, am)
    ap = c.call(CircularAperture, c.plain(c.xy, 'positions'), 4.0)
    if ap is not None:
        st = c.call(ApertureStats, c.data, ap, error=c.error, mask=c.mask)
        if st is not None:
            _bag(c, st, 'stats_obj')
            c.call(getattr, st, 'sum')
            _roundtrips(c, st)
            c.call(st.to_table)
    ci = c.call(CutoutImage, c.data, (float(y), float(x)), (9, 9))
    if ci is not None:
        _bag(c, ci, 'cutout_obj')
        _roundtrips(c, ci)
    for o in (c.call(DAOStarFinder, c.q(_thr(c)), c.fwhm), c.call(SourceGrouper, 4.0), c.call(MedianBackground),
              c.call(LocalBackground, 4, 8), c.call(SourceFinder, 5, progress_bar=False),
              c.call(ImageDepth, 3.0, napers=10, niters=1), c.call(BoundingBox, 1, 5, 2, 8)):
        _roundtrips(c, o)
    ddir = os.path.join(os.path.dirname(photutils.__file__), 'psf', 'tests', 'data')
    files = sorted(_g.glob(os.path.join(ddir, 'STDPSF_*.fits')))
    if files and rng.random() < 0.5:
        g = c.call(STDPSFGrid, files[int(rng.integers(0, len(files)))])
        if g is not None:
            _bag(c, g, 'stdpsfgrid_obj')
            c.call(g.plot_grid, ax=_ax(), peak_norm=bool(rng.integers(0, 2)), deltas=bool(rng.integers(0, 2)))
            _roundtrips(c, g)


@entry('display_isophote_epsf', slow=True)
def e_display_iso_epsf(c):
    from photutils.isophote import Ellipse, EllipseGeometry, EllipseSample
    g, (x0, y0, eps, pa) = _galaxy(c)
    geom = c.call(EllipseGeometry, x0, y0, 8.0, eps, pa)
    ell = c.call(Ellipse, g, geom)
    if geom is not None:
        _roundtrips(c, geom)
    if ell is not None:
        iso = c.call(ell.fit_isophote, 8.0, maxit=6)
        if iso is not None:
            _bag(c, iso, 'isophote_obj')
            _roundtrips(c, iso)
            c.call(iso.to_table)
        _roundtrips(c, ell)
    s = c.call(EllipseSample, g, 6.0, x0=x0, y0=y0, eps=eps, position_angle=pa)
    if s is not None:
        c.call(s.extract)
        _bag(c, s, 'sample_obj')
        _roundtrips(c, s)
    nd, stars = _stars(c)
    if stars is not None:
        c.own(stars, 'stars')
        _roundtrips(c, stars)
        for st in list(stars)[:1]:
            _roundtrips(c, st)
    m = _psf_model(c)
    _roundtrips(c, m)
