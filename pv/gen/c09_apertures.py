"""C09 family: pixel-aperture histories on a *pool* of related apertures.

The pool starts with one aperture (half of the time built from a caller-owned
float64 positions array) and grows by parent[i], parent[a:b], iteration and
copy(), created before and after reads.  Steps on a randomly chosen member:

* reads (bbox, area, shape, isscalar, len, to_mask / do_photometry /
  area_overlap with varying method arguments, repr, indexing, iteration, copy,
  parameter read-back, == fresh);
* plain re-assignment of every constructor parameter (positions scalar <->
  multi, r / a / b / theta / w / h, annulus radii), 15 % invalid ones that must
  raise and leave the object unchanged;
* augmented in-place updates `+=`, `-=`, `*=` of every parameter (for positions
  and theta this mutates the stored object in place and THEN calls the setter).

Two judgements at every read and, after every update, on every OTHER member too:
 (i)  the parameters the object REPORTS equal the harness record of what was
      assigned to that object (an update of one member must not move another);
 (ii) the value read equals the same read on a fresh aperture built from the
      parameters the object reports at that moment (no stale cache).
Document-silent operations are counted, not judged: item assignment on the array
returned by `.positions`, and the caller editing the array an aperture was built
from (the docs neither promise a copy nor a view); the member is retired
afterwards.
"""
from __future__ import annotations

import numpy as np

from pv import core
from pv.gen import c09_axes as AX
from pv.ref import c09_oracle as O

TYPES = {
    'circle': ['CircularAperture'],
    'ellipse': ['EllipticalAperture'],
    'rect': ['RectangularAperture'],
    'annulus': ['CircularAnnulus', 'EllipticalAnnulus', 'RectangularAnnulus'],
}
READS = ['bbox', 'area', 'shape', 'isscalar', 'len', 'to_mask', 'do_photometry', 'area_overlap',
         'repr', 'getitem', 'copy', 'params', 'iter', 'eq_fresh', 'to_sky', 'to_sky', 'to_sky_to_pixel']


def _positions(rng, n, multi=None):
    if multi is None:
        multi = rng.random() < 0.6
    if not multi:
        p = rng.uniform(-3, n + 3, 2)
        if rng.random() < 0.3:
            p = np.round(p * 2) / 2          # exact halves / integers
        return p
    k = int(rng.integers(1, 5))
    p = rng.uniform(-3, n + 3, (k, 2))
    if rng.random() < 0.3:
        p = np.round(p * 2) / 2
    return p


def _theta(rng):
    import astropy.units as u
    r = rng.random()
    t = float(rng.uniform(-3.5, 3.5))
    if r < 0.4:
        return t
    if r < 0.6:
        return np.rad2deg(t) * u.deg
    if r < 0.75:
        return t * u.rad
    if r < 0.87:
        return np.rad2deg(t) * 60.0 * u.arcmin          # non-base angular unit
    from astropy.coordinates import Angle
    return Angle(np.rad2deg(t), 'deg')


def _initial(rng, tname, n):
    s = lambda lo=0.6, hi=7.0: float(np.round(rng.uniform(lo, hi), 3))   # noqa: E731
    pos = _positions(rng, n)
    if tname == 'CircularAperture':
        return dict(positions=pos, r=s())
    if tname == 'EllipticalAperture':
        return dict(positions=pos, a=s(), b=s(), theta=_theta(rng))
    if tname == 'RectangularAperture':
        return dict(positions=pos, w=s(), h=s(), theta=_theta(rng))
    if tname == 'CircularAnnulus':
        r_in = s(0.5, 4)
        return dict(positions=pos, r_in=r_in, r_out=r_in + s(0.3, 4))
    if tname == 'EllipticalAnnulus':
        a_in, b_in = s(0.5, 4), s(0.5, 4)
        return dict(positions=pos, a_in=a_in, a_out=a_in + s(0.3, 4), b_out=b_in + s(0.3, 4), b_in=b_in,
                    theta=_theta(rng))
    w_in, h_in = s(0.5, 4), s(0.5, 4)
    return dict(positions=pos, w_in=w_in, w_out=w_in + s(0.3, 4), h_out=h_in + s(0.3, 4), h_in=h_in,
                theta=_theta(rng))


PAIRS = {'r_in': ('r_in', 'r_out'), 'r_out': ('r_in', 'r_out'), 'a_in': ('a_in', 'a_out'),
         'a_out': ('a_in', 'a_out'), 'b_in': ('b_in', 'b_out'), 'b_out': ('b_in', 'b_out'),
         'w_in': ('w_in', 'w_out'), 'w_out': ('w_in', 'w_out'), 'h_in': ('h_in', 'h_out'),
         'h_out': ('h_in', 'h_out')}


def _new_value(rng, model, name, n):
    """A valid new value for parameter `name` given the current record."""
    if name == 'positions':
        return _positions(rng, n, multi=(rng.random() < 0.5))
    if name == 'theta':
        return _theta(rng)
    v = float(np.round(rng.uniform(0.5, 8.0), 3))
    if name in PAIRS:
        lo, hi = PAIRS[name]
        if name == lo:       # inner must stay below outer
            v = float(np.round(rng.uniform(0.2, 0.95) * model[hi], 3))
            if not 0 < v < model[hi]:
                v = model[hi] / 2
        else:
            v = float(np.round(model[lo] + rng.uniform(0.2, 4.0), 3))
    return v


def _invalid_value(rng, name):
    import astropy.units as u
    if name == 'positions':
        return [(1.0, np.nan), np.ones((2, 3)), [1.0, 2.0] * u.m][int(rng.integers(0, 3))]
    if name == 'theta':
        return [np.array([0.1, 0.2]), 3.0 * u.m][int(rng.integers(0, 2))]
    return [0.0, -1.5, np.array([1.0, 2.0])][int(rng.integers(0, 3))]


def _make(tname, model):
    import copy

    import photutils.aperture as pa
    return getattr(pa, tname)(**{k: copy.deepcopy(v) for k, v in model.items()})


def _read(ap, what, arg):
    if what in ('bbox', 'area', 'shape', 'isscalar'):
        return getattr(ap, what)
    if what == 'len':
        return len(ap)
    if what == 'to_mask':
        return ap.to_mask(method=arg['method'], subpixels=arg['subpixels'])
    if what == 'do_photometry':
        return ap.do_photometry(arg['data'].copy(), error=None if arg['error'] is None else arg['error'].copy(),
                                mask=None if arg['mask'] is None else arg['mask'].copy(),
                                method=arg['method'], subpixels=arg['subpixels'])
    if what == 'area_overlap':
        return ap.area_overlap(arg['data'].copy(), mask=None if arg['mask'] is None else arg['mask'].copy(),
                               method=arg['method'], subpixels=arg['subpixels'])
    if what == 'repr':
        return repr(ap) + '\n' + str(ap)
    if what == 'getitem':
        return ap[arg['index']]
    if what == 'to_sky':
        return ap.to_sky(arg['wcs'])
    if what == 'to_sky_to_pixel':
        return ap.to_sky(arg['wcs']).to_pixel(arg['wcs'])
    if what == 'iter':
        return list(ap)
    if what == 'copy':
        return ap.copy()
    if what == 'params':
        return {p: getattr(ap, p) for p in ap._params}
    raise RuntimeError(what)


AUG_OPS = ['+=', '-=', '*=']


class _Slot:
    def __init__(self, obj, model, origin):
        self.obj, self.model, self.origin = obj, model, origin
        self.alive = True
        self.last = 'none'          # last update applied to THIS member
        self.tgroup = 0             # members created by indexing/iteration receive the parent's theta object
        self.theta_dirty = False    # a member of the same theta group was updated in place since the last
        #                             update of this member (mechanism key only)


def _reported(ap):
    import copy
    return {p: copy.deepcopy(getattr(ap, p)) for p in ap._params}


def _theta_q(v):
    import astropy.units as u
    return v if isinstance(v, u.Quantity) else v * u.rad


def _aug_value(rng, model, name, op):
    """(operand, expected new value) for `obj.<name> <op> operand`, or None if no valid choice."""
    import astropy.units as u
    if name == 'positions':
        cur = np.asarray(model['positions'], dtype=float)
        if op == '*=':
            val = float(np.round(rng.uniform(0.8, 1.3), 2))
            return val, cur * val
        val = np.round(rng.uniform(-4, 4, 2), 2) if rng.random() < 0.6 else np.round(rng.uniform(-4, 4, cur.shape), 2)
        if rng.random() < 0.3:
            val = np.round(val)                 # integer shifts
        return val, (cur + val if op == '+=' else cur - val)
    if name == 'theta':
        cur = _theta_q(model['theta'])
        if op == '*=':
            val = float(np.round(rng.uniform(0.5, 1.5), 2))
            return val, cur * val
        val = float(np.round(rng.uniform(0.05, 1.0), 3)) * (u.rad if rng.random() < 0.5 else u.deg)
        return val, (cur + val if op == '+=' else cur - val)
    cur = float(model[name])
    if op == '*=':
        val = float(np.round(rng.uniform(0.6, 1.5), 2))
        new = cur * val
    else:
        val = float(np.round(rng.uniform(0.1, 2.0), 2))
        new = cur + val if op == '+=' else cur - val
    if not new > 0:
        return None
    if name in PAIRS:
        lo, hi = PAIRS[name]
        trial = dict(model)
        trial[name] = new
        if not trial[lo] < trial[hi]:
            return None
    return val, new


def _apply_aug(obj, name, op, val):
    # the real augmented-assignment statement (get, in-place operator, set)
    if op == '+=':
        exec(f'obj.{name} += val', {'obj': obj, 'val': val})
    elif op == '-=':
        exec(f'obj.{name} -= val', {'obj': obj, 'val': val})
    else:
        exec(f'obj.{name} *= val', {'obj': obj, 'val': val})


def run(case, group):
    import copy

    import photutils.aperture as pa
    rng = case.rng
    names = TYPES[group]
    tname = names[int(rng.integers(0, len(names)))]
    cls = getattr(pa, tname)
    n = int(rng.integers(12, 30))
    import astropy.units as u
    mag = AX.scale(case, 'magnitude_aperture_data')
    lay = AX.layout(case, 'layout_aperture_data')
    shp = (n, n + int(rng.integers(0, 5))) if rng.random() < 0.7 else (int(rng.integers(5, 12)), int(rng.integers(40, 70)))
    data = rng.normal(5, 1, shp) * mag
    error = np.abs(rng.normal(1, 0.2, data.shape)) * mag if rng.random() < 0.5 else None
    mask = AX.mask_kind(case, 'aperture')(data.shape, 0.1)
    dk = AX.dtype_kind(case, 'aperture_data', extra=('bool',))
    data = dk(data, mag)
    if dk.kind in ('float32', 'float16') and error is not None:
        error = error.astype(np.float32)
    from pv.gen.c09_skyaper import make_wcs
    wkinds = ['north_up', 'rotated', 'anisotropic', 'flipped']
    wk = [wkinds[int(rng.integers(0, 4))], wkinds[int(rng.integers(0, 4))]]
    wcss = [make_wcs(rng, shp, k) for k in wk]
    data, error, mask = lay(data), lay(error), lay(mask)
    if rng.random() < 0.15:
        un = [u.Jy, u.mJy][int(rng.integers(0, 2))]
        data = data * un
        error = None if error is None else error * un
        case.note('axis:unit_aperture_data:' + str(un))
    # call forms of the parameters (the record always holds the value the form denotes)
    sform = ['float', 'float', 'np_float64', 'int', 'np_int'][int(rng.integers(0, 5))]
    pform = ['array', 'array', 'list', 'tuple', 'int_array'][int(rng.integers(0, 5))]
    case.note('axis:aperture_scalar_form:' + sform)
    case.note('axis:aperture_positions_form:' + pform)

    def passed(name, v, record):
        """(value in the drawn call form, value to record) for one parameter."""
        if name == 'theta':
            return copy.deepcopy(v), _theta_q(v)
        if name == 'positions':
            a = np.asarray(v, dtype=float)
            if pform == 'int_array':
                a = np.round(a)
                return a.astype(np.int64), a
            if pform == 'list':
                return a.tolist(), a
            if pform == 'tuple':
                return (tuple(map(tuple, a.tolist())) if a.ndim == 2 else tuple(a.tolist())), a
            return a.copy(), a
        v = float(v)
        if sform in ('int', 'np_int'):
            vi = float(max(1, round(v)))
            trial = dict(record, **{name: vi})
            if name not in PAIRS or trial[PAIRS[name][0]] < trial[PAIRS[name][1]]:
                return (int(vi) if sform == 'int' else np.int64(vi)), vi
        if sform == 'np_float64':
            return np.float64(v), v
        return v, v
    model0 = _initial(rng, tname, n)
    pnames = list(model0.keys())

    # root: half of the time from a caller-owned float64 array (kept by the harness)
    if rng.random() < 0.08:          # degenerate: far from the origin, entirely off the image
        model0['positions'] = np.asarray(model0['positions'], dtype=float) + float(rng.choice([1.0e5, -4.0e3]))
        case.note('axis:degenerate_aperture:entirely_off_image')
    caller_arr = None
    kw, rec = {}, {}
    for k in list(model0.keys()):          # outer radii first so that integer forms can be validated
        rec[k] = float(model0[k]) if k not in ('positions', 'theta') else model0[k]
    for k in sorted(model0.keys(), key=lambda q: (q.endswith('_in'), q)):
        kw[k], rec[k] = passed(k, model0[k], rec)
    # one-sided edges / exact (half-)integers: the first position near exactly one border or corner
    ex, ey, _edge = AX.edge_position(case, 'aperture', shp, margin=4.0)
    p0 = np.array(rec['positions'], dtype=float)
    if p0.ndim == 1:
        p0 = np.array([ex, ey])
    else:
        p0[0] = (ex, ey)
    kw['positions'], rec['positions'] = passed('positions', p0, rec)
    prov = ['constructor', 'constructor', 'constructor', 'caller_array', 'caller_array', 'via_to_sky_to_pixel',
            'via_index_of_larger'][int(rng.integers(0, 7))]
    case.note('axis2_provenance_aperture:' + prov)
    if prov == 'caller_array':
        caller_arr = np.array(rec['positions'], dtype=np.float64)
        kw['positions'] = caller_arr
    root = cls(**kw)
    if prov == 'via_to_sky_to_pixel':
        # an aperture with a history: obtained through the WCS round trip; its record is what it reports
        root = root.to_sky(wcss[0]).to_pixel(wcss[0])
        rec = _reported(root)
    elif prov == 'via_index_of_larger' and np.ndim(rec['positions']) == 2:
        big = dict(kw)
        big['positions'] = np.vstack([np.asarray(rec['positions'], dtype=float), [[3.0, 4.0], [7.5, 2.5]]])
        parent = cls(**big)
        parent.bbox                                  # the parent was used before
        root = parent[0:len(rec['positions'])]
    model0 = rec
    pool = [_Slot(root, model0, 'root')]
    tgroups = [0]
    log = []
    nupd = nreads_after = 0

    def judge(slot, what, arg, other_updated):
        """(i) reported parameters vs record, (ii) the read vs a fresh aperture from the reported parameters."""
        ap = slot.obj
        rep = _reported(ap)
        mech = {'family': 'aperture', 'type': tname, 'attr': what, 'after': slot.last, 'object': slot.origin,
                'other_member_updated': bool(other_updated), 'scalar': np.ndim(rep['positions']) == 1,
                'shared_theta_moved': bool(slot.theta_dirty)}
        for pn in pnames:
            ok, _, why = O.deep_same(O.canon(rep[pn]), O.canon(slot.model[pn]))
            case.check(ok, 'aperture_params_vs_record', dict(mech, param=pn), why=why)
            if not ok and pn == 'theta' and slot.theta_dirty:
                slot.model['theta'] = copy.deepcopy(rep['theta'])     # follow the object to keep judging the rest
        fresh = cls(**copy.deepcopy(rep))
        if what == 'eq_fresh':
            case.check(bool(ap == fresh) and not bool(ap != fresh), 'aperture_eq_fresh', mech)
            return
        o_live = O.request(lambda: _read(ap, what, arg), expected=(TypeError,))
        o_fresh = O.request(lambda: _read(fresh, what, arg), expected=(TypeError,))
        O.compare(case, o_live, o_fresh, 'aperture_read_vs_fresh', mech, devname='aperture:' + what)
        case.note('aperture_reads')

    def sweep(updated):
        """after an update of one member: every other member must be untouched and un-stale."""
        for sl in pool:
            if sl.alive and sl is not updated:
                what = ['bbox', 'to_mask', 'do_photometry'][int(rng.integers(0, 3))]
                judge(sl, what, {'method': 'exact', 'subpixels': 3, 'data': data, 'error': error, 'mask': mask}, True)
                case.note('aperture_sweep_reads')

    nsteps = int(rng.integers(8, 20))
    for _ in range(nsteps):
        alive = [sl for sl in pool if sl.alive]
        if not alive:
            break
        slot = alive[int(rng.integers(0, len(alive)))]
        ap, model = slot.obj, slot.model
        r = rng.random()
        if r < 0.18:
            # ---- plain assignment ------------------------------------------------
            name = pnames[int(rng.integers(0, len(pnames)))]
            if rng.random() < 0.15:
                bad = _invalid_value(rng, name)
                out = O.request(lambda: setattr(ap, name, bad), expected=(ValueError, TypeError))
                log.append(['set_invalid', slot.origin, name])
                case.check((not out.ok) and out.etype in ('ValueError', 'TypeError'),
                           'aperture_invalid_assignment_rejected',
                           {'family': 'aperture', 'type': tname, 'op': 'set_invalid', 'param': name}, got=out.etype)
                continue
            val = _new_value(rng, model, name, n)
            pv_, rv_ = passed(name, val, model)
            setattr(ap, name, pv_)
            model[name] = rv_
            slot.last = 'set:' + name
            slot.theta_dirty = False
            if name == 'theta':
                tgroups[0] += 1
                slot.tgroup = tgroups[0]
            nupd += 1
            log.append(['set', slot.origin, name])
            sweep(slot)
        elif r < 0.40:
            # ---- augmented in-place update -----------------------------------------
            name = pnames[int(rng.integers(0, len(pnames)))]
            op = AUG_OPS[int(rng.integers(0, 3))]
            got = _aug_value(rng, model, name, op)
            if got is None:
                continue
            val, new = got
            _apply_aug(ap, name, op, copy.deepcopy(val))
            model[name] = new
            slot.last = f'aug:{name}{op}'
            slot.theta_dirty = False
            if name == 'theta':
                for other in pool:
                    if other is not slot and other.alive and other.tgroup == slot.tgroup:
                        other.theta_dirty = True
            nupd += 1
            log.append(['aug', slot.origin, name, op])
            case.note('aperture_augmented_updates')
            sweep(slot)
        elif r < 0.50 and len(pool) < 5:
            # ---- new related member --------------------------------------------------
            rep_pos = np.asarray(model['positions'], dtype=float)
            kinds = ['copy']
            if rep_pos.ndim == 2:
                kinds += ['index', 'slice', 'iter', 'index', 'slice']
            kind = kinds[int(rng.integers(0, len(kinds)))]
            if kind == 'copy':
                child, cpos = ap.copy(), rep_pos.copy()
            elif kind == 'index':
                i = int(rng.integers(0, len(rep_pos)))
                child, cpos = ap[i], rep_pos[i].copy()
            elif kind == 'slice':
                i0 = int(rng.integers(0, len(rep_pos)))
                i1 = int(rng.integers(i0 + 1, len(rep_pos) + 1))
                child, cpos = ap[i0:i1], rep_pos[i0:i1].copy()
            else:
                items = list(ap)
                i = int(rng.integers(0, len(items)))
                child, cpos = items[i], rep_pos[i].copy()
            cm = {k: copy.deepcopy(v) for k, v in model.items()}
            cm['positions'] = cpos
            cs = _Slot(child, cm, kind)
            if kind == 'copy':
                tgroups[0] += 1
                cs.tgroup = tgroups[0]
            else:
                cs.tgroup = slot.tgroup
            pool.append(cs)
            log.append(['spawn', slot.origin, kind])
            case.note('aperture_members_spawned')
        elif r < 0.53:
            # ---- item assignment on the array returned by .positions (docs silent: count only) ----
            before = O.request(lambda: _read(ap, 'bbox', None))
            arr = ap.positions
            if arr.ndim == 1:
                arr[0] += 7.0
            else:
                arr[0, 0] += 7.0
            rep = _reported(ap)
            fresh = cls(**copy.deepcopy(rep))
            after = O.request(lambda: _read(ap, 'bbox', None))
            exp = O.request(lambda: _read(fresh, 'bbox', None))
            same_as_fresh = O.deep_same(O.canon(after.value), O.canon(exp.value))[0] if after.ok and exp.ok else False
            case.note('aperture_item_assignment:' + ('bbox_follows' if same_as_fresh else 'bbox_stale'))
            _ = before
            slot.alive = False
            log.append(['item_assign', slot.origin])
            sweep(slot)
        elif r < 0.57 and caller_arr is not None and pool[0].alive:
            # ---- the caller edits the array the root was built from (docs silent: count only) ----
            caller_arr += 5.0
            rootslot = pool[0]
            moved = not O.deep_same(O.canon(_reported(rootslot.obj)['positions']),
                                    O.canon(rootslot.model['positions']))[0]
            case.note('aperture_caller_array_edit:' + ('aperture_moved' if moved else 'aperture_unaffected'))
            if moved:
                rootslot.alive = False
            caller_arr = None
            log.append(['caller_edit'])
            sweep(rootslot)
        else:
            # ---- read ------------------------------------------------------------------
            what = READS[int(rng.integers(0, len(READS)))]
            arg = {'method': str(rng.choice(['exact', 'center', 'subpixel'])), 'subpixels': int(rng.integers(1, 6)),
                   'data': data, 'error': error, 'mask': mask, 'wcs': wcss[int(rng.integers(0, 2))]}
            if what == 'getitem':
                npos = np.atleast_2d(model['positions']).shape[0]
                ri = rng.random()
                if ri < 0.45:
                    arg['index'] = int(rng.integers(0, npos))
                elif ri < 0.7:
                    arg['index'] = slice(0, int(rng.integers(1, npos + 1)))
                else:          # set-like index: duplicates, descending order, list / tuple-free ndarray of several dtypes
                    idx = rng.integers(0, npos, int(rng.integers(1, 5)))
                    idx = np.sort(idx)[::-1] if rng.random() < 0.5 else idx
                    form = int(rng.integers(0, 3))
                    arg['index'] = [idx.tolist(), idx.astype(np.int32), idx.astype(np.uint8)][form]
                    case.note('axis2_setlike_aperture_index:' + ['list', 'int32', 'uint8'][form])
            judge(slot, what, arg, False)
            log.append(['read', slot.origin, what])
            if nupd:
                nreads_after += 1
    case.params = dict(type=tname, n=n, steps=log, has_error=error is not None, has_mask=mask is not None,
                       root_from_caller_array=caller_arr is not None or any(l[0] == 'caller_edit' for l in log))
    case.digest = core.arr_digest(data, error, mask) + core.digest([tname, log, [
        {k: np.asarray(getattr(v, 'value', v)).tolist() for k, v in sl.model.items()} for sl in pool]])
    case.nontrivial = nreads_after >= 1
