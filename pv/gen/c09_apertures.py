"""C09 family: pixel-aperture histories.

A live aperture receives reads (bbox, area, shape, isscalar, len, to_mask,
do_photometry, area_overlap, repr, indexing, copy, parameter read-back)
interleaved with re-assignments of every constructor parameter (positions scalar
<-> multi, r / a / b / theta / w / h, annulus radii).  The harness keeps its own
record of the currently assigned parameters; after every step the read is
compared exactly with the same read on a fresh aperture constructed from that
record.  Invalid assignments (documented ValueError/TypeError) must leave the
object unchanged.
"""
from __future__ import annotations

import numpy as np

from pv import core
from pv.ref import c09_oracle as O

TYPES = {
    'circle': ['CircularAperture'],
    'ellipse': ['EllipticalAperture'],
    'rect': ['RectangularAperture'],
    'annulus': ['CircularAnnulus', 'EllipticalAnnulus', 'RectangularAnnulus'],
}
READS = ['bbox', 'area', 'shape', 'isscalar', 'len', 'to_mask', 'do_photometry', 'area_overlap',
         'repr', 'getitem', 'copy', 'params', 'iter', 'eq_fresh']


def _positions(rng, n, multi=None):
    if multi is None:
        multi = rng.random() < 0.6
    if not multi:
        p = rng.uniform(-3, n + 3, 2)
        if rng.random() < 0.3:
            p = np.round(p * 2) / 2          # exact halves / integers
        return p
    k = int(rng.integers(1, 5))
    p = rng.uniform(-3, n + 3, (k, 2))
    if rng.random() < 0.3:
        p = np.round(p * 2) / 2
    return p


def _theta(rng):
    import astropy.units as u
    r = rng.random()
    t = float(rng.uniform(-3.5, 3.5))
    if r < 0.5:
        return t
    if r < 0.8:
        return np.rad2deg(t) * u.deg
    return t * u.rad


def _initial(rng, tname, n):
    s = lambda lo=0.6, hi=7.0: float(np.round(rng.uniform(lo, hi), 3))   # noqa: E731
    pos = _positions(rng, n)
    if tname == 'CircularAperture':
        return dict(positions=pos, r=s())
    if tname == 'EllipticalAperture':
        return dict(positions=pos, a=s(), b=s(), theta=_theta(rng))
    if tname == 'RectangularAperture':
        return dict(positions=pos, w=s(), h=s(), theta=_theta(rng))
    if tname == 'CircularAnnulus':
        r_in = s(0.5, 4)
        return dict(positions=pos, r_in=r_in, r_out=r_in + s(0.3, 4))
    if tname == 'EllipticalAnnulus':
        a_in, b_in = s(0.5, 4), s(0.5, 4)
        return dict(positions=pos, a_in=a_in, a_out=a_in + s(0.3, 4), b_out=b_in + s(0.3, 4), b_in=b_in,
                    theta=_theta(rng))
    w_in, h_in = s(0.5, 4), s(0.5, 4)
    return dict(positions=pos, w_in=w_in, w_out=w_in + s(0.3, 4), h_out=h_in + s(0.3, 4), h_in=h_in,
                theta=_theta(rng))


PAIRS = {'r_in': ('r_in', 'r_out'), 'r_out': ('r_in', 'r_out'), 'a_in': ('a_in', 'a_out'),
         'a_out': ('a_in', 'a_out'), 'b_in': ('b_in', 'b_out'), 'b_out': ('b_in', 'b_out'),
         'w_in': ('w_in', 'w_out'), 'w_out': ('w_in', 'w_out'), 'h_in': ('h_in', 'h_out'),
         'h_out': ('h_in', 'h_out')}


def _new_value(rng, model, name, n):
    """A valid new value for parameter `name` given the current record."""
    if name == 'positions':
        return _positions(rng, n, multi=(rng.random() < 0.5))
    if name == 'theta':
        return _theta(rng)
    v = float(np.round(rng.uniform(0.5, 8.0), 3))
    if name in PAIRS:
        lo, hi = PAIRS[name]
        if name == lo:       # inner must stay below outer
            v = float(np.round(rng.uniform(0.2, 0.95) * model[hi], 3))
            if not 0 < v < model[hi]:
                v = model[hi] / 2
        else:
            v = float(np.round(model[lo] + rng.uniform(0.2, 4.0), 3))
    return v


def _invalid_value(rng, name):
    import astropy.units as u
    if name == 'positions':
        return [(1.0, np.nan), np.ones((2, 3)), [1.0, 2.0] * u.m][int(rng.integers(0, 3))]
    if name == 'theta':
        return [np.array([0.1, 0.2]), 3.0 * u.m][int(rng.integers(0, 2))]
    return [0.0, -1.5, np.array([1.0, 2.0])][int(rng.integers(0, 3))]


def _make(tname, model):
    import copy

    import photutils.aperture as pa
    return getattr(pa, tname)(**{k: copy.deepcopy(v) for k, v in model.items()})


def _read(ap, what, arg):
    if what in ('bbox', 'area', 'shape', 'isscalar'):
        return getattr(ap, what)
    if what == 'len':
        return len(ap)
    if what == 'to_mask':
        return ap.to_mask(method=arg['method'], subpixels=arg['subpixels'])
    if what == 'do_photometry':
        return ap.do_photometry(arg['data'].copy(), error=None if arg['error'] is None else arg['error'].copy(),
                                mask=None if arg['mask'] is None else arg['mask'].copy(),
                                method=arg['method'], subpixels=arg['subpixels'])
    if what == 'area_overlap':
        return ap.area_overlap(arg['data'].copy(), mask=None if arg['mask'] is None else arg['mask'].copy(),
                               method=arg['method'], subpixels=arg['subpixels'])
    if what == 'repr':
        return repr(ap) + '\n' + str(ap)
    if what == 'getitem':
        return ap[arg['index']]
    if what == 'iter':
        return list(ap)
    if what == 'copy':
        return ap.copy()
    if what == 'params':
        return {p: getattr(ap, p) for p in ap._params}
    raise RuntimeError(what)


def run(case, group):
    rng = case.rng
    names = TYPES[group]
    tname = names[int(rng.integers(0, len(names)))]
    n = int(rng.integers(12, 30))
    data = rng.normal(5, 1, (n, n + int(rng.integers(0, 5))))
    error = np.abs(rng.normal(1, 0.2, data.shape)) if rng.random() < 0.5 else None
    mask = (rng.random(data.shape) < 0.1) if rng.random() < 0.4 else None
    model = _initial(rng, tname, n)
    pnames = list(model.keys())

    nsteps = int(rng.integers(6, 16))
    live = _make(tname, model)
    log = []
    nassign = nreads_after = 0
    last_set = None
    for _ in range(nsteps):
        r = rng.random()
        if r < 0.35:
            # ---- assignment ------------------------------------------------------
            name = pnames[int(rng.integers(0, len(pnames)))]
            if rng.random() < 0.15:
                bad = _invalid_value(rng, name)
                out = O.request(lambda: setattr(live, name, bad), expected=(ValueError, TypeError))
                log.append(['set_invalid', name])
                mech = {'family': 'aperture', 'type': tname, 'op': 'set_invalid', 'param': name}
                case.check((not out.ok) and out.etype in ('ValueError', 'TypeError'),
                           'aperture_invalid_assignment_rejected', mech, got=out.etype)
                # state must be untouched: judged by the reads that follow
                continue
            val = _new_value(rng, model, name, n)
            import copy
            setattr(live, name, copy.deepcopy(val))
            model[name] = val
            last_set = name
            nassign += 1
            log.append(['set', name])
            continue
        # ---- read ------------------------------------------------------------------
        what = READS[int(rng.integers(0, len(READS)))]
        arg = {'method': str(rng.choice(['exact', 'center', 'subpixel'])), 'subpixels': int(rng.integers(1, 6)),
               'data': data, 'error': error, 'mask': mask}
        if what in ('getitem',):
            npos = np.atleast_2d(model['positions']).shape[0]
            arg['index'] = int(rng.integers(0, npos)) if rng.random() < 0.6 else slice(0, int(rng.integers(1, npos + 1)))
        fresh = _make(tname, model)
        if what == 'eq_fresh':
            # the live aperture must compare equal to an aperture built from the current parameters
            mech = {'family': 'aperture', 'type': tname, 'attr': '__eq__', 'after_set': last_set,
                    'scalar': np.ndim(model['positions']) == 1}
            case.check(bool(live == fresh) and not bool(live != fresh), 'aperture_eq_fresh', mech)
            log.append(['read', what])
            continue
        o_live = O.request(lambda: _read(live, what, arg), expected=(TypeError,))
        o_fresh = O.request(lambda: _read(fresh, what, arg), expected=(TypeError,))
        mech = {'family': 'aperture', 'type': tname, 'attr': what, 'after_set': last_set,
                'scalar': np.ndim(model['positions']) == 1}
        O.compare(case, o_live, o_fresh, 'aperture_read_vs_fresh', mech, devname='aperture:' + what)
        log.append(['read', what])
        case.note('aperture_reads')
        if nassign:
            nreads_after += 1
    case.params = dict(type=tname, n=n, steps=log, has_error=error is not None, has_mask=mask is not None)
    case.digest = core.arr_digest(data, error, mask) + core.digest([tname, log, {k: np.asarray(getattr(v, 'value', v)).tolist()
                                                                               for k, v in model.items()}])
    case.nontrivial = nreads_after >= 1
