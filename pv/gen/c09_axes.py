"""C09: generic input axes drawn independently of the generator class.

Every helper draws its *choice* once from case.rng (and counts it in the evidence
notes as `axis:<name>:<choice>`) and returns a deterministic function, so that the
live object and every fresh twin receive byte-identical inputs in the same form.
About half of the draws are the plain form.  The fresh-object oracle stays exact:
both sides always get the same form, so no tolerance depends on these axes.
"""
from __future__ import annotations

import numpy as np


def _note(case, axis, choice):
    case.note(f'axis:{axis}:{choice}')


def scale(case, name='magnitude', p_plain=0.5):
    """Overall data magnitude: 1, a power of two 2**-60..2**40 or a decimal 1e-20..1e10."""
    rng = case.rng
    r = rng.random()
    if r < p_plain:
        _note(case, name, 'one')
        return 1.0
    if r < p_plain + (1 - p_plain) / 2:
        k = int(rng.integers(-60, 41))
        _note(case, name, 'pow2_small' if k < -10 else ('pow2_large' if k > 10 else 'pow2_mid'))
        return float(2.0 ** k)
    k = int(rng.integers(-20, 11))
    _note(case, name, 'dec_small' if k < -4 else ('dec_large' if k > 4 else 'dec_mid'))
    return float(10.0 ** k)


LAYOUTS = ['c', 'c', 'c', 'c', 'fortran', 'strided', 'offset', 'transposed', 'bigendian', 'readonly']


def layout(case, name='layout', allow=None):
    """Container/memory layout of a 2-D (or 3-D) array; values are unchanged."""
    rng = case.rng
    choices = [c for c in LAYOUTS if allow is None or c in allow or c == 'c']
    kind = choices[int(rng.integers(0, len(choices)))]
    _note(case, name, kind)

    def f(a):
        if a is None:
            return None
        a = np.array(a, copy=True)
        if kind == 'c':
            return np.ascontiguousarray(a)
        if kind == 'fortran':
            return np.asfortranarray(a)
        if kind == 'strided':
            big = np.zeros(tuple(2 * s for s in a.shape), dtype=a.dtype)
            sl = tuple(slice(None, None, 2) for _ in a.shape)
            big[sl] = a
            return big[sl]
        if kind == 'offset':
            big = np.zeros(tuple(s + 3 for s in a.shape), dtype=a.dtype)
            sl = tuple(slice(2, 2 + s) for s in a.shape)
            big[sl] = a
            return big[sl]
        if kind == 'transposed':
            return np.ascontiguousarray(a.T).T
        if kind == 'bigendian':
            if a.dtype.kind in 'fiu' and a.dtype.itemsize > 1:
                return a.astype(a.dtype.newbyteorder('>'))
            return a
        if kind == 'readonly':
            a = np.ascontiguousarray(a)
            a.flags.writeable = False
            return a
        raise RuntimeError(kind)
    f.kind = kind
    return f


def scalar_form(case, name='scalar_form', integer_ok=False):
    """A scalar argument as Python float, numpy float64 scalar, 0-d array (or Python int / numpy int)."""
    rng = case.rng
    kinds = ['float', 'float', 'float', 'np_float64', 'zero_d']
    if integer_ok:
        kinds += ['int', 'np_int']
    kind = kinds[int(rng.integers(0, len(kinds)))]
    _note(case, name, kind)

    def f(v):
        if kind == 'float':
            return float(v)
        if kind == 'np_float64':
            return np.float64(v)
        if kind == 'zero_d':
            return np.array(float(v))
        if kind == 'int':
            return int(round(float(v)))
        return np.int64(round(float(v)))
    f.kind = kind
    return f


def seq_form(case, name='seq_form'):
    """An array-like argument as ndarray, list or tuple (nested for 2-D)."""
    rng = case.rng
    kind = ['array', 'array', 'list', 'tuple'][int(rng.integers(0, 4))]
    _note(case, name, kind)

    def f(a):
        a = np.asarray(a)
        if kind == 'array':
            return a.copy()
        if kind == 'list':
            return a.tolist()
        return tuple(map(tuple, a.tolist())) if a.ndim == 2 else tuple(a.tolist())
    f.kind = kind
    return f


def image_shape(case, lo, hi, name='shape'):
    """Image shape: square-ish, non-square or strongly elongated."""
    rng = case.rng
    r = rng.random()
    if r < 0.5:
        kind, s = 'squareish', (int(rng.integers(lo, hi)), int(rng.integers(lo, hi)))
    elif r < 0.8:
        a, b = int(rng.integers(lo, hi)), int(rng.integers(hi, 2 * hi))
        kind, s = 'nonsquare', ((a, b) if rng.random() < 0.5 else (b, a))
    else:
        a, b = int(rng.integers(max(4, lo // 3), max(6, lo // 2) + 1)), int(rng.integers(2 * hi, 3 * hi))
        kind, s = 'elongated', ((a, b) if rng.random() < 0.5 else (b, a))
    _note(case, name, kind)
    return s


def angle_form(case, name='angle_form'):
    """An angle given as float radians, Quantity rad/deg/arcmin or an astropy Angle."""
    rng = case.rng
    kind = ['float', 'float', 'rad', 'deg', 'arcmin', 'Angle'][int(rng.integers(0, 6))]
    _note(case, name, kind)

    def f(t_rad):
        import astropy.units as u
        from astropy.coordinates import Angle
        if kind == 'float':
            return float(t_rad)
        if kind == 'rad':
            return float(t_rad) * u.rad
        if kind == 'deg':
            return np.rad2deg(float(t_rad)) * u.deg
        if kind == 'arcmin':
            return np.rad2deg(float(t_rad)) * 60.0 * u.arcmin
        return Angle(np.rad2deg(float(t_rad)), 'deg')
    f.kind = kind
    return f


# ----------------------------------------------------------------------
# second list (tools/generic_axes2.txt); counters are `axis2_*`
# ----------------------------------------------------------------------
DTYPES2 = ['float32', 'float16', 'uint8', 'uint16', 'uint32_big', 'int16_limit', 'int64_big', 'uint64']


def dtype_kind(case, name, p_plain=0.55, allow=None, extra=()):
    """DTYPE KIND of an image-like input.  Returns f(a, mag): `a` is a float64 array whose natural scale is
    `mag`; the result holds numbers representable in the drawn dtype (both the live object and the fresh
    twins receive the same array, so the oracle stays exact)."""
    rng = case.rng
    kinds = [k for k in list(DTYPES2) + list(extra) if allow is None or k in allow]
    kind = 'float64' if (rng.random() < p_plain or not kinds) else kinds[int(rng.integers(0, len(kinds)))]
    case.note(f'axis2_dtype_{name}:{kind}')

    def f(a, mag=1.0):
        if a is None or kind == 'float64':
            return a
        b = np.asarray(a, dtype=float) / mag
        b = np.nan_to_num(b, nan=0.0, posinf=0.0, neginf=0.0)
        if kind == 'float32':
            return np.asarray(a).astype(np.float32)
        if kind == 'float16':
            return b.astype(np.float16)
        if kind == 'uint8':
            return np.clip(np.round(b), 0, 255).astype(np.uint8)
        if kind == 'uint16':
            return np.clip(np.round(b * 20), 0, 65535).astype(np.uint16)
        if kind == 'uint32_big':
            return (np.clip(np.round(b * 20), 0, 1e6) + 2 ** 31).astype(np.uint32)
        if kind == 'int16_limit':
            return np.clip(np.round(b * 60), -32768, 32767).astype(np.int16)
        if kind == 'int64_big':
            return (np.clip(np.round(b * 20), -1e6, 1e6) + 2 ** 53).astype(np.int64)
        if kind == 'uint64':
            return np.clip(np.round(b * 20), 0, 1e9).astype(np.uint64)
        if kind == 'bool':
            return b > np.median(b)
        raise RuntimeError(kind)
    f.kind = kind
    return f


def mask_kind(case, name):
    """SET-LIKE: a mask that is all False / all True / absent / random."""
    rng = case.rng
    kind = ['random', 'random', 'random', 'none', 'all_false', 'all_true'][int(rng.integers(0, 6))]
    case.note(f'axis2_mask_{name}:{kind}')

    def f(shape, frac=0.05):
        if kind == 'none':
            return None
        if kind == 'all_false':
            return np.zeros(shape, bool)
        if kind == 'all_true':
            return np.ones(shape, bool)
        return rng.random(shape) < frac
    f.kind = kind
    return f


EDGES = ['interior', 'interior', 'interior', 'left', 'right', 'bottom', 'top', 'corner_ll', 'corner_lr', 'corner_ul',
         'corner_ur']


def edge_position(case, name, shape, margin=8.0, reach=2.5):
    """ONE-SIDED EDGES / HALF-INTEGER: an (x, y) position in the interior or near / across exactly one border or
    corner, optionally snapped to exact integers / half-integers of even or odd k."""
    rng = case.rng
    ny, nx = shape
    edge = EDGES[int(rng.integers(0, len(EDGES)))]
    case.note(f'axis2_edge_{name}:{edge}')
    x = float(rng.uniform(min(margin, nx / 2), max(nx - 1 - margin, nx / 2)))
    y = float(rng.uniform(min(margin, ny / 2), max(ny - 1 - margin, ny / 2)))
    if edge in ('left', 'corner_ll', 'corner_ul'):
        x = float(rng.uniform(-reach, reach))
    if edge in ('right', 'corner_lr', 'corner_ur'):
        x = float(nx - 1 + rng.uniform(-reach, reach))
    if edge in ('bottom', 'corner_ll', 'corner_lr'):
        y = float(rng.uniform(-reach, reach))
    if edge in ('top', 'corner_ul', 'corner_ur'):
        y = float(ny - 1 + rng.uniform(-reach, reach))
    snap = ['none', 'none', 'integer', 'half'][int(rng.integers(0, 4))]
    if snap == 'integer':
        x, y = float(np.round(x)), float(np.round(y))
    elif snap == 'half':
        x, y = float(np.floor(x) + 0.5), float(np.floor(y) + 0.5)
    if snap != 'none':
        case.note(f'axis2_halfint_{name}:{snap}_{"even" if int(np.floor(x)) % 2 == 0 else "odd"}')
    return x, y, edge
