"""C09: generic input axes drawn independently of the generator class.

Every helper draws its *choice* once from case.rng (and counts it in the evidence
notes as `axis:<name>:<choice>`) and returns a deterministic function, so that the
live object and every fresh twin receive byte-identical inputs in the same form.
About half of the draws are the plain form.  The fresh-object oracle stays exact:
both sides always get the same form, so no tolerance depends on these axes.
"""
from __future__ import annotations

import numpy as np


def _note(case, axis, choice):
    case.note(f'axis:{axis}:{choice}')


def scale(case, name='magnitude', p_plain=0.5):
    """Overall data magnitude: 1, a power of two 2**-60..2**40 or a decimal 1e-20..1e10."""
    rng = case.rng
    r = rng.random()
    if r < p_plain:
        _note(case, name, 'one')
        return 1.0
    if r < p_plain + (1 - p_plain) / 2:
        k = int(rng.integers(-60, 41))
        _note(case, name, 'pow2_small' if k < -10 else ('pow2_large' if k > 10 else 'pow2_mid'))
        return float(2.0 ** k)
    k = int(rng.integers(-20, 11))
    _note(case, name, 'dec_small' if k < -4 else ('dec_large' if k > 4 else 'dec_mid'))
    return float(10.0 ** k)


LAYOUTS = ['c', 'c', 'c', 'c', 'fortran', 'strided', 'offset', 'transposed', 'bigendian', 'readonly']


def layout(case, name='layout', allow=None):
    """Container/memory layout of a 2-D (or 3-D) array; values are unchanged."""
    rng = case.rng
    choices = [c for c in LAYOUTS if allow is None or c in allow or c == 'c']
    kind = choices[int(rng.integers(0, len(choices)))]
    _note(case, name, kind)

    def f(a):
        if a is None:
            return None
        a = np.array(a, copy=True)
        if kind == 'c':
            return np.ascontiguousarray(a)
        if kind == 'fortran':
            return np.asfortranarray(a)
        if kind == 'strided':
            big = np.zeros(tuple(2 * s for s in a.shape), dtype=a.dtype)
            sl = tuple(slice(None, None, 2) for _ in a.shape)
            big[sl] = a
            return big[sl]
        if kind == 'offset':
            big = np.zeros(tuple(s + 3 for s in a.shape), dtype=a.dtype)
            sl = tuple(slice(2, 2 + s) for s in a.shape)
            big[sl] = a
            return big[sl]
        if kind == 'transposed':
            return np.ascontiguousarray(a.T).T
        if kind == 'bigendian':
            if a.dtype.kind in 'fiu' and a.dtype.itemsize > 1:
                return a.astype(a.dtype.newbyteorder('>'))
            return a
        if kind == 'readonly':
            a = np.ascontiguousarray(a)
            a.flags.writeable = False
            return a
        raise RuntimeError(kind)
    f.kind = kind
    return f


def scalar_form(case, name='scalar_form', integer_ok=False):
    """A scalar argument as Python float, numpy float64 scalar, 0-d array (or Python int / numpy int)."""
    rng = case.rng
    kinds = ['float', 'float', 'float', 'np_float64', 'zero_d']
    if integer_ok:
        kinds += ['int', 'np_int']
    kind = kinds[int(rng.integers(0, len(kinds)))]
    _note(case, name, kind)

    def f(v):
        if kind == 'float':
            return float(v)
        if kind == 'np_float64':
            return np.float64(v)
        if kind == 'zero_d':
            return np.array(float(v))
        if kind == 'int':
            return int(round(float(v)))
        return np.int64(round(float(v)))
    f.kind = kind
    return f


def seq_form(case, name='seq_form'):
    """An array-like argument as ndarray, list or tuple (nested for 2-D)."""
    rng = case.rng
    kind = ['array', 'array', 'list', 'tuple'][int(rng.integers(0, 4))]
    _note(case, name, kind)

    def f(a):
        a = np.asarray(a)
        if kind == 'array':
            return a.copy()
        if kind == 'list':
            return a.tolist()
        return tuple(map(tuple, a.tolist())) if a.ndim == 2 else tuple(a.tolist())
    f.kind = kind
    return f


def image_shape(case, lo, hi, name='shape'):
    """Image shape: square-ish, non-square or strongly elongated."""
    rng = case.rng
    r = rng.random()
    if r < 0.5:
        kind, s = 'squareish', (int(rng.integers(lo, hi)), int(rng.integers(lo, hi)))
    elif r < 0.8:
        a, b = int(rng.integers(lo, hi)), int(rng.integers(hi, 2 * hi))
        kind, s = 'nonsquare', ((a, b) if rng.random() < 0.5 else (b, a))
    else:
        a, b = int(rng.integers(max(4, lo // 3), max(6, lo // 2) + 1)), int(rng.integers(2 * hi, 3 * hi))
        kind, s = 'elongated', ((a, b) if rng.random() < 0.5 else (b, a))
    _note(case, name, kind)
    return s


def angle_form(case, name='angle_form'):
    """An angle given as float radians, Quantity rad/deg/arcmin or an astropy Angle."""
    rng = case.rng
    kind = ['float', 'float', 'rad', 'deg', 'arcmin', 'Angle'][int(rng.integers(0, 6))]
    _note(case, name, kind)

    def f(t_rad):
        import astropy.units as u
        from astropy.coordinates import Angle
        if kind == 'float':
            return float(t_rad)
        if kind == 'rad':
            return float(t_rad) * u.rad
        if kind == 'deg':
            return np.rad2deg(float(t_rad)) * u.deg
        if kind == 'arcmin':
            return np.rad2deg(float(t_rad)) * 60.0 * u.arcmin
        return Angle(np.rad2deg(float(t_rad)), 'deg')
    f.kind = kind
    return f
