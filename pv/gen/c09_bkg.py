"""C09 family: Background2D read-order histories.

One live Background2D, a random sequence of public attribute reads; every read
is compared (exactly) with the same single read on a brand-new Background2D
built from copies of the same constructor arguments.
"""
from __future__ import annotations

import numpy as np

from pv import core
from pv.gen import c09_axes as AX
from pv.ref import c09_oracle as O

ATTRS = ['background', 'background_rms', 'background_mesh', 'background_rms_mesh',
         'background_median', 'background_rms_median', 'npixels_mesh', 'npixels_map',
         'background_mesh_masked', 'background_rms_mesh_masked', 'mesh_nmasked', 'repr']
# attributes whose evaluation materialises the (cached) low-resolution meshes
NEEDS_MESH = {'background', 'background_mesh', 'background_median', 'background_mesh_masked'}
NEEDS_RMS = {'background_rms', 'background_rms_mesh', 'background_rms_median',
             'background_rms_mesh_masked'}


def _read(obj, attr):
    if attr == 'repr':
        return repr(obj) + '\n' + str(obj)
    return getattr(obj, attr)


def gen_config(case, thr_cls):
    rng = case.rng
    import astropy.units as u
    from astropy.stats import SigmaClip
    from photutils.background import (BkgIDWInterpolator, BkgZoomInterpolator, MeanBackground,
                                      MedianBackground, MADStdBackgroundRMS, SExtractorBackground,
                                      StdBackgroundRMS)
    ny, nx = AX.image_shape(case, 18, 49, 'shape_bkg')
    by = int(rng.integers(min(3, ny), min(ny, max(5, ny // 3)) + 1))
    bx = int(rng.integers(min(3, nx), min(nx, max(5, nx // 3)) + 1))
    degenerate = None
    r = rng.random()
    if r < 0.05:
        degenerate, by, bx = 'single_box', ny, nx
    elif r < 0.1:
        degenerate = 'constant_image'
    elif r < 0.14:
        degenerate = 'single_mesh_row'
        by = ny
    if degenerate:
        case.note('axis:degenerate_bkg:' + degenerate)
    mag = AX.scale(case, 'magnitude_bkg')
    lay_d, lay_m = AX.layout(case, 'layout_bkg_data'), AX.layout(case, 'layout_bkg_mask')
    box_form = int(rng.integers(0, 5))      # tuple, list, ndarray, numpy ints, scalar when square
    case.note('axis:box_size_form:' + ['tuple', 'list', 'ndarray', 'np_int_tuple', 'scalar_if_square'][box_form])
    yy, xx = np.mgrid[0:ny, 0:nx]
    grad = rng.normal(0, 0.3, 2)
    data = 10.0 + grad[0] * yy + grad[1] * xx + rng.normal(0, 1.0, (ny, nx))
    if degenerate == 'constant_image':
        data = np.full((ny, nx), 10.0)
    # a few bright sources so that the meshes are not flat
    for _ in range(int(rng.integers(0, 4)) if degenerate != 'constant_image' else 0):
        y0, x0 = rng.uniform(0, ny), rng.uniform(0, nx)
        data += rng.uniform(20, 200) * np.exp(-((yy - y0) ** 2 + (xx - x0) ** 2) / (2 * rng.uniform(1, 3) ** 2))
    flags = {}
    mask = cov = None
    if rng.random() < 0.5:
        mask = rng.random((ny, nx)) < rng.choice([0.02, 0.1, 0.3])
        flags['mask'] = True
    if rng.random() < 0.4:
        cov = np.zeros((ny, nx), bool)
        if rng.random() < 0.5:
            cov[:, :int(rng.integers(1, max(2, nx // 3)))] = True
        else:
            cov[int(rng.integers(ny // 2, ny)):, int(rng.integers(nx // 2, nx)):] = True
        flags['coverage_mask'] = True
    if rng.random() < 0.2:
        data[rng.random((ny, nx)) < 0.02] = np.nan
        flags['nan'] = True
    excl = float(rng.choice([10.0, 10.0, 30.0, 60.0, 90.0, 100.0]))
    flags['exclude_percentile'] = excl
    fs = [(3, 3), (3, 3), (1, 1), (3, 5), (5, 3), (5, 5)][int(rng.integers(0, 6))]
    interp = 'zoom' if rng.random() < 0.5 else 'idw'
    dk = AX.dtype_kind(case, 'bkg_data', p_plain=0.6)
    dtype = dk.kind
    mk = AX.mask_kind(case, 'bkg')
    if mk.kind in ('all_false',):
        mask = np.zeros((ny, nx), bool)
        flags['mask'] = 'all_false'
    fs_aniso = fs[0] != fs[1]
    case.note('axis2_anisotropy_bkg:' + ('box_' if by != bx else '') + ('filter' if fs_aniso else '') or 'none')
    unit = [u.Jy, u.mJy, u.electron / u.s][int(rng.integers(0, 3))] if rng.random() < 0.25 else None
    sc = int(rng.integers(0, 3))
    est = int(rng.integers(0, 3))
    rest = int(rng.integers(0, 2))
    fill = float(rng.choice([0.0, -1.0, np.nan])) * (mag if rng.random() < 0.5 else 1.0)

    data = data * mag

    def box():
        if box_form == 0:
            return (by, bx)
        if box_form == 1:
            return [by, bx]
        if box_form == 2:
            return np.array([by, bx])
        if box_form == 3:
            return (np.int64(by), np.int32(bx))
        return by if by == bx else (by, bx)

    def build(filter_threshold, filter_size=fs):
        d = lay_d(dk(data.copy(), mag))
        if unit is not None:
            d = d * unit
        from photutils.background import Background2D
        kw = dict(mask=lay_m(mask), coverage_mask=lay_m(cov),
                  fill_value=fill, exclude_percentile=excl, filter_size=filter_size,
                  filter_threshold=filter_threshold,
                  sigma_clip=[SigmaClip(sigma=3.0, maxiters=10), None, SigmaClip(sigma=2.5, maxiters=3)][sc],
                  bkg_estimator=[SExtractorBackground, MedianBackground, MeanBackground][est](sigma_clip=None),
                  bkgrms_estimator=[StdBackgroundRMS, MADStdBackgroundRMS][rest](sigma_clip=None),
                  interpolator=BkgZoomInterpolator() if interp == 'zoom' else
                  BkgIDWInterpolator(n_neighbors=int(rng_nn)))
        return Background2D(d, box(), **kw)

    rng_nn = int(rng.choice([3, 10]))
    params = dict(shape=[ny, nx], box=[by, bx], filter_size=list(fs), interp=interp, dtype=dtype,
                  unit=str(unit), sigma_clip=sc, est=est, rms_est=rest, thr=thr_cls, **flags)
    digest = core.arr_digest(data, mask, cov, np.array([by, bx, excl, fs[0], fs[1], sc, est, rest]))
    return build, params, digest, interp, fs


def run(case, thr_cls):
    rng = case.rng
    build, params, digest, interp, fs = gen_config(case, thr_cls)
    # probe: the unfiltered mesh gives the range against which filter_threshold is placed
    try:
        probe = build(None, filter_size=(1, 1))
    except ValueError as exc:
        if 'All boxes contain' in str(exc):
            case.skip('config rejected: all boxes excluded')
        raise
    pm = np.asarray(getattr(probe.background_mesh, 'value', probe.background_mesh), dtype=float)
    lo, hi = float(pm.min()), float(pm.max())
    if thr_cls == 'none':
        thr = None
    elif thr_cls == 'below':
        thr = lo - 1.0 - abs(lo)
    elif thr_cls == 'above':
        thr = hi + 1.0 + abs(hi)
    else:
        thr = lo + (hi - lo) * float(rng.uniform(0.15, 0.85))
    selective = thr is not None and thr_cls != 'below' and tuple(fs) != (1, 1)

    nreads = int(rng.integers(5, 13))
    seq = list(rng.permutation(ATTRS))[:nreads]
    # favour orders that start with an rms-side attribute half of the time
    if rng.random() < 0.5:
        seq.sort(key=lambda a: (a not in NEEDS_RMS))
        head = [a for a in seq if a in NEEDS_RMS]
        tail = [a for a in seq if a not in NEEDS_RMS]
        tail = list(rng.permutation(tail)) if tail else tail
        seq = head[:max(1, int(rng.integers(1, 3)))] + tail + head[2:]
    # repeats
    for _ in range(int(rng.integers(0, 4))):
        seq.insert(int(rng.integers(0, len(seq) + 1)), seq[int(rng.integers(0, len(seq)))])
    seq = [str(a) for a in seq]

    case.params = dict(params, threshold=thr, reads=seq)
    case.digest = digest + core.digest([thr_cls, seq])
    case.nontrivial = len(set(seq)) >= 2

    live = build(thr)
    fresh_cache = {}
    mesh_done = rms_done = False
    for step, attr in enumerate(seq):
        out_live = O.request(lambda: _read(live, attr))
        if attr not in fresh_cache:
            f = build(thr)
            fresh_cache[attr] = O.request(lambda: _read(f, attr))
        # where this read stands in the history, in normalised form
        if attr in NEEDS_MESH:
            seqkey = 'mesh_cached' if mesh_done else ('rms_mesh_before_mesh' if rms_done else 'mesh_first')
        elif attr in NEEDS_RMS:
            seqkey = 'rms_cached' if rms_done else ('mesh_before_rms_mesh' if mesh_done else 'rms_first')
        else:
            seqkey = 'independent'
        mech = {'family': 'bkg', 'attr': attr, 'thr': thr_cls, 'interp': interp,
                'selective': bool(selective), 'seq': seqkey, 'dtype': params['dtype']}
        O.compare(case, out_live, fresh_cache[attr], 'bkg_read_vs_fresh', mech,
                  devname='bkg:' + attr)
        case.note('bkg_reads')
        case.note('bkg_seq:' + seqkey)
        # which meshes are materialised now (only used for the mechanism key, never for a verdict)
        mesh_done = 'background_mesh' in live.__dict__
        rms_done = 'background_rms_mesh' in live.__dict__
    # configuration attributes must still read as constructed
    f = build(thr)
    for name in ('box_size', 'fill_value', 'exclude_percentile', 'filter_size', 'filter_threshold',
                 'edge_method', 'coverage_mask'):
        a, b = getattr(live, name), getattr(f, name)
        ok, _, why = O.deep_same(O.canon(a), O.canon(b))
        case.check(ok, 'bkg_config_unchanged', {'family': 'bkg', 'attr': name}, why=why)
