"""C05 generators: small label arrays of every integer dtype, by hostile class."""
from __future__ import annotations

import numpy as np

INT_DTYPES = [np.int8, np.uint8, np.int16, np.uint16, np.int32, np.uint32, np.int64, np.uint64]


def pick_dtype(rng):
    return np.dtype(INT_DTYPES[int(rng.integers(0, len(INT_DTYPES)))])


def _shape(rng, lo=3, hi=14):
    return int(rng.integers(lo, hi + 1)), int(rng.integers(lo, hi + 1))


def any_shape(rng, plain=0.7):
    """(shape, kind): mostly the plain 3..14 squares/rectangles, else strongly elongated / 1xN / Nx1."""
    r = rng.random()
    if r < plain:
        return _shape(rng), 'plain'
    k = int(rng.integers(0, 4))
    if k == 0:
        return (1, int(rng.integers(2, 31))), '1xN'
    if k == 1:
        return (int(rng.integers(2, 31)), 1), 'Nx1'
    if k == 2:
        return (int(rng.integers(2, 4)), int(rng.integers(18, 41))), 'elongated_x'
    return (int(rng.integers(18, 41)), int(rng.integers(2, 4))), 'elongated_y'


def _label_values(rng, n, dtype, big=False):
    """n distinct positive label values with gaps, inside the dtype."""
    top = int(np.iinfo(dtype).max)
    hi = min(top, 250 if not big else 1200)
    mode = int(rng.integers(0, 4))
    if mode == 0:                      # consecutive from 1
        vals = list(range(1, n + 1))
    elif mode == 1:                    # consecutive from an offset
        s = int(rng.integers(2, 8))
        vals = list(range(s, s + n))
    else:                              # gaps
        span = min(hi, max(n + 1, int(rng.integers(n + 1, 4 * n + 6))))
        if big:
            span = hi
        vals = sorted(int(v) for v in rng.choice(np.arange(1, span + 1), size=n, replace=False))
    return vals


def blobs(rng, shape, dtype, nlab=None, allow_touch_border=True, big=False):
    """Rectangular / plus-shaped connected blobs that do not overwrite each other."""
    ny, nx = shape
    nlab = int(rng.integers(1, 7)) if nlab is None else nlab
    vals = _label_values(rng, nlab, dtype, big=big)
    rng.shuffle(vals)
    data = np.zeros(shape, dtype=dtype)
    for v in vals:
        for _ in range(12):
            h, w = int(rng.integers(1, max(2, ny // 2 + 1))), int(rng.integers(1, max(2, nx // 2 + 1)))
            lo = 0 if allow_touch_border else 1
            if ny - h - lo < lo or nx - w - lo < lo:
                continue
            y0 = int(rng.integers(lo, ny - h - lo + 1))
            x0 = int(rng.integers(lo, nx - w - lo + 1))
            if (data[y0:y0 + h, x0:x0 + w] == 0).all():
                data[y0:y0 + h, x0:x0 + w] = v
                if h >= 3 and w >= 3 and rng.random() < 0.3:      # punch a hole (ring)
                    data[y0 + 1:y0 + h - 1, x0 + 1:x0 + w - 1] = 0
                break
    return data


def scatter(rng, shape, dtype):
    nlab = int(rng.integers(1, 7))
    vals = _label_values(rng, nlab, dtype)
    data = np.asarray(rng.choice(vals, size=shape)).astype(dtype)
    data[rng.random(shape) < rng.choice([0.3, 0.6, 0.85])] = 0
    return data


def disconnected(rng, shape, dtype):
    data = blobs(rng, shape, dtype, allow_touch_border=True)
    labs = [int(v) for v in np.unique(data) if v != 0]
    free = np.argwhere(data == 0)
    if labs and len(free):
        lab = labs[int(rng.integers(0, len(labs)))]
        ys, xs = np.nonzero(data == lab)
        # a far-away free pixel: not 8-adjacent to the label
        rng.shuffle(free)
        for y, x in free:
            if np.min(np.maximum(np.abs(ys - y), np.abs(xs - x))) >= 2:
                data[y, x] = lab
                break
    return data


def no_background(rng, shape, dtype):
    """Tiling by rectangular blocks, every pixel labelled, each label connected."""
    ny, nx = shape
    ycuts = sorted({0, ny} | ({int(v) for v in rng.integers(1, ny, size=int(rng.integers(0, 3)))} if ny > 1 else set()))
    xcuts = sorted({0, nx} | ({int(v) for v in rng.integers(1, nx, size=int(rng.integers(0, 3)))} if nx > 1 else set()))
    nblk = (len(ycuts) - 1) * (len(xcuts) - 1)
    vals = _label_values(rng, nblk, dtype)
    rng.shuffle(vals)
    data = np.zeros(shape, dtype=dtype)
    k = 0
    for i in range(len(ycuts) - 1):
        for j in range(len(xcuts) - 1):
            data[ycuts[i]:ycuts[i + 1], xcuts[j]:xcuts[j + 1]] = vals[k]
            k += 1
    return data


def single_pixel(rng, shape, dtype):
    ny, nx = shape
    nlab = int(rng.integers(1, 6))
    vals = _label_values(rng, nlab, dtype)
    data = np.zeros(shape, dtype=dtype)
    spots = [(0, 0), (0, nx - 1), (ny - 1, 0), (ny - 1, nx - 1), (ny // 2, nx // 2),
             (0, nx // 2), (ny // 2, 0)]
    rng.shuffle(spots)
    for v, (y, x) in zip(vals, spots):
        if rng.random() < 0.5:
            y, x = int(rng.integers(0, ny)), int(rng.integers(0, nx))
        if data[y, x] == 0:
            data[y, x] = v
    if not data.any():
        data[0, 0] = vals[0]
    return data


def dtype_max(rng, shape):
    """A label equal to the largest value of a small dtype."""
    dtype = np.dtype([np.int8, np.uint8, np.int16, np.uint16][int(rng.integers(0, 4))])
    data = blobs(rng, shape, dtype, allow_touch_border=False)
    labs = [int(v) for v in np.unique(data) if v != 0]
    if not labs:
        data[shape[0] // 2, shape[1] // 2] = 1
        labs = [1]
    data[data == max(labs)] = np.iinfo(dtype).max
    return data


def tiny(rng, dtype):
    shape = [(1, 1), (1, int(rng.integers(2, 9))), (int(rng.integers(2, 9)), 1), (2, 2), (2, 3), (3, 3),
             (3, 2)][int(rng.integers(0, 7))]
    vals = _label_values(rng, 3, dtype)
    data = np.asarray(rng.choice([0] + vals, size=shape)).astype(dtype)
    return data


def border(rng, shape, dtype):
    """Blobs at controlled distances 0..3 from the edges."""
    ny, nx = max(shape[0], 7), max(shape[1], 7)
    data = np.zeros((ny, nx), dtype=dtype)
    vals = _label_values(rng, int(rng.integers(2, 6)), dtype)
    for v in vals:
        d = int(rng.integers(0, 4))
        side = int(rng.integers(0, 4))
        h, w = int(rng.integers(1, 3)), int(rng.integers(1, 3))
        if side == 0:
            y0, x0 = d, int(rng.integers(0, nx - w + 1))
        elif side == 1:
            y0, x0 = ny - d - h, int(rng.integers(0, nx - w + 1))
        elif side == 2:
            y0, x0 = int(rng.integers(0, ny - h + 1)), d
        else:
            y0, x0 = int(rng.integers(0, ny - h + 1)), nx - d - w
        if y0 >= 0 and x0 >= 0 and (data[y0:y0 + h, x0:x0 + w] == 0).all():
            data[y0:y0 + h, x0:x0 + w] = v
    if not data.any():
        data[ny // 2, nx // 2] = vals[0]
    return data


def relayout(rng, data, kinds=None):
    """Same values, different memory layout / container:
    Fortran order, strided view, transposed view, offset view of a larger buffer, big-endian, read-only."""
    kinds = kinds or ['fortran', 'strided_view', 'transposed_view', 'offset_view', 'big_endian', 'readonly']
    kind = str(kinds[int(rng.integers(0, len(kinds)))])
    if kind == 'fortran':
        return np.asfortranarray(data), kind
    if kind == 'strided_view':
        big = np.repeat(np.repeat(data, 2, axis=0), 2, axis=1)
        return big[::2, ::2], kind
    if kind == 'transposed_view':
        return np.ascontiguousarray(data.T).T, kind
    if kind == 'offset_view':
        big = np.ones((data.shape[0] + 3, data.shape[1] + 2), dtype=data.dtype)
        big[2:2 + data.shape[0], 1:1 + data.shape[1]] = data
        return big[2:2 + data.shape[0], 1:1 + data.shape[1]], kind
    if kind == 'big_endian':
        return data.astype(data.dtype.newbyteorder('>')), kind
    out = data.copy()
    out.flags.writeable = False
    return out, kind


def constant_label(rng, shape, dtype):
    """One label covering every pixel (constant image)."""
    v = _label_values(rng, 1, dtype)[0]
    return np.full(shape, v, dtype=dtype)


def border_only(rng, shape, dtype):
    """Labels only on the outermost ring of pixels."""
    ny, nx = shape
    data = np.zeros(shape, dtype=dtype)
    ring = [(0, x) for x in range(nx)] + [(ny - 1, x) for x in range(nx)] \
        + [(y, 0) for y in range(ny)] + [(y, nx - 1) for y in range(ny)]
    vals = _label_values(rng, int(rng.integers(1, 5)), dtype)
    for v in vals:
        y, x = ring[int(rng.integers(0, len(ring)))]
        if data[y, x] == 0:
            data[y, x] = v
            if rng.random() < 0.5 and x + 1 < nx and y in (0, ny - 1) and data[y, x + 1] == 0:
                data[y, x + 1] = v
    if rng.random() < 0.3:                    # the whole ring is one label
        for y, x in ring:
            data[y, x] = vals[0]
    return data


def near_limit(rng, data):
    """Move the highest labels next to a limit of the dtype (order of the labels preserved).
    8/16-bit: max, max-1, ...; uint8/uint16: just above the signed range; >= 32 bit: just above 2**16
    (labels near 2**31 / 2**63 are not generated: the library's look-up tables have max_label + 1 entries)."""
    labs = [int(v) for v in np.unique(data) if v != 0]
    if not labs:
        return data, None
    dt = data.dtype
    top = int(np.iinfo(dt).max)
    k = int(rng.integers(1, min(3, len(labs)) + 1))
    r = rng.random()
    if dt.itemsize <= 2 and r < 0.5:
        base, kind = top - k + 1, 'at_dtype_max'
    elif dt.itemsize <= 2 and dt.kind == 'u' and top // 2 + 1 > max(labs):
        base, kind = top // 2 + 1, 'above_signed_range'
    elif dt.itemsize <= 2:
        base, kind = top - k - int(rng.integers(0, 3)), 'below_dtype_max'
    elif rng.random() < 0.5:
        return data, None                   # (65k-entry tables make these cases slow: keep them rare)
    else:
        base, kind = 2 ** 16 + int(rng.integers(0, 3)), 'above_uint16'
    if base <= max(labs[:-k] + [0]):
        return data, None
    out = data.copy()
    for i, lab in enumerate(labs[-k:]):
        out[data == lab] = base + i
    return out, kind


EDGES = ['top', 'bottom', 'left', 'right', 'corner_00', 'corner_0x', 'corner_y0', 'corner_yx']


def edge_blob(rng, data):
    """Add one small segment (new label) that touches exactly one chosen border / corner of the array."""
    ny, nx = data.shape
    labs = set(int(v) for v in np.unique(data))
    top = int(np.iinfo(data.dtype).max)
    new = next((v for v in range(1, min(top, 400) + 1) if v not in labs), None)
    if new is None:
        return data, None
    side = EDGES[int(rng.integers(0, len(EDGES)))]
    h, w = int(rng.integers(1, 3)), int(rng.integers(1, 3))
    h, w = min(h, ny), min(w, nx)
    ymid = int(rng.integers(0, ny - h + 1))
    xmid = int(rng.integers(0, nx - w + 1))
    y0, x0 = {'top': (0, xmid), 'bottom': (ny - h, xmid), 'left': (ymid, 0), 'right': (ymid, nx - w),
              'corner_00': (0, 0), 'corner_0x': (0, nx - w), 'corner_y0': (ny - h, 0),
              'corner_yx': (ny - h, nx - w)}[side]
    out = data.copy()
    out[y0:y0 + h, x0:x0 + w] = new
    return out, side


def scene(rng, n=None):
    """Noisy image with blended Gaussian pairs/triples (for detect/deblend)."""
    n = int(rng.integers(24, 37)) if n is None else n
    yy, xx = np.mgrid[:n, :n]
    img = np.zeros((n, n))
    for _ in range(int(rng.integers(1, 4))):
        cx, cy = rng.uniform(6, n - 6, 2)
        ncomp = int(rng.integers(2, 4))
        ang = rng.uniform(0, 2 * np.pi)
        for j in range(ncomp):
            sep = rng.uniform(4.0, 6.5) * j
            amp = rng.uniform(60, 200)
            sig = rng.uniform(1.1, 1.9)
            px, py = cx + sep * np.cos(ang), cy + sep * np.sin(ang)
            img += amp * np.exp(-((xx - px) ** 2 + (yy - py) ** 2) / (2 * sig ** 2))
    for _ in range(int(rng.integers(0, 3))):            # isolated sources
        px, py = rng.uniform(2, n - 2, 2)
        img += rng.uniform(30, 80) * np.exp(-((xx - px) ** 2 + (yy - py) ** 2) / (2 * 1.2 ** 2))
    img += rng.normal(0.0, 1.0, img.shape)
    for _ in range(int(rng.integers(0, 5))):            # hot pixels: components pruned by npixels -> relabel path
        img[int(rng.integers(0, n)), int(rng.integers(0, n))] += rng.uniform(20, 60)
    return img
