"""C09 family: sky apertures used more than once with a WCS.

ONE live Sky{Circular,Elliptical,Rectangular}{Aperture,Annulus} receives an
interleaved sequence of

* conversions `to_pixel(wcs)` (two different WCSs per case: north-up, rotated,
  anisotropic / flipped pixel scales),
* `aperture_photometry(data, sky, wcs=..., error, mask, method)`,
* `ApertureStats(data, sky, wcs=...)` (sum, centroid, bbox, max, ...),
* attribute reads (all parameters, repr, len/shape/isscalar, indexing, copy, ==),
* plain and augmented in-place updates of theta and of the sizes,

and every result is compared exactly with a FRESH sky aperture (new SkyCoord, new
Quantities) built from the harness record of the current parameters that makes
only that request.  The parameters the object reports are also compared with the
record after every request (a conversion must not change the object).
"""
from __future__ import annotations

import copy

import numpy as np

from pv import core
from pv.gen import c09_axes as AX
from pv.ref import c09_oracle as O

TYPES = ['SkyCircularAperture', 'SkyCircularAnnulus', 'SkyEllipticalAperture', 'SkyEllipticalAnnulus',
         'SkyRectangularAperture', 'SkyRectangularAnnulus']
SIZES = {'SkyCircularAperture': ['r'], 'SkyCircularAnnulus': ['r_in', 'r_out'],
         'SkyEllipticalAperture': ['a', 'b'], 'SkyEllipticalAnnulus': ['a_in', 'a_out', 'b_in', 'b_out'],
         'SkyRectangularAperture': ['w', 'h'], 'SkyRectangularAnnulus': ['w_in', 'w_out', 'h_in', 'h_out']}
PAIRS = {'r_in': 'r_out', 'a_in': 'a_out', 'b_in': 'b_out', 'w_in': 'w_out', 'h_in': 'h_out'}
STATS = ['sum', 'xcentroid', 'ycentroid', 'max', 'median', 'sum_aper_area', 'bbox_xmin', 'bbox_ymax']


def make_wcs(rng, shape, kind):
    from astropy.wcs import WCS
    w = WCS(naxis=2)
    ny, nx = shape
    w.wcs.crpix = [nx / 2 + float(rng.uniform(-5, 5)), ny / 2 + float(rng.uniform(-5, 5))]
    w.wcs.crval = [float(rng.uniform(10, 350)), float(rng.uniform(-60, 60))]
    w.wcs.ctype = ['RA---TAN', 'DEC--TAN']
    sx = float(rng.uniform(0.05, 0.3)) / 3600.0
    sy = sx if kind != 'anisotropic' else sx * float(rng.uniform(0.5, 0.9))
    if kind == 'north_up':
        w.wcs.cdelt = [-sx, sy]
    else:
        rho = np.deg2rad(float(rng.uniform(-170, 170)))
        flip = -1.0 if (kind == 'flipped') else 1.0
        w.wcs.cd = [[-sx * np.cos(rho), flip * sy * np.sin(rho)], [sx * np.sin(rho) * 1.0, flip * sy * np.cos(rho)]]
    return w


def _size_unit(rng):
    import astropy.units as u
    return [u.arcsec, u.arcsec, u.arcmin, u.deg, u.mas][int(rng.integers(0, 5))]


def gen(case):
    import astropy.units as u
    rng = case.rng
    tname = TYPES[int(rng.integers(0, len(TYPES)))]
    if rng.random() < 0.6:                 # the types with a theta matter most
        tname = TYPES[int(rng.integers(2, 6))]
    shape = AX.image_shape(case, 36, 64, 'shape_sky')
    shape = (max(shape[0], 24), max(shape[1], 24))
    kinds = ['north_up', 'rotated', 'rotated', 'anisotropic', 'flipped']
    wk = [kinds[int(rng.integers(0, 5))], kinds[int(rng.integers(0, 5))]]
    wcss = [make_wcs(rng, shape, k) for k in wk]
    # both exposures look at the same field: without this the second WCS maps the sky positions ~1e7 px away from
    # its tangent point, where the TAN scale makes the pixel apertures thousands of pixels wide (one exact mask
    # then takes minutes: a shard timeout = inconclusive run at VERIF_SEED=3)
    wcss[1].wcs.crval = [wcss[0].wcs.crval[0] + float(rng.uniform(-3, 3)) * 1e-4,
                         wcss[0].wcs.crval[1] + float(rng.uniform(-3, 3)) * 1e-4]
    for k in wk:
        case.note('axis2_wcs:' + k)
    scale_as = float(np.abs(wcss[0].wcs.cdelt[0]) if wk[0] == 'north_up' else
                     np.sqrt(np.abs(np.linalg.det(wcss[0].wcs.cd)))) * 3600.0          # arcsec / pixel
    npos = 1 if rng.random() < 0.35 else int(rng.integers(2, 5))
    # positions near each border / corner separately, exact (half-)integers, or interior
    edge = str(rng.choice(['interior', 'interior', 'left', 'right', 'bottom', 'top', 'corner_ll', 'corner_ur']))
    case.note('axis2_edge_sky:' + edge)
    ny, nx = shape
    x = rng.uniform(8, nx - 9, npos)
    y = rng.uniform(8, ny - 9, npos)
    if edge in ('left', 'corner_ll'):
        x[0] = rng.uniform(-2, 3)
    if edge in ('right', 'corner_ur'):
        x[0] = nx - 1 + rng.uniform(-3, 2)
    if edge in ('bottom', 'corner_ll'):
        y[0] = rng.uniform(-2, 3)
    if edge in ('top', 'corner_ur'):
        y[0] = ny - 1 + rng.uniform(-3, 2)
    if rng.random() < 0.3:
        x, y = np.round(x * 2) / 2, np.round(y * 2) / 2
        case.note('axis2_halfint_sky')
    scalar = npos == 1 and rng.random() < 0.6
    sizes_px = {}
    for s in SIZES[tname]:
        sizes_px[s] = float(np.round(rng.uniform(1.5, 5.0), 2))
    for lo, hi in PAIRS.items():
        if lo in sizes_px:
            sizes_px[hi] = sizes_px[lo] + float(np.round(rng.uniform(0.8, 4.0), 2))
    unit = _size_unit(rng)
    rec = {'xy': (x, y)}
    for s, v in sizes_px.items():
        rec[s] = (v * scale_as * u.arcsec).to(unit)
    if tname not in ('SkyCircularAperture', 'SkyCircularAnnulus'):
        tform = AX.angle_form(case, 'axis2_sky_theta_form')
        t = tform(float(rng.uniform(-3.0, 3.0)))
        rec['theta'] = t if isinstance(t, u.Quantity) else t * u.rad
    return tname, shape, wcss, wk, rec, scalar


def build(tname, wcs0, rec, scalar):
    """A brand-new sky aperture from the record (new SkyCoord, new Quantities)."""
    import photutils.aperture as pa
    x, y = rec['xy']
    pos = wcs0.pixel_to_world(float(x[0]), float(y[0])) if scalar else wcs0.pixel_to_world(np.array(x), np.array(y))
    kw = {k: copy.deepcopy(v) for k, v in rec.items() if k != 'xy'}
    return getattr(pa, tname)(pos, **kw)


def _reported(ap):
    out = {}
    for p in ap._params:
        out[p] = O.canon(copy.deepcopy(getattr(ap, p)))
    return out


def _request(ap, rq, data, error, mask, wcss):
    from photutils.aperture import ApertureStats, aperture_photometry
    kind = rq['kind']
    if kind == 'to_pixel':
        return ap.to_pixel(wcss[rq['wcs']])
    if kind == 'aperture_photometry':
        return aperture_photometry(data.copy(), ap, error=None if not rq['error'] else error.copy(),
                                   mask=None if not rq['mask'] else mask.copy(), method=rq['method'],
                                   subpixels=rq['subpixels'], wcs=wcss[rq['wcs']])
    if kind == 'ApertureStats':
        st = ApertureStats(data.copy(), ap, error=None if not rq['error'] else error.copy(),
                           mask=None if not rq['mask'] else mask.copy(), wcs=wcss[rq['wcs']])
        return {s: getattr(st, s) for s in rq['stats']}
    if kind == 'params':
        return {p: getattr(ap, p) for p in ap._params}
    if kind == 'repr':
        return repr(ap) + '\n' + str(ap)
    if kind == 'shape':
        return [ap.shape, ap.isscalar]
    if kind == 'len':
        return len(ap)
    if kind == 'getitem':
        return ap[rq['index']]
    if kind == 'copy':
        return ap.copy()
    raise RuntimeError(kind)


def run(case):
    import astropy.units as u
    rng = case.rng
    tname, shape, wcss, wk, rec, scalar = gen(case)
    mag = AX.scale(case, 'magnitude_sky')
    lay = AX.layout(case, 'layout_sky')
    yy, xx = np.mgrid[0:shape[0], 0:shape[1]]
    data = (rng.normal(5, 1, shape) + 50 * np.exp(-((xx - shape[1] / 2) ** 2 + (yy - shape[0] / 2) ** 2) / 50.0)) * mag
    error = np.abs(rng.normal(1, 0.2, shape)) * mag
    mask = rng.random(shape) < 0.05
    r = rng.random()
    if r < 0.1:
        mask = np.zeros(shape, bool)
        case.note('axis2_mask:all_false')
    elif r < 0.15:
        mask = np.ones(shape, bool)
        case.note('axis2_mask:all_true')
    r = rng.random()
    if r < 0.1:
        data, error = data.astype(np.float32), error.astype(np.float32)
        case.note('axis2_dtype_sky:float32')
    elif r < 0.2:
        data = np.clip(np.round(data / mag * 10), 0, 65535).astype(np.uint16)
        case.note('axis2_dtype_sky:uint16')
    data, error, mask = lay(data), lay(error), lay(mask)

    live = build(tname, wcss[0], rec, scalar)
    names = [p for p in live._params if p != 'positions']
    nsteps = int(rng.integers(4, 11))
    log = []
    nconv = 0
    last_upd = 'none'
    for _ in range(nsteps):
        r = rng.random()
        if r < 0.16 and names:
            # ---- update of theta or of a size: plain or augmented in place ------------------
            name = names[int(rng.integers(0, len(names)))]
            cur = rec[name]
            if name == 'theta':
                delta = float(np.round(rng.uniform(0.05, 1.0), 3)) * (u.deg if rng.random() < 0.5 else u.rad)
                new = cur + delta
            else:
                new = cur * float(np.round(rng.uniform(1.05, 1.4), 2))
                lo_of = {v: k for k, v in PAIRS.items()}
                if name in PAIRS and not new < rec[PAIRS[name]]:
                    continue
                _ = lo_of
                delta = new - cur
            if rng.random() < 0.5:
                setattr(live, name, copy.deepcopy(new))
                last_upd = 'set:' + name
            else:
                exec(f'live.{name} += delta', {'live': live, 'delta': copy.deepcopy(delta)})
                last_upd = 'aug:' + name
            rec[name] = new
            log.append([last_upd])
            continue
        kinds = ['to_pixel', 'to_pixel', 'aperture_photometry', 'aperture_photometry', 'ApertureStats', 'params',
                 'params', 'repr', 'shape', 'len', 'getitem', 'copy', 'eq_fresh']
        rq = {'kind': kinds[int(rng.integers(0, len(kinds)))], 'wcs': int(rng.integers(0, 2)),
              'error': bool(rng.random() < 0.5), 'mask': bool(rng.random() < 0.5),
              'method': str(rng.choice(['exact', 'center', 'subpixel'])), 'subpixels': int(rng.integers(1, 6))}
        if rq['kind'] == 'ApertureStats':
            rq['stats'] = [str(s) for s in rng.permutation(STATS)[:4]]
        if rq['kind'] == 'getitem':
            n = len(rec['xy'][0])
            rq['index'] = int(rng.integers(0, n)) if rng.random() < 0.6 else slice(0, int(rng.integers(1, n + 1)))
        mech = {'family': 'sky_aperture', 'type': tname, 'attr': rq['kind'], 'prior_conversions': min(nconv, 2),
                'after_update': last_upd, 'wcs': wk[rq['wcs']], 'scalar': bool(scalar)}
        fresh = build(tname, wcss[0], rec, scalar)
        if rq['kind'] == 'eq_fresh':
            case.check(bool(live == fresh) and not bool(live != fresh), 'sky_eq_fresh', mech)
        else:
            o_l = O.request(lambda: _request(live, rq, data, error, mask, wcss), expected=(TypeError,))
            o_f = O.request(lambda: _request(fresh, rq, data, error, mask, wcss), expected=(TypeError,))
            O.compare(case, o_l, o_f, 'sky_request_vs_fresh', mech, devname='sky:' + rq['kind'])
        if rq['kind'] in ('to_pixel', 'aperture_photometry', 'ApertureStats'):
            nconv += 1
            case.note('sky_conversions')
        # the request must not have changed what the object reports
        fresh2 = build(tname, wcss[0], rec, scalar)
        rl, rf = _reported(live), _reported(fresh2)
        for p in rl:
            ok, _, why = O.deep_same(rl[p], rf[p])
            case.check(ok, 'sky_params_vs_record', dict(mech, param=p), why=why)
        log.append([rq['kind'], rq['wcs']])
        case.note('sky_requests')
    case.params = dict(type=tname, shape=list(shape), wcs=wk, scalar=bool(scalar), npos=len(rec['xy'][0]), steps=log)
    case.digest = core.arr_digest(np.asarray(data), rec['xy'][0], rec['xy'][1]) + core.digest(case.params)
    case.nontrivial = nconv >= 2 or (nconv >= 1 and len(log) >= 3)
