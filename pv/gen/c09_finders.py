"""C09 family: DAOStarFinder / IRAFStarFinder / StarFinder called repeatedly.

One live finder, several calls with different images (shape, content, mask,
units); every returned table (or None) is compared exactly with the result of a
fresh finder (constructed from copies of the same constructor arguments) making
only that call.  Public configuration attributes must read the same after a call
as at construction.  Every call receives its own copy of the image (StarFinder
edits views of its input, which is C10's business).
"""
from __future__ import annotations

import numpy as np

from pv import core
from pv.gen import c09_axes as AX
from pv.ref import c09_oracle as O


def _image(case, fwhm, thr):
    rng = case.rng
    ny, nx = AX.image_shape(case, 24, 56, 'shape_finder')
    ny, nx = max(ny, 12), max(nx, 12)
    yy, xx = np.mgrid[0:ny, 0:nx]
    data = rng.normal(0, 1.0, (ny, nx))
    sig = fwhm / 2.3548
    for _ in range(int(rng.integers(0, 8))):
        x, y = rng.uniform(0, nx), rng.uniform(0, ny)
        q = rng.uniform(0.6, 1.0)
        data += rng.uniform(15, 400) * np.exp(-(((xx - x) / sig) ** 2 + ((yy - y) / (sig * q)) ** 2) / 2)
    # many faint sources whose peaks straddle the detection threshold: any drift of the effective
    # threshold or of the kernel scale between calls changes which of them are returned
    for _ in range(int(rng.integers(1, 4))):          # sources near / across exactly one border or corner
        ex, ey, _e = AX.edge_position(case, 'finder', (ny, nx), margin=6.0)
        data += rng.uniform(30, 200) * np.exp(-(((xx - ex) / sig) ** 2 + ((yy - ey) / sig) ** 2) / 2)
    for _ in range(int(rng.integers(6, 20))):
        x, y = rng.uniform(2, nx - 2), rng.uniform(2, ny - 2)
        data += rng.uniform(0.5, 2.5) * thr * np.exp(-(((xx - x) / sig) ** 2 + ((yy - y) / sig) ** 2) / 2)
    mask = AX.mask_kind(case, 'finder')((ny, nx), 0.03)
    if mask is not None and mask.all():
        mask = None
    r = rng.random()
    if r < 0.05:
        data = np.full((ny, nx), 3.0)                     # degenerate: constant image, nothing to detect
        case.note('axis:degenerate_finder:constant_image')
    elif r < 0.1:
        data = rng.normal(0, 0.01, (ny, nx))              # degenerate: nothing above the threshold
        case.note('axis:degenerate_finder:nothing_detected')
    elif r < 0.14:
        mask = np.ones((ny, nx), bool)                    # degenerate: everything masked
        case.note('axis:degenerate_finder:all_masked')
    return data, mask


def gen_factory(case, kind):
    import astropy.units as u
    rng = case.rng
    mag = AX.scale(case, 'magnitude_finder')
    tform = AX.scalar_form(case, 'finder_scalar_form')
    fwhm = float(np.round(rng.uniform(1.8, 4.0), 2))
    thr = float(np.round(rng.uniform(4, 20), 2))
    unit = [u.Jy, u.mJy][int(rng.integers(0, 2))] if rng.random() < 0.2 else None
    brightest = None if rng.random() < 0.6 else int(rng.integers(1, 5))
    peakmax = None if rng.random() < 0.7 else float(rng.uniform(100, 300))
    excl = bool(rng.random() < 0.3)
    minsep = float(rng.choice([0.0, 0.0, 3.0, 6.0]))
    xyc = None
    if kind != 'StarFinder' and rng.random() < 0.2:
        xyc = np.round(rng.uniform(3, 22, (int(rng.integers(1, 5)), 2)), 2)
    ratio = float(rng.choice([1.0, 1.0, 0.7]))
    theta = float(rng.choice([0.0, 30.0]))
    # StarFinder kernel: a (not normalised) gaussian stamp, maximum != 1 in half of the cases
    ksz = int(rng.choice([5, 7, 9]))
    ky, kx = np.mgrid[0:ksz, 0:ksz] - ksz // 2
    kernel = np.exp(-(kx ** 2 + ky ** 2) / (2 * (fwhm / 2.3548) ** 2))
    kscale = float(rng.choice([1.0, 3.0, 0.25]))
    kernel = kernel * kscale

    def make():
        from photutils.detection import DAOStarFinder, IRAFStarFinder, StarFinder
        t = thr * mag * unit if unit is not None else (tform(thr * mag) if tform.kind != 'zero_d' else thr * mag)
        pm = None if peakmax is None else (peakmax * mag * unit if unit is not None else peakmax * mag)
        if kind == 'DAOStarFinder':
            return DAOStarFinder(t, fwhm, ratio=ratio, theta=theta, exclude_border=excl, brightest=brightest,
                                 peakmax=pm, xycoords=None if xyc is None else xyc.copy(), min_separation=minsep)
        if kind == 'IRAFStarFinder':
            return IRAFStarFinder(t, fwhm, exclude_border=excl, brightest=brightest, peakmax=pm,
                                  xycoords=None if xyc is None else xyc.copy(),
                                  min_separation=None if minsep == 0 else minsep)
        return StarFinder(t, kernel.copy(), min_separation=max(minsep, 1.0), exclude_border=excl,
                          brightest=brightest, peakmax=pm)

    desc = dict(kind=kind, fwhm=fwhm, threshold=thr, unit=str(unit), brightest=brightest, peakmax=peakmax,
                exclude_border=excl, min_separation=minsep, xycoords=xyc is not None, ratio=ratio, theta=theta)
    if kind == 'StarFinder':
        desc.update(kernel_size=ksz, kernel_max=kscale)
    desc['magnitude'] = mag
    return make, desc, fwhm, unit, kscale, thr, mag


def _config(f, kind):
    names = ['threshold', 'exclude_border', 'brightest', 'peakmax', 'min_separation']
    if kind != 'StarFinder':
        names += ['fwhm', 'sigma_radius', 'sharplo', 'sharphi', 'roundlo', 'roundhi', 'xycoords']
    if kind == 'DAOStarFinder':
        names += ['ratio', 'theta', 'threshold_eff']
    snap = {n: O.canon(getattr(f, n)) for n in names}
    k = f.kernel
    snap['kernel'] = np.array(k if isinstance(k, np.ndarray) else k.data, dtype=float, copy=True)
    return snap


def run(case, kind):
    rng = case.rng
    make, desc, fwhm, unit, kscale, thr, mag = gen_factory(case, kind)
    lay = AX.layout(case, 'layout_finder')
    ncalls = int(rng.integers(2, 6))
    imgs = [_image(case, fwhm, thr) for _ in range(int(rng.integers(2, 4)))]
    dk = AX.dtype_kind(case, 'finder_image', p_plain=0.6)
    imgs = [(dk(d * mag, mag) if unit is None else d * mag, m) for d, m in imgs]
    seq = [int(rng.integers(0, len(imgs))) for _ in range(ncalls)]
    via = [str(rng.choice(['call', 'find_stars'])) for _ in range(ncalls)]
    case.params = dict(desc, shapes=[list(i[0].shape) for i in imgs], seq=seq, via=via)
    case.digest = core.arr_digest(*[i[0] for i in imgs]) + core.digest(case.params)
    case.nontrivial = ncalls >= 2

    live = make()
    pristine = _config(make(), kind)           # as read from an object that was never called
    nfound = 0
    for k, (si, how) in enumerate(zip(seq, via)):
        data, mask = imgs[si]

        def do(f):
            d = lay(data)
            if unit is not None:
                d = d * unit
            m = lay(mask)
            return f(d, mask=m) if how == 'call' else f.find_stars(d, mask=m)

        mech = {'family': 'finder', 'cls': kind, 'call': 'first' if k == 0 else 'later', 'via': how}
        o_live = O.request(lambda: do(live))
        fresh = make()
        o_fresh = O.request(lambda: do(fresh))
        O.compare(case, o_live, o_fresh, 'finder_call_vs_fresh', mech)
        case.note('finder_calls')
        if o_live.ok and o_live.value is not None:
            nfound += 1
            case.note('finder_sources_returned', len(o_live.value))
        after = _config(live, kind)
        for name, v0 in pristine.items():
            ok, _, why = O.deep_same(v0, after[name])
            m = dict(mech, attr=name)
            if kind == 'StarFinder' and name == 'kernel':
                m['kernel_max_is_one'] = bool(kscale == 1.0)
            case.check(ok, 'finder_config_unchanged_by_call', m, why=why)
    case.note('finder_calls_with_detections', nfound)
