"""C09 family: DAOStarFinder / IRAFStarFinder / StarFinder called repeatedly.

One live finder, several calls with different images (shape, content, mask,
units); every returned table (or None) is compared exactly with the result of a
fresh finder (constructed from copies of the same constructor arguments) making
only that call.  Public configuration attributes must read the same after a call
as at construction.  Every call receives its own copy of the image (StarFinder
edits views of its input, which is C10's business).
"""
from __future__ import annotations

import numpy as np

from pv import core
from pv.ref import c09_oracle as O


def _image(rng, fwhm, thr):
    ny, nx = int(rng.integers(24, 56)), int(rng.integers(24, 56))
    yy, xx = np.mgrid[0:ny, 0:nx]
    data = rng.normal(0, 1.0, (ny, nx))
    sig = fwhm / 2.3548
    for _ in range(int(rng.integers(0, 8))):
        x, y = rng.uniform(0, nx), rng.uniform(0, ny)
        q = rng.uniform(0.6, 1.0)
        data += rng.uniform(15, 400) * np.exp(-(((xx - x) / sig) ** 2 + ((yy - y) / (sig * q)) ** 2) / 2)
    # many faint sources whose peaks straddle the detection threshold: any drift of the effective
    # threshold or of the kernel scale between calls changes which of them are returned
    for _ in range(int(rng.integers(6, 20))):
        x, y = rng.uniform(2, nx - 2), rng.uniform(2, ny - 2)
        data += rng.uniform(0.5, 2.5) * thr * np.exp(-(((xx - x) / sig) ** 2 + ((yy - y) / sig) ** 2) / 2)
    mask = (rng.random((ny, nx)) < 0.03) if rng.random() < 0.3 else None
    return data, mask


def gen_factory(rng, kind):
    import astropy.units as u
    fwhm = float(np.round(rng.uniform(1.8, 4.0), 2))
    thr = float(np.round(rng.uniform(4, 20), 2))
    unit = u.Jy if rng.random() < 0.2 else None
    brightest = None if rng.random() < 0.6 else int(rng.integers(1, 5))
    peakmax = None if rng.random() < 0.7 else float(rng.uniform(100, 300))
    excl = bool(rng.random() < 0.3)
    minsep = float(rng.choice([0.0, 0.0, 3.0, 6.0]))
    xyc = None
    if kind != 'StarFinder' and rng.random() < 0.2:
        xyc = np.round(rng.uniform(3, 22, (int(rng.integers(1, 5)), 2)), 2)
    ratio = float(rng.choice([1.0, 1.0, 0.7]))
    theta = float(rng.choice([0.0, 30.0]))
    # StarFinder kernel: a (not normalised) gaussian stamp, maximum != 1 in half of the cases
    ksz = int(rng.choice([5, 7, 9]))
    ky, kx = np.mgrid[0:ksz, 0:ksz] - ksz // 2
    kernel = np.exp(-(kx ** 2 + ky ** 2) / (2 * (fwhm / 2.3548) ** 2))
    kscale = float(rng.choice([1.0, 3.0, 0.25]))
    kernel = kernel * kscale

    def make():
        from photutils.detection import DAOStarFinder, IRAFStarFinder, StarFinder
        t = thr * unit if unit is not None else thr
        pm = None if peakmax is None else (peakmax * unit if unit is not None else peakmax)
        if kind == 'DAOStarFinder':
            return DAOStarFinder(t, fwhm, ratio=ratio, theta=theta, exclude_border=excl, brightest=brightest,
                                 peakmax=pm, xycoords=None if xyc is None else xyc.copy(), min_separation=minsep)
        if kind == 'IRAFStarFinder':
            return IRAFStarFinder(t, fwhm, exclude_border=excl, brightest=brightest, peakmax=pm,
                                  xycoords=None if xyc is None else xyc.copy(),
                                  min_separation=None if minsep == 0 else minsep)
        return StarFinder(t, kernel.copy(), min_separation=max(minsep, 1.0), exclude_border=excl,
                          brightest=brightest, peakmax=pm)

    desc = dict(kind=kind, fwhm=fwhm, threshold=thr, unit=str(unit), brightest=brightest, peakmax=peakmax,
                exclude_border=excl, min_separation=minsep, xycoords=xyc is not None, ratio=ratio, theta=theta)
    if kind == 'StarFinder':
        desc.update(kernel_size=ksz, kernel_max=kscale)
    return make, desc, fwhm, unit, kscale, thr


def _config(f, kind):
    names = ['threshold', 'exclude_border', 'brightest', 'peakmax', 'min_separation']
    if kind != 'StarFinder':
        names += ['fwhm', 'sigma_radius', 'sharplo', 'sharphi', 'roundlo', 'roundhi', 'xycoords']
    if kind == 'DAOStarFinder':
        names += ['ratio', 'theta', 'threshold_eff']
    snap = {n: O.canon(getattr(f, n)) for n in names}
    k = f.kernel
    snap['kernel'] = np.array(k if isinstance(k, np.ndarray) else k.data, dtype=float, copy=True)
    return snap


def run(case, kind):
    rng = case.rng
    make, desc, fwhm, unit, kscale, thr = gen_factory(rng, kind)
    ncalls = int(rng.integers(2, 6))
    imgs = [_image(rng, fwhm, thr) for _ in range(int(rng.integers(2, 4)))]
    seq = [int(rng.integers(0, len(imgs))) for _ in range(ncalls)]
    via = [str(rng.choice(['call', 'find_stars'])) for _ in range(ncalls)]
    case.params = dict(desc, shapes=[list(i[0].shape) for i in imgs], seq=seq, via=via)
    case.digest = core.arr_digest(*[i[0] for i in imgs]) + core.digest(case.params)
    case.nontrivial = ncalls >= 2

    live = make()
    pristine = _config(make(), kind)           # as read from an object that was never called
    nfound = 0
    for k, (si, how) in enumerate(zip(seq, via)):
        data, mask = imgs[si]

        def do(f):
            d = data.copy()
            if unit is not None:
                d = d * unit
            m = None if mask is None else mask.copy()
            return f(d, mask=m) if how == 'call' else f.find_stars(d, mask=m)

        mech = {'family': 'finder', 'cls': kind, 'call': 'first' if k == 0 else 'later', 'via': how}
        o_live = O.request(lambda: do(live))
        fresh = make()
        o_fresh = O.request(lambda: do(fresh))
        O.compare(case, o_live, o_fresh, 'finder_call_vs_fresh', mech)
        case.note('finder_calls')
        if o_live.ok and o_live.value is not None:
            nfound += 1
            case.note('finder_sources_returned', len(o_live.value))
        after = _config(live, kind)
        for name, v0 in pristine.items():
            ok, _, why = O.deep_same(v0, after[name])
            m = dict(mech, attr=name)
            if kind == 'StarFinder' and name == 'kernel':
                m['kernel_max_is_one'] = bool(kscale == 1.0)
            case.check(ok, 'finder_config_unchanged_by_call', m, why=why)
    case.note('finder_calls_with_detections', nfound)
