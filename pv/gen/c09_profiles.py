"""C09 family: RadialProfile / CurveOfGrowth histories.

Steps are first/later reads of the public arrays interleaved with
normalize('max'|'sum') / unnormalize().  Oracles for every read:

 E  eager twin: a fresh object whose arrays were ALL read right after
    construction and which then received the same mutator calls (exact);
 L  lazy twin : a brand-new object that received only the mutator calls and
    then this single read (exact; random subset of the steps);
 M  model     : raw arrays of a never-normalised fresh object divided by the
    current normalisation value tracked by the harness (rtol 1e-12:
    normalise/unnormalise round trips);
 G  gaussian_*: documented to be frozen at the first read ("will not change if
    the profile normalization is changed after performing the fit"), so the
    oracle is a fresh object that received the mutators issued before that
    first read and then read the attribute (exact).
"""
from __future__ import annotations

import numpy as np

from pv import core
from pv.gen import c09_axes as AX
from pv.ref import c09_oracle as O

RT_TOL = 1e-12
NORMALISED = ('profile', 'profile_error', 'data_profile')
INDEP = ('radius', 'area', 'data_radius')
GAUSS = ('gaussian_fit', 'gaussian_profile', 'gaussian_fwhm')


def gen_config(case, kind):
    rng = case.rng
    import astropy.units as u
    ny, nx = AX.image_shape(case, 31, 56, 'shape_profile')
    n = min(ny, nx)
    mag = AX.scale(case, 'magnitude_profile')
    lay_d, lay_m = AX.layout(case, 'layout_profile_data'), AX.layout(case, 'layout_profile_mask')
    cen_form = int(rng.integers(0, 5))
    case.note('axis:xycen_form:' + ['tuple', 'list', 'ndarray', 'np_scalars', 'int_if_possible'][cen_form])
    rad_form = AX.seq_form(case, 'radii_form')
    degenerate = None
    r = rng.random()
    if r < 0.04:
        degenerate = 'zero_data'
    elif r < 0.08:
        degenerate = 'all_masked'
    elif r < 0.12:
        degenerate = 'off_image'
    if degenerate:
        case.note('axis:degenerate_profile:' + degenerate)
    yy, xx = np.mgrid[0:ny, 0:nx]
    xc = nx / 2 + rng.uniform(-4, 4)
    yc = ny / 2 + rng.uniform(-4, 4)
    if rng.random() < 0.5:
        # one-sided edges / exact (half-)integer centres (even and odd k)
        xc, yc, _edge = AX.edge_position(case, 'profile', (ny, nx), margin=10.0, reach=4.0)
    if cen_form == 4:
        xc, yc = float(round(xc)), float(round(yc))
    dk = AX.dtype_kind(case, 'profile_data', p_plain=0.65)
    mkind = AX.mask_kind(case, 'profile')
    if degenerate == 'off_image':
        xc = float(nx + rng.uniform(30, 60))
    if rng.random() < 0.15:          # source near the edge: apertures overhang the image
        xc = rng.uniform(1, 6)
    sig = rng.uniform(1.5, 5.0)
    amp = rng.uniform(20, 500)
    data = amp * np.exp(-((xx - xc) ** 2 + (yy - yc) ** 2) / (2 * sig ** 2)) + rng.normal(0, 1.0, (ny, nx))
    if degenerate == 'zero_data':
        data = np.zeros((ny, nx))
    flags = {}
    error = mask = None
    if rng.random() < 0.6:
        error = np.full((ny, nx), 1.0) + rng.uniform(0, 0.5, (ny, nx))
        flags['error'] = True
    if rng.random() < 0.4:
        mask = rng.random((ny, nx)) < rng.choice([0.02, 0.15])
        if rng.random() < 0.3:       # a fully masked ring -> area 0 -> NaN profile bin
            rr = np.hypot(xx - xc, yy - yc)
            mask |= (rr > 5.5) & (rr < 9.5)
            flags['masked_ring'] = True
        flags['mask'] = True
    if rng.random() < 0.2:
        data[rng.random((ny, nx)) < 0.01] = np.nan
        flags['nan'] = True
    if degenerate == 'all_masked':
        mask = np.ones((ny, nx), bool)
    unit = [u.Jy, u.mJy][int(rng.integers(0, 2))] if rng.random() < 0.25 else None
    data = data * mag
    error = None if error is None else error * mag
    if mkind.kind == 'all_false' and degenerate is None:
        mask = np.zeros((ny, nx), bool)
    data = dk(data, mag)
    if dk.kind in ('float32', 'float16') and error is not None:
        error = error.astype(np.float32)
    method = str(rng.choice(['exact', 'exact', 'center', 'subpixel']))
    rmax = float(rng.uniform(6, max(7.0, min(18, n / 2))))     # may overhang a narrow image
    nr = int(rng.integers(4, 14))
    if kind == 'RadialProfile':
        r0 = 0.0 if rng.random() < 0.6 else float(rng.uniform(0.3, 2))
    else:
        r0 = float(rng.uniform(0.3, 1.5))
    if rng.random() < 0.5:
        radii = np.linspace(r0, rmax, nr)
    else:
        radii = r0 + (rmax - r0) * np.sort(np.concatenate([[0.0, 1.0], rng.uniform(0.02, 0.98, nr - 2)]))
        radii = np.unique(radii)
    def cen():
        if cen_form == 0:
            return (float(xc), float(yc))
        if cen_form == 1:
            return [float(xc), float(yc)]
        if cen_form == 2:
            return np.array([xc, yc])
        if cen_form == 3:
            return (np.float64(xc), np.float64(yc))
        return (int(xc), int(yc))
    xycen = (float(xc), float(yc))

    def build():
        from photutils.profiles import CurveOfGrowth, RadialProfile
        cls = RadialProfile if kind == 'RadialProfile' else CurveOfGrowth
        d = lay_d(data)
        e = lay_d(error)
        if unit is not None:
            d = d * unit
            e = None if e is None else e * unit
        return cls(d, cen(), rad_form(radii), error=e, mask=lay_m(mask), method=method, subpixels=3)

    params = dict(kind=kind, shape=[ny, nx], magnitude=mag, degenerate=degenerate, dtype=dk.kind, xycen=[round(xc, 3), round(yc, 3)], nradii=len(radii), r0=round(r0, 3),
                  rmax=round(rmax, 3), method=method, unit=str(unit), **flags)
    digest = core.arr_digest(data, error, mask, radii, np.array(xycen))
    return build, params, digest, radii


def _do(obj, step):
    op = step[0]
    if op == 'read':
        a = step[1]
        if a == 'apertures':
            return list(getattr(obj, a))
        return getattr(obj, a)
    if op == 'normalize':
        return obj.normalize(method=step[1])
    if op == 'unnormalize':
        return obj.unnormalize()
    if op == 'calc_ee_at_radius':
        return obj.calc_ee_at_radius(np.asarray(step[1]))
    if op == 'calc_radius_at_ee':
        return obj.calc_radius_at_ee(np.asarray(step[1]))
    raise RuntimeError(step)


def _val(x):
    return np.asarray(getattr(x, 'value', x), dtype=float)


def _cmp(case, o_live, o_twin, what, mech, rtol=0.0, devname=None):
    """Units first (own `what`), then the numbers."""
    if o_live.ok and o_twin.ok and (hasattr(o_live.value, 'unit') or hasattr(o_twin.value, 'unit')):
        ua = str(getattr(o_live.value, 'unit', None))
        ub = str(getattr(o_twin.value, 'unit', None))
        case.check(ua == ub, what + ':unit', mech, live_unit=ua, twin_unit=ub)
        a, b = O.Out(True, value=_val(o_live.value)), O.Out(True, value=_val(o_twin.value))
        return O.compare(case, a, b, what, mech, rtol=rtol, devname=devname)
    if (o_live.ok and o_twin.ok and isinstance(o_live.value, np.ndarray) and isinstance(o_twin.value, np.ndarray)
            and o_live.value.dtype.kind != o_twin.value.dtype.kind):
        # dtype kind first (own `what`), then the numbers as float64
        case.check(False, what + ':dtype', mech, live=str(o_live.value.dtype), twin=str(o_twin.value.dtype))
        a, b = O.Out(True, value=_val(o_live.value)), O.Out(True, value=_val(o_twin.value))
        return O.compare(case, a, b, what, mech, rtol=rtol, devname=devname)
    return O.compare(case, o_live, o_twin, what, mech, rtol=rtol, devname=devname)


def run(case, kind):
    rng = case.rng
    build, params, digest, radii = gen_config(case, kind)
    reads = ['radius', 'profile', 'profile_error', 'area', 'normalization_value', 'apertures']
    if kind == 'RadialProfile':
        reads += ['data_radius', 'data_profile', 'data_profile', 'gaussian_fit', 'gaussian_profile',
                  'gaussian_fwhm']
    nsteps = int(rng.integers(6, 15))
    steps = []
    for _ in range(nsteps):
        r = rng.random()
        if r < 0.22:
            steps.append(('normalize', str(rng.choice(['max', 'sum']))))
        elif r < 0.34:
            steps.append(('unnormalize',))
        elif r < 0.42 and kind == 'CurveOfGrowth':
            rr = np.round(rng.uniform(radii[0] * 0.5, radii[-1] * 1.1, 3), 3).tolist()
            steps.append(('calc_ee_at_radius', rr))
        elif r < 0.5 and kind == 'CurveOfGrowth':
            steps.append(('calc_radius_at_ee', np.round(rng.uniform(0.05, 1.0, 3), 3).tolist()))
        else:
            steps.append(('read', str(rng.choice(reads))))
    if not any(s[0] == 'normalize' for s in steps):
        steps.insert(int(rng.integers(0, len(steps))), ('normalize', 'max'))
    steps.append(('read', 'data_profile' if (kind == 'RadialProfile' and rng.random() < 0.5) else 'profile'))

    case.params = dict(params, steps=[list(s) for s in steps])
    case.digest = digest + core.digest([list(s) for s in steps])
    case.nontrivial = True

    live = build()
    # E: eager twin
    eager = build()
    eager_attrs = ['radius', 'profile', 'profile_error', 'area']
    if kind == 'RadialProfile':
        eager_attrs += ['data_radius', 'data_profile']
    for a in eager_attrs:
        getattr(eager, a)
    # M: raw arrays of a never-normalised object
    rawobj = build()
    raw = {a: getattr(rawobj, a) for a in eager_attrs}
    N = 1.0                      # harness model of the normalisation value (plain float)
    mutators = []                # mutator steps issued so far
    seen = set()                 # attributes already read on the live object
    gtwin = None                 # G oracle, created at the first gaussian read
    dp_bad = False               # data_profile was first materialised while normalised (sticky)

    for step in steps:
        op = step[0]
        normalized = N != 1.0
        base = {'family': 'profile', 'cls': kind, 'op': op, 'normalized': bool(normalized)}
        if op in ('normalize', 'unnormalize'):
            o_live = O.request(lambda: _do(live, step))
            o_e = O.request(lambda: _do(eager, step))
            O.compare(case, o_live, o_e, 'profile_mutator_vs_eager', base)
            if gtwin is not None:
                _do(gtwin, step)
            mutators.append(step)
            # model
            cur = _val(raw['profile']) / N
            if op == 'normalize':
                with np.errstate(all='ignore'):
                    norm = float(np.nanmax(cur) if step[1] == 'max' else np.nansum(cur))
                if norm != 0 and np.isfinite(norm):     # the library leaves the profile alone otherwise (warning)
                    N = N * norm
            else:
                N = 1.0
            case.note('profile_mutators')
            continue

        attr = step[1] if op == 'read' else op
        first = attr not in seen
        if attr == 'data_profile' and first and normalized:
            dp_bad = True
        mech = dict(base, attr=attr, first_read=bool(first), units=params['unit'] != 'None',
                    int_data=params.get('dtype', 'float64') not in ('float64', 'float32', 'float16'))
        if attr == 'data_profile':
            mech['dp_first_read_normalized'] = bool(dp_bad)
        # data_profile is cached at different times on the live object and on the twins, so after a
        # normalise/unnormalise round trip the two sides did different (equally valid) arithmetic
        rtol = RT_TOL if (attr == 'data_profile' and mutators) else 0.0
        o_live = O.request(lambda: _do(live, step))
        seen.add(attr)
        case.note('profile_reads')

        if attr in GAUSS:
            if gtwin is None:
                gtwin = build()
                for m in mutators:
                    _do(gtwin, m)
            o_g = O.request(lambda: _do(gtwin, step))
            O.compare(case, o_live, o_g, 'profile_gaussian_vs_fresh_at_first_read', mech)
            continue

        o_e = O.request(lambda: _do(eager, step))
        _cmp(case, o_live, o_e, 'profile_vs_eager', mech, rtol=rtol, devname='profile_vs_eager:' + attr)

        if rng.random() < (1.0 if op.startswith('calc_') else 0.5):
            lazy = build()
            for m in mutators:
                _do(lazy, m)
            o_l = O.request(lambda: _do(lazy, step))
            mech_l = dict(mech)
            if attr == 'data_profile':
                mech_l['lazy_twin_dp_first_read_normalized'] = bool(normalized)
            _cmp(case, o_live, o_l, 'profile_vs_lazy_fresh', mech_l, rtol=rtol, devname='profile_vs_lazy:' + attr)

        if o_live.ok and attr in NORMALISED:
            exp = _val(raw[attr]) / N          # units are judged by the twins; the model compares values
            ok, d, why = core.same(_val(o_live.value), exp, rtol=RT_TOL)
            if ok:
                case.dev('profile_vs_model:' + attr, d)
            case.check(ok, 'profile_vs_model', mech, why=why, N=N)
        elif o_live.ok and attr in INDEP:
            ok, d, why = core.same(o_live.value, raw[attr])
            case.check(ok, 'profile_vs_model', mech, why=why)
        elif o_live.ok and attr == 'calc_ee_at_radius':
            # the interpolator of the *current* profile: raw curve of growth / N (scipy primitive, harness-built)
            from scipy.interpolate import PchipInterpolator
            o_m = O.request(lambda: PchipInterpolator(_val(raw['radius']), _val(raw['profile']) / N,
                                                      extrapolate=False)(np.asarray(step[1])),
                            expected=(ValueError,))
            if o_m.ok:
                ok, d, why = core.same(_val(o_live.value), o_m.value, rtol=RT_TOL)
                if ok:
                    case.dev('profile_vs_model:calc_ee_at_radius', d)
                case.check(ok, 'profile_vs_model', mech, why=why, N=N)
        elif o_live.ok and attr == 'normalization_value':
            ok, d, why = core.same(_val(o_live.value), np.asarray(N), rtol=RT_TOL)
            case.dev('profile_vs_model:normalization_value', d)
            case.check(ok, 'profile_vs_model', mech, why=why, N=N)
