"""C11 scene generator and object builder (shared by the check, and by the
opposite-configuration helper process pv.gen.c11_helper).

A *spec* is a plain picklable dict describing one Background2D call:

    data, box, mask, cov, fill, p, fsize, thr,
    sc     : None | dict(sigma, sigma_lower, sigma_upper, maxiters, cenfunc, stdfunc)
    bkg    : (class name | 'func_pct30', kwargs, with_own_clip)
    rms    : (class name | 'func_iqr', kwargs, with_own_clip)
    interp : ('zoom' | 'idw', kwargs)

Nothing here imports photutils at module import time (the bottleneck
configuration is decided before the first photutils/astropy.stats import).
"""
from __future__ import annotations

import numpy as np

BKG_CLASSES = ['MeanBackground', 'MedianBackground', 'ModeEstimatorBackground', 'MMMBackground',
               'SExtractorBackground', 'BiweightLocationBackground', 'func_pct30']
RMS_CLASSES = ['StdBackgroundRMS', 'MADStdBackgroundRMS', 'BiweightScaleBackgroundRMS', 'func_iqr']

CLASSES = ['divides', 'pad_row', 'pad_col', 'pad_corner', 'box_eq_image', 'box_gt_half', 'tiny',
           'whole_box_masked', 'coverage', 'naninf', 'boundary', 'outliers', 'ties', 'float32',
           'int_dtype', 'idw_interp', 'filter', 'filter_thr', 'constant', 'estimators',
           'sigclip_variants']


# ----------------------------------------------------------------------
# user-defined estimator callables (documented as allowed: "a function")
# ----------------------------------------------------------------------
def func_pct30(data, axis=None, masked=False):
    return np.nanpercentile(data, 30.0, axis=axis)


def func_iqr(data, axis=None, masked=False):
    q75 = np.nanpercentile(data, 75.0, axis=axis)
    q25 = np.nanpercentile(data, 25.0, axis=axis)
    return (q75 - q25) / 1.349


def _mk_func(f):
    # a fresh function object per call (Background2D sets attributes on it)
    import types
    g = types.FunctionType(f.__code__, f.__globals__, f.__name__, f.__defaults__, f.__closure__)
    return g


_NAMED_FUNCS = {'np.nanmedian': np.nanmedian, 'np.nanmean': np.nanmean, 'np.nanstd': np.nanstd}


def make_sigma_clip(sc):
    if sc is None:
        return None
    from astropy.stats import SigmaClip
    kw = dict(sc)
    for k in ('cenfunc', 'stdfunc'):
        if kw.get(k) in _NAMED_FUNCS:
            kw[k] = _NAMED_FUNCS[kw[k]]
    return SigmaClip(**kw)


def make_estimator(desc, for_reference=False):
    """Build the estimator object of a spec. `for_reference`: an instance of the same
    class / parameters without own sigma clipping (Background2D documents that the
    estimator's own clipping is ignored)."""
    import photutils.background as pb
    name, kw, own_clip = desc
    if name == 'func_pct30':
        return _mk_func(func_pct30)
    if name == 'func_iqr':
        return _mk_func(func_iqr)
    cls = getattr(pb, name)
    kw = dict(kw)
    if 'M' in kw:
        # python float or numpy scalar as the user passed it; the reference always uses a numpy scalar
        kw['M'] = np.float64(kw['M']) if (for_reference or kw.pop('M_np', False)) else float(kw['M'])
    kw.pop('M_np', None)
    if own_clip and not for_reference:
        return cls(**kw)                      # default ctor: carries its own SigmaClip(3, 10)
    return cls(sigma_clip=None, **kw)


def make_interp(desc):
    import photutils.background as pb
    name, kw = desc
    if name == 'zoom':
        return pb.BkgZoomInterpolator(**kw)
    return pb.BkgIDWInterpolator(**kw)


MASK_DTYPES = ['bool', 'uint8', 'int16', 'int64', 'float64', 'float32']
MASK_LAYOUTS = ['C', 'F', 'view']
PLAIN = ('bool', 'C')


def materialize_mask(m, rep):
    """The array actually handed to Background2D for the boolean mask `m` (kept boolean in the spec for
    the harness): dtype (bool, or a 0/1 integer / float plane as data-quality masks usually are) and
    memory layout (C order, Fortran order, strided view into a larger array)."""
    if m is None:
        return None
    dt, layout = rep
    a = np.asarray(m, bool).astype(dt)
    if layout == 'F':
        a = np.asfortranarray(a)
    elif layout == 'view':
        big = np.ones((2 * a.shape[0] + 1, 2 * a.shape[1] + 3), a.dtype)
        big[1::2, 2:2 * a.shape[1] + 2:2] = a
        a = big[1::2, 2:2 * a.shape[1] + 2:2]
    return a


def _draw_mask_repr(rng, allow_float=True):
    r = rng.random()
    if r < 0.4:
        dt = 'bool'
    else:
        dt = _pick(rng, ['uint8', 'uint8', 'int16', 'int64', 'int64'] + (['float64', 'float32'] if allow_float else []))
    return (dt, _pick(rng, ['C', 'C', 'F', 'view']))


PLAIN_FORMS = dict(box='plain', fsize='plain', p='plain', fill='plain', data='plain', layout='C')


def _pair_form(v, form):
    if form == 'plain':
        return v
    pair = (v, v) if np.isscalar(v) else tuple(v)
    if form == 'list':
        return list(pair)
    if form == 'tuple':
        return tuple(int(x) for x in pair)
    if form == 'array':
        return np.array(pair)
    if form == 'array_int32':
        return np.array(pair, np.int32)
    return (np.int64(pair[0]), np.int16(pair[1]))


def _scalar_form(v, form):
    """Equivalent spelling of a float argument; forms that cannot hold the value exactly fall back."""
    v = float(v)
    if form == 'numpy_float64':
        return np.float64(v)
    if form == 'array_0d':
        return np.array(v)
    if form == 'numpy_float32' and v == v and float(np.float32(v)) == v:
        return np.float32(v)
    if form == 'python_int' and v == v and v == int(v):
        return int(v)
    if form == 'numpy_int' and v == v and v == int(v) and abs(v) < 30000:
        return np.int16(v)
    return v


def materialize_data(data, form, layout):
    a = data.copy()
    if layout == 'F':
        a = np.asfortranarray(a)
    elif layout == 'view':
        big = np.full((2 * a.shape[0] + 1, 2 * a.shape[1] + 3), 7, a.dtype)
        big[1::2, 2:2 * a.shape[1] + 2:2] = a
        a = big[1::2, 2:2 * a.shape[1] + 2:2]
    elif layout == 'big_endian':
        a = a.astype(a.dtype.newbyteorder('>'))
    if form == 'quantity' and a.dtype.kind == 'f':
        import astropy.units as u
        return u.Quantity(a, u.mJy, copy=False)
    if form in ('nddata', 'nddata_unit') or (form == 'quantity' and a.dtype.kind != 'f'):
        import astropy.units as u
        from astropy.nddata import NDData
        return NDData(a, unit=u.adu if form == 'nddata_unit' else None)
    if form == 'list' and a.dtype in (np.dtype('float64'), np.dtype('int64')):
        return a.tolist()          # (a nested list cannot carry any other dtype)
    return a


def expected_unit(spec):
    f = spec.get('forms', PLAIN_FORMS)
    if f['data'] == 'quantity' and spec['data'].dtype.kind == 'f':
        return 'mJy'
    if f['data'] == 'nddata_unit':
        return 'adu'
    return None


def b2d_kwargs(spec, **over):
    s = dict(spec)
    s.update(over)
    f = s.get('forms', PLAIN_FORMS)
    kw = dict(mask=materialize_mask(s['mask'], s.get('mask_repr', PLAIN)),
              coverage_mask=materialize_mask(s['cov'], s.get('cov_repr', PLAIN)),
              fill_value=_scalar_form(s['fill'], f['fill']),
              exclude_percentile=_scalar_form(s['p'], f['p']), filter_size=_pair_form(s['fsize'], f['fsize']),
              filter_threshold=s['thr'], sigma_clip=make_sigma_clip(s['sc']),
              bkg_estimator=make_estimator(s['bkg']), bkgrms_estimator=make_estimator(s['rms']),
              interpolator=make_interp(s['interp']))
    return materialize_data(s['data'], f['data'], f['layout']), _pair_form(s['box'], f['box']), kw


def construct(spec, **over):
    from photutils.background import Background2D
    data, box, kw = b2d_kwargs(spec, **over)
    return Background2D(data, box, **kw)


def outputs(b):
    """Observation points, in the only order that is safe on the unchanged tree
    (background_mesh before background_rms_mesh; the reverse order is C09's defect)."""
    mesh = np.array(b.background_mesh)
    rmesh = np.array(b.background_rms_mesh)
    return dict(mesh=mesh, rmesh=rmesh, npix=np.array(b.npixels_mesh),
                bkg=np.array(b.background), rms=np.array(b.background_rms),
                med=np.array(b.background_median), rmed=np.array(b.background_rms_median),
                units=[str(getattr(getattr(b, n), 'unit', None)) for n in
                       ('background_mesh', 'background_rms_mesh', 'background', 'background_rms',
                        'background_median', 'background_rms_median')])


# ----------------------------------------------------------------------
# generator
# ----------------------------------------------------------------------
def _pick(rng, seq):
    return seq[int(rng.integers(0, len(seq)))]


def _shape_box(rng, cls):
    """Return (ny, nx), (by, bx) for the geometric classes."""
    def dividing():
        by, bx = int(rng.integers(2, 13)), int(rng.integers(2, 13))
        my = int(rng.integers(1, max(2, min(8, 70 // by) + 1)))
        mx = int(rng.integers(1, max(2, min(8, 70 // bx) + 1)))
        if by * my < 3:
            my += 1
        if bx * mx < 3:
            mx += 1
        r = rng.random()
        if r < 0.14:
            # strongly elongated / single-row / single-column images (accepted by the unchanged library)
            by, my = int(_pick(rng, [1, 1, 2, 3])), int(_pick(rng, [1, 1, 1, 2]))
            bx = int(rng.integers(2, 13))
            mx = int(rng.integers(2, max(3, min(10, 70 // bx) + 1)))
            if r < 0.07:
                by, my, bx, mx = bx, mx, by, my
        elif r < 0.30:
            # anisotropic mesh: 1-2 mesh rows x 8-14 mesh columns (or the reverse) with unequal box sides
            by, bx = int(rng.integers(4, 9)), int(rng.integers(2, 6))
            my, mx = int(_pick(rng, [1, 2, 2, 3])), int(rng.integers(8, min(14, 70 // bx) + 1))
            if r < 0.22:
                by, my, bx, mx = bx, mx, by, my
        return (by * my, bx * mx), (by, bx)

    if cls == 'tiny':
        ny, nx = int(rng.integers(3, 9)), int(rng.integers(3, 9))
        by, bx = int(rng.integers(1, ny + 1)), int(rng.integers(1, nx + 1))
        return (ny, nx), (by, bx)
    if cls == 'box_eq_image':
        ny, nx = int(rng.integers(3, 41)), int(rng.integers(3, 41))
        r = rng.random()
        if r < 0.15:
            ny, nx = int(_pick(rng, [1, 1, 2, 3])), int(rng.integers(10, 71))
            if r < 0.07:
                ny, nx = nx, ny
        return (ny, nx), (ny, nx)
    if cls == 'box_gt_half':
        ny, nx = int(rng.integers(5, 61)), int(rng.integers(5, 61))
        by, bx = int(rng.integers(2, min(13, ny) + 1)), int(rng.integers(2, min(13, nx) + 1))
        ax = int(rng.integers(0, 3))
        if ax in (0, 2):
            by = int(rng.integers(ny // 2 + 1, ny + 1))
        if ax in (1, 2):
            bx = int(rng.integers(nx // 2 + 1, nx + 1))
        return (ny, nx), (by, bx)
    (ny, nx), (by, bx) = dividing()
    if cls == 'divides':
        return (ny, nx), (by, bx)
    if cls in ('pad_row', 'pad_corner'):
        if by == 1:
            by, ny = 2, 2 * ny
        ny = min(70, ny + int(_pick(rng, [1, by - 1, int(rng.integers(1, by))])))
    if cls in ('pad_col', 'pad_corner'):
        if bx == 1:
            bx, nx = 2, 2 * nx
        nx = min(70, nx + int(_pick(rng, [1, bx - 1, int(rng.integers(1, bx))])))
    if cls in ('pad_row', 'pad_col', 'pad_corner'):
        # make sure the class is what it says
        if cls in ('pad_row', 'pad_corner') and ny % by == 0:
            ny -= 1
        if cls in ('pad_col', 'pad_corner') and nx % bx == 0:
            nx -= 1
        return (ny, nx), (by, bx)
    # other classes: any geometry; per axis: exact multiple, one pixel more, one pixel less, anything
    def vary(n, b):
        k = int(rng.integers(0, 5))
        if k == 1:
            return min(70, n + 1)
        if k == 2 and n - 1 >= b:
            return n - 1
        if k >= 3:
            return min(70, n + int(rng.integers(0, b)))
        return n
    return (vary(ny, by), vary(nx, bx)), (by, bx)


def _image(rng, shape, kind):
    ny, nx = shape
    yy, xx = np.mgrid[0:ny, 0:nx]
    if kind == 'ties':
        lo = int(rng.integers(-3, 50))
        data = rng.integers(lo, lo + int(rng.integers(2, 6)), size=shape).astype(float)
        if rng.random() < 0.5:
            data *= 0.5
        return data, 1.0
    level = float(_pick(rng, [0.0, 5.0, 100.0, 1000.0, -20.0, 3.25e4]))
    sig = float(_pick(rng, [0.5, 1.0, 3.0, 10.0]))
    gy, gx = rng.normal(0, 0.15, 2) * sig
    data = level + gy * yy + gx * xx + rng.normal(0, sig, shape)
    if kind == 'outliers' or rng.random() < 0.3:
        n = int(rng.integers(1, max(2, ny * nx // 12)))
        iy, ix = rng.integers(0, ny, n), rng.integers(0, nx, n)
        data[iy, ix] += rng.exponential(20 * sig, n) * rng.choice([1, 1, 1, -1], n)
        if rng.random() < 0.5:       # a blob (source)
            cy, cx = rng.uniform(0, ny), rng.uniform(0, nx)
            w = rng.uniform(0.7, 3.0)
            data += 50 * sig * np.exp(-((yy - cy) ** 2 + (xx - cx) ** 2) / (2 * w * w))
    return data, sig


def _mask(rng, shape, box, kind):
    ny, nx = shape
    by, bx = box
    m = np.zeros(shape, bool)
    if kind == 'none':
        return None
    if kind == 'sparse':
        return rng.random(shape) < float(_pick(rng, [0.02, 0.08, 0.2, 0.5]))
    if kind == 'blobs':
        for _ in range(int(rng.integers(1, 5))):
            y0, x0 = int(rng.integers(0, ny)), int(rng.integers(0, nx))
            h, w = int(rng.integers(1, max(2, ny // 2))), int(rng.integers(1, max(2, nx // 2)))
            m[y0:y0 + h, x0:x0 + w] = True
        return m
    if kind == 'boxes':        # whole boxes (incl. edge boxes) masked
        my, mx = -(-ny // by), -(-nx // bx)
        nb = int(rng.integers(1, max(2, (my * mx * 2) // 3 + 1)))
        for _ in range(nb):
            j, i = int(rng.integers(0, my)), int(rng.integers(0, mx))
            m[j * by:(j + 1) * by, i * bx:(i + 1) * bx] = True
        if rng.random() < 0.5:
            m |= rng.random(shape) < 0.03
        return m
    if kind == 'rows':
        r = rng.integers(0, ny, int(rng.integers(1, max(2, ny // 3))))
        m[r, :] = True
        return m
    raise ValueError(kind)


def _coverage(rng, shape):
    ny, nx = shape
    yy, xx = np.mgrid[0:ny, 0:nx]
    k = int(rng.integers(0, 4))
    if k == 0:     # wedge
        a = rng.uniform(0.2, 1.5)
        return (yy + a * xx) < rng.uniform(0.1, 0.6) * (ny + a * nx) * 0.5
    if k == 1:     # border band
        w = int(rng.integers(1, max(2, min(ny, nx) // 3)))
        c = np.ones(shape, bool)
        c[w:ny - w, w:nx - w] = False
        if c.all():
            c[ny // 2, nx // 2] = False
        return c
    if k == 2:     # right/top strip
        c = np.zeros(shape, bool)
        c[:, nx - int(rng.integers(1, max(2, nx // 2))):] = True
        return c
    return rng.random(shape) < 0.1


def _sigclip(rng, variants=False):
    if not variants:
        r = rng.random()
        if r < 0.55:
            return dict(sigma=3.0, maxiters=10)
        if r < 0.75:
            return None
    d = dict(sigma=float(_pick(rng, [1.5, 2.0, 2.5, 3.0, 4.0])),
             maxiters=_pick(rng, [1, 2, 5, 10, None]),
             cenfunc=_pick(rng, ['median', 'median', 'mean', 'np.nanmedian', 'np.nanmean']),
             stdfunc=_pick(rng, ['std', 'std', 'mad_std', 'np.nanstd']))
    if rng.random() < 0.4:
        d['sigma_lower'] = float(_pick(rng, [1.5, 2.0, 3.0, 5.0]))
        d['sigma_upper'] = float(_pick(rng, [1.5, 2.0, 3.0, 5.0]))
    return d


def _estimators(rng, equivariant=True, idx=None):
    if idx is None:
        bname = _pick(rng, BKG_CLASSES)
        rname = _pick(rng, RMS_CLASSES)
    else:
        bname = BKG_CLASSES[idx % len(BKG_CLASSES)]
        rname = RMS_CLASSES[(idx // len(BKG_CLASSES)) % len(RMS_CLASSES)]
    bkw, rkw = {}, {}
    if bname == 'ModeEstimatorBackground':
        mf = float(_pick(rng, [3.0, 2.5, 2.0, 1.0]))
        # median_factor - mean_factor == 1 keeps the estimator translation equivariant
        bkw = dict(median_factor=mf, mean_factor=mf - 1.0)
        if not equivariant and rng.random() < 0.5:
            bkw = dict(median_factor=mf, mean_factor=float(_pick(rng, [0.5, 1.0, 2.0])))
    if bname == 'BiweightLocationBackground':
        bkw = dict(c=float(_pick(rng, [6.0, 4.0, 9.0])))
    if rname == 'BiweightScaleBackgroundRMS':
        rkw = dict(c=float(_pick(rng, [9.0, 6.0])))
    own_b = bool(rng.random() < 0.3)
    own_r = bool(rng.random() < 0.3)
    return (bname, bkw, own_b), (rname, rkw, own_r)


def _exclude_p(rng):
    r = rng.random()
    if r < 0.35:
        return 10.0
    if r < 0.7:
        return float(_pick(rng, [0.0, 5.0, 20.0, 25.0, 40.0, 50.0, 60.0, 75.0, 90.0, 100.0]))
    return float(np.round(rng.uniform(0, 100), int(rng.integers(0, 3))))


def _fsize(rng, force=False):
    if not force and rng.random() < 0.45:
        return 1
    return _pick(rng, [3, 3, 5, (1, 3), (3, 1), (3, 5), (5, 3), (1, 5), (5, 1), (7, 3), (3, 7)])


def make_scene(rng, cls):
    """Return (spec, meta). meta: relation hints + human readable parameters."""
    meta = {'equivariant': True, 'const': None}
    shape, box = _shape_box(rng, cls)
    if cls == 'idw_interp':
        # BkgIDWInterpolator loops over pixels in Python: keep images small
        while shape[0] * shape[1] > 900:
            shape, box = _shape_box(rng, cls)
    ny, nx = shape
    by, bx = box
    kind = 'ties' if cls == 'ties' else ('outliers' if cls == 'outliers' else 'noise')
    data, sig = _image(rng, shape, kind)

    mkind = _pick(rng, ['none', 'none', 'sparse', 'sparse', 'blobs', 'boxes', 'rows'])
    if cls == 'whole_box_masked':
        mkind = 'boxes'
    mask = _mask(rng, shape, box, mkind)
    cov = None
    if cls == 'coverage' or rng.random() < 0.2:
        cov = _coverage(rng, shape)
    fill = float(_pick(rng, [0.0, 0.0, -1.0, 0.5, 1024.0, 99.0]))
    if cov is not None and cls == 'coverage' and rng.random() < 0.15:
        fill = float('nan')
    p = _exclude_p(rng)
    sc = _sigclip(rng, variants=(cls == 'sigclip_variants'))
    bkg, rms = _estimators(rng, equivariant=True)
    if cls == 'estimators':
        idx = int(rng.integers(0, len(BKG_CLASSES) * len(RMS_CLASSES)))
        equiv = bool(rng.random() < 0.6)
        bkg, rms = _estimators(rng, equivariant=equiv, idx=idx)
        if not equiv:
            if bkg[0] == 'BiweightLocationBackground' and rng.random() < 0.5:
                bkg = (bkg[0], dict(bkg[1], M=float(np.median(data)) + 0.3, M_np=bool(rng.random() < 0.5)), bkg[2])
            if rms[0] == 'BiweightScaleBackgroundRMS' and rng.random() < 0.5:
                rms = (rms[0], dict(rms[1], M=float(np.median(data)) - 0.2, M_np=bool(rng.random() < 0.5)), rms[2])
            mf = bkg[1].get('median_factor')
            meta['equivariant'] = not (('M' in bkg[1]) or ('M' in rms[1])
                                       or (mf is not None and mf - bkg[1]['mean_factor'] != 1.0))
    interp = ('zoom', {})
    r = rng.random()
    if cls == 'idw_interp' or (r < 0.08 and ny * nx <= 600):
        ikw = {}
        if rng.random() < 0.5:
            ikw = dict(n_neighbors=int(_pick(rng, [1, 2, 3, 5, 10, 12])),
                       power=float(_pick(rng, [1.0, 2.0, 0.5])),
                       reg=float(_pick(rng, [0.0, 0.0, 0.5])),
                       leafsize=int(_pick(rng, [10, 2, 30])))
        interp = ('idw', ikw)
    elif r < 0.3:
        interp = ('zoom', dict(order=int(_pick(rng, [0, 1, 2, 3, 4, 5])),
                               mode=_pick(rng, ['reflect', 'nearest', 'constant', 'wrap']),
                               cval=float(_pick(rng, [0.0, 7.0])),
                               clip=bool(rng.random() < 0.7)))
    fsize = _fsize(rng, force=cls in ('filter', 'filter_thr'))
    thr_mode = None
    if cls == 'filter_thr' or (fsize != 1 and rng.random() < 0.2):
        thr_mode = _pick(rng, ['below', 'above', 'mid', 'mid', 'mid', 'tie', 'tie'])

    # NaN / inf in the data
    if cls == 'naninf' or rng.random() < 0.1:
        r = rng.random(shape)
        f = float(_pick(rng, [0.02, 0.1, 0.3]))
        data[r < f * 0.5] = np.nan
        data[(r >= f * 0.5) & (r < f * 0.8)] = np.inf
        data[(r >= f * 0.8) & (r < f)] = -np.inf
        if rng.random() < 0.3:       # a whole box of NaN
            j, i = int(rng.integers(0, -(-ny // by))), int(rng.integers(0, -(-nx // bx)))
            data[j * by:(j + 1) * by, i * bx:(i + 1) * bx] = np.nan

    if cls == 'boundary':
        # exact boundary fractions: no clipping, a chosen number of masked pixels per box
        sc = None if rng.random() < 0.8 else sc
        N = by * bx
        mode = _pick(rng, ['p0_clean', 'exact', 'exact', 'exact', 'pad_exact', 'p100'])
        mask = np.zeros(shape, bool)
        cov = None if rng.random() < 0.8 else cov
        finite = np.isfinite(data)
        data[~finite] = 0.0
        if mode == 'p0_clean':
            p = 0.0
            if rng.random() < 0.5:          # a few dirty boxes, the others clean
                mask = rng.random(shape) < 0.01
            else:
                mask = None
        elif mode == 'p100':
            p = 100.0
            mask = _mask(rng, shape, box, 'boxes')
        else:
            nm = int(rng.integers(0, N + 1))
            if mode == 'pad_exact' and (ny % by or nx % bx):
                # p equals the padded fraction of an edge box
                if ny % by:
                    nm = (by - ny % by) * bx
                else:
                    nm = (bx - nx % bx) * by
            cand = [k for k in range(N + 1) if (100 * k) % N == 0]      # integer percentages
            if mode == 'exact' and rng.random() < 0.7:
                nm = int(_pick(rng, cand))
            p = 100.0 * nm / N
            my, mx = -(-ny // by), -(-nx // bx)
            for j in range(my):
                for i in range(mx):
                    sub = mask[j * by:(j + 1) * by, i * bx:(i + 1) * bx]
                    npad = N - sub.size
                    want = nm + int(_pick(rng, [0, 0, 0, -1, 1, -2, 2]))   # at / just around the boundary
                    k = min(max(want - npad, 0), sub.size)
                    flat = np.zeros(sub.size, bool)
                    flat[rng.permutation(sub.size)[:k]] = True
                    sub[...] = flat.reshape(sub.shape)
        meta['boundary_mode'] = mode

    if cls == 'constant':
        c = float(_pick(rng, [0.0, 1.0, 7.0, -3.0, 0.5, 1234.25, 2.0 ** 20, 0.1, 1 / 3.0, 1e-3, -17.3]))
        finite = np.isfinite(data)
        data = np.where(finite, c, data)
        meta['const'] = c

    # dtype
    dt = 'float64'
    if cls == 'float32' or (cls not in ('int_dtype', 'ties', 'constant') and rng.random() < 0.06):
        dt = 'float32'
    if cls == 'int_dtype' or (cls not in ('float32', 'ties', 'constant', 'boundary') and rng.random() < 0.05):
        dt = _pick(rng, ['int32', 'int64', 'uint16', 'int16', 'uint8', 'int8', 'uint32', 'uint64', 'uint16', 'uint8'])
        if dt in ('int32', 'uint32', 'int64', 'uint64') and rng.random() < 0.3:
            meta['int_big'] = float(_pick(rng, [2.0 ** 22, 5e6, 2.0 ** 26, 1e9, 2.0 ** 30] if dt in ('int32', 'uint32')
                                          else [5e6, 2.0 ** 31 + 12345.0, 2.0 ** 40, 2.0 ** 52]))
    meta['float16'] = bool(dt == 'float64' and cls not in ('ties', 'constant', 'boundary') and rng.random() < 0.02)

    # ONE-SIDED BORDERS (any class): a bright or masked strip / corner patch at exactly one border or corner
    meta['border'] = None
    if rng.random() < 0.3 and cls not in ('boundary', 'constant'):
        side = _pick(rng, ['left', 'right', 'bottom', 'top', 'bottom_left', 'bottom_right', 'top_left', 'top_right'])
        wy = int(rng.integers(1, max(2, min(ny, by + 1))))
        wx = int(rng.integers(1, max(2, min(nx, bx + 1))))
        ys = slice(0, wy) if 'bottom' in side else (slice(ny - wy, ny) if 'top' in side else slice(0, ny))
        xs = slice(0, wx) if 'left' in side else (slice(nx - wx, nx) if 'right' in side else slice(0, nx))
        what = _pick(rng, ['bright', 'bright', 'masked', 'bright_masked', 'coverage'])
        if 'bright' in what:
            data[ys, xs] += float(_pick(rng, [5.0, 30.0, 300.0])) * sig
        if 'masked' in what:
            mask = np.zeros(shape, bool) if mask is None else mask.copy()
            mask[ys, xs] = True
        if what == 'coverage':
            cov = np.zeros(shape, bool) if cov is None else cov.copy()
            cov[ys, xs] = True
        meta['border'] = side + ':' + what
    # masks that are given but all False
    if mask is None and rng.random() < 0.04:
        mask = np.zeros(shape, bool)
        meta['mask_all_false'] = True
    if cov is None and rng.random() < 0.03:
        cov = np.zeros(shape, bool)
        meta['cov_all_false'] = True

    # DEGENERATE inputs (any class): rarely used branches
    meta['degenerate'] = None
    if rng.random() < 0.07 and cls != 'boundary':
        my_, mx_ = -(-ny // by), -(-nx // bx)
        mode = _pick(rng, ['one_box_left', 'one_box_left', 'all_masked', 'coverage_all', 'coverage_whole_boxes',
                           'mask_all_but_one_pixel_per_box'])
        meta['degenerate'] = mode
        if mode == 'one_box_left':
            j, i = int(rng.integers(0, my_)), int(rng.integers(0, mx_))
            m2 = np.ones(shape, bool)
            m2[j * by:(j + 1) * by, i * bx:(i + 1) * bx] = False
            if rng.random() < 0.5:
                mask = m2 if mask is None else (mask | m2)
            else:
                cov = m2
            p = float(_pick(rng, [p, 100.0, 100.0, 99.0]))
        elif mode == 'all_masked':
            mask = np.ones(shape, bool)
        elif mode == 'coverage_all':
            cov = np.ones(shape, bool)
        elif mode == 'coverage_whole_boxes':
            cov = _mask(rng, shape, box, 'boxes')
        else:
            m2 = np.ones(shape, bool)
            for j in range(my_):
                for i in range(mx_):
                    sub = m2[j * by:(j + 1) * by, i * bx:(i + 1) * bx]
                    sub.flat[int(rng.integers(0, sub.size))] = False
            mask = m2
            p = 100.0

    # MAGNITUDE (any class, about half of the floating cases stay plain): overall scale 2**-60..2**40 or
    # 1e-20..1e10 and / or a pedestal with level/noise up to 1e9 (float64) or 1e3 (float32). The transform
    # data -> s * (data + pedestal) is applied to everything value-like derived from the data (M, constant).
    mag_s, mag_ped, mag_kind = 1.0, 0.0, 'plain'
    if dt in ('float64', 'float32') and rng.random() < 0.5:
        mag_kind = _pick(rng, ['scale_pow2', 'scale_pow2', 'scale_dec', 'pedestal', 'pedestal', 'both'])
        f32 = dt == 'float32'
        if mag_kind in ('scale_pow2', 'both'):
            mag_s = 2.0 ** int(rng.integers(-40, 31) if f32 else rng.integers(-60, 41))
        elif mag_kind == 'scale_dec':
            mag_s = 10.0 ** int(rng.integers(-12, 9) if f32 else rng.integers(-20, 11))
        if mag_kind in ('pedestal', 'both'):
            ratio = float(_pick(rng, [30.0, 1e2, 1e3] if f32 else [1e3, 1e5, 1e7, 1e8, 1e9]))
            mag_ped = float(np.round(ratio * sig * float(_pick(rng, [1.0, 1.0, -1.0]))))
            meta['pedestal_ratio'] = ratio

        def tr(x):
            return mag_s * (x + mag_ped)
        data = tr(data)
        for d_ in (bkg[1], rms[1]):
            if 'M' in d_:
                d_['M'] = float(tr(d_['M']))
        if meta['const'] is not None:
            meta['const'] = float(mag_s * meta['const'])
            data = np.where(np.isfinite(data), meta['const'], data)
    meta['mag'] = mag_kind
    meta['mag_scale'] = mag_s
    meta['unit'] = mag_s * sig            # noise amplitude of the generated image

    if dt == 'float32':
        # multiples of unit/64 so that float32 shifts by dyadic multiples of the unit are exact
        if mag_kind == 'scale_dec':
            data = data.astype(np.float32)
        else:
            q = mag_s / 64.0
            data = (np.round(data / q) * q).astype(np.float32)
        fill = float(np.float32(fill))
    elif dt != 'float64':
        info = np.iinfo(dt)
        d = np.where(np.isfinite(data), data, 0.0)
        if info.min == 0 or rng.random() < 0.6:
            d = np.abs(d)
        d = d * (1.0 if np.abs(d).max() > 50 else 10.0)
        big = meta.get('int_big')
        if big is not None:
            # values that need more than the 24-bit mantissa of float32
            d = d - np.median(d) + big
        elif info.bits == 8:
            d = d - np.median(d) + float(_pick(rng, [40.0, 100.0, 200.0] if info.min == 0 else [0.0, 60.0, -60.0]))
        elif rng.random() < 0.15:
            # near the limits of the dtype
            d = d - np.median(d) + (info.max - 40.0 if rng.random() < 0.6 or info.min == 0 else info.min + 40.0)
        lo, hi = max(info.min, -2.0 ** 62), min(info.max, 2.0 ** 62)
        data = np.clip(np.rint(d), lo, hi)
        if info.bits >= 16 and big is None:
            data = np.clip(data, max(lo, -30000 if info.bits == 16 else lo), hi)
        data = data.astype(dt)
        if fill != fill:
            fill = 0.0
        fill = float(int(fill))
        if info.min == 0 and fill < 0:
            fill = 0.0
        if info.bits == 8:
            fill = float(min(fill, 99.0))

    spec = dict(data=data, box=(by, bx) if (by != bx or rng.random() < 0.5) else by,
                mask=mask, cov=cov, fill=fill, p=p, fsize=fsize, thr=None, sc=sc,
                bkg=bkg, rms=rms, interp=interp)
    # representation of the two masks, drawn independently in every class. `mask` is accepted by the
    # unchanged library in any numeric dtype (non-zero = masked); a floating coverage_mask is rejected
    # (IndexError when the map is built), so coverage_mask is drawn from bool and the integer dtypes.
    spec['mask_repr'] = _draw_mask_repr(rng, allow_float=True)
    spec['cov_repr'] = _draw_mask_repr(rng, allow_float=True)
    # CALL FORM of the scalar / pair arguments and container / layout of the data, drawn independently
    forms = dict(box='plain', fsize='plain', p='plain', fill='plain', data='plain', layout='C')
    if rng.random() < 0.5:
        pair_forms = ['plain', 'list', 'tuple', 'array', 'array_int32', 'numpy_scalars']
        scalar_forms = ['plain', 'python_int', 'numpy_float64', 'numpy_float32', 'array_0d', 'numpy_int']
        forms['box'] = _pick(rng, pair_forms)
        forms['fsize'] = _pick(rng, pair_forms)
        forms['p'] = _pick(rng, scalar_forms)
        forms['fill'] = _pick(rng, scalar_forms)
        forms['data'] = _pick(rng, ['plain', 'plain', 'quantity', 'quantity', 'nddata', 'nddata_unit', 'list'])
        if forms['data'] == 'list' and rng.random() < 0.7:
            forms['data'] = 'plain'
        forms['layout'] = _pick(rng, ['C', 'F', 'view', 'big_endian', 'C'])
    spec['forms'] = forms
    meta.update(thr_mode=thr_mode, dtype=dt, shape=[ny, nx], box=[by, bx])
    return spec, meta


def describe(spec, meta):
    return dict(shape=meta['shape'], box=meta['box'], dtype=meta['dtype'],
                mask=None if spec['mask'] is None else int(spec['mask'].sum()),
                cov=None if spec['cov'] is None else int(spec['cov'].sum()),
                mask_repr=list(spec.get('mask_repr', PLAIN)) if spec['mask'] is not None else None,
                cov_repr=list(spec.get('cov_repr', PLAIN)) if spec['cov'] is not None else None,
                fill=spec['fill'], p=spec['p'], fsize=spec['fsize'], thr_mode=meta['thr_mode'],
                forms=spec.get('forms'), mag=[meta.get('mag'), meta.get('mag_scale'), meta.get('pedestal_ratio')],
                degenerate=meta.get('degenerate'), border=meta.get('border'), int_big=meta.get('int_big'),
                float16=meta.get('float16'),
                sc=spec['sc'], bkg=[spec['bkg'][0], spec['bkg'][1], spec['bkg'][2]],
                rms=[spec['rms'][0], spec['rms'][1], spec['rms'][2]],
                interp=[spec['interp'][0], spec['interp'][1]],
                nonfinite=int((~np.isfinite(spec['data'])).sum()) if spec['data'].dtype.kind == 'f' else 0)
