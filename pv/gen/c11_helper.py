"""C11 opposite-configuration helper process.

Started by pv.checks.c11.setup() with PV_NO_BOTTLENECK set to the opposite of
the worker's own configuration. Protocol on stdin/stdout: 8-byte little-endian
length + pickle. Request: a spec dict (pv.gen.c11_scenes). Reply: dict with the
observation points, or {'error': 'Type: msg'}; first message sent is the
configuration report.
"""
from __future__ import annotations

import os
import pickle
import struct
import sys
import warnings


def disable_bottleneck_if_requested():
    """Must run before photutils / astropy.stats are imported."""
    off = os.environ.get('PV_NO_BOTTLENECK') == '1'
    pre = [m for m in ('bottleneck', 'photutils', 'astropy.stats') if m in sys.modules]
    if off:
        sys.modules['bottleneck'] = None      # `import bottleneck` now raises ImportError
    return off, pre


def config_report(off, pre):
    import numpy as np
    import astropy.stats.nanfunctions as anf
    import photutils.background.core as pbc
    import photutils.utils._optional_deps as od
    import photutils.utils._stats as st
    rep = dict(requested_off=bool(off), preimported=pre,
               photutils_HAS_BOTTLENECK=bool(od.HAS_BOTTLENECK),
               astropy_HAS_BOTTLENECK=bool(anf.HAS_BOTTLENECK),
               stats_has_bn_funcs=hasattr(st, 'bn_funcs'),
               core_nanmean_is_numpy=pbc.nanmean is np.nanmean,
               photutils_file=os.path.dirname(pbc.__file__))
    on = rep['photutils_HAS_BOTTLENECK']
    rep['consistent'] = (on == rep['astropy_HAS_BOTTLENECK'] == rep['stats_has_bn_funcs']
                         and on != rep['core_nanmean_is_numpy'] and on != bool(off) and not pre)
    return rep


def _send(out, obj):
    b = pickle.dumps(obj, protocol=4)
    out.write(struct.pack('<Q', len(b)))
    out.write(b)
    out.flush()


def _recv(inp):
    h = inp.read(8)
    if len(h) < 8:
        return None
    n = struct.unpack('<Q', h)[0]
    return pickle.loads(inp.read(n))


def main():
    off, pre = disable_bottleneck_if_requested()
    inp, out = sys.stdin.buffer, sys.stdout.buffer
    sys.stdout = sys.stderr          # nothing else may write to the pipe
    warnings.simplefilter('ignore')
    import numpy as np
    np.seterr(all='ignore')
    from pv.gen import c11_scenes as scenes
    _send(out, config_report(off, pre))
    while True:
        spec = _recv(inp)
        if spec is None:
            return 0
        try:
            with warnings.catch_warnings():
                warnings.simplefilter('ignore')
                res = scenes.outputs(scenes.construct(spec))
        except Exception as exc:  # noqa: BLE001
            res = {'error': f'{type(exc).__name__}: {str(exc)[:200]}'}
        _send(out, res)


if __name__ == '__main__':
    sys.exit(main())
