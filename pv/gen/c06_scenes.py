"""C06 scene generator: blended scenes + arguments for deblend_sources.

Pure numpy; never imports photutils. A *scene* is a dict

    data      2-D float (or int) image handed to detect_sources/deblend_sources
    thr       detection threshold (float)
    mask      optional bool mask for detect_sources
    conn      4 | 8 (used for detection AND deblending)
    npix_det  npixels of detect_sources
    kw        dict(npixels, nlevels, contrast, mode, relabel) for deblend_sources
    post      list of label manipulations applied (by the check) to the detect_sources output
              before deblending: ('remove', frac) ('remap', kind, top) ('merge', k) ('dtype', name, near_top)
    labels    None | spec how to draw the `labels=` argument ('int'|'list'|'tuple'|'array'|'unsorted'|'dups'|'all')
    flags     dict of structural facts (for params / mechanism keys)

All randomness comes from the numpy Generator passed in.
"""
from __future__ import annotations

import numpy as np

MODES = ('exponential', 'linear', 'sinh')
# degenerate control-flow paths of deblend_sources (class 'degenerate'); the area/labels-dependent ones are
# finished by degenerate_args() once the real label areas are known
DEGENERATE = ('all_small',          # every source is below 2*npixels: no candidate
              'huge_npixels',       # npixels far above every area: no candidate
              'subset_small',       # labels= names only sources below 2*npixels: no candidate
              'empty_labels',       # labels=[] / () / empty array: no candidate
              'one_candidate',      # exactly one source passes the area filter (by npixels)
              'one_candidate_subset',   # exactly one requested label passes the area filter
              'no_split_contrast',  # candidates exist but contrast ~ 1 prunes every split
              'no_split_nlevels1',  # nlevels=1 and a high contrast
              'flat_only',          # only constant-valued candidates (source_min == source_max)
              'contrast_one',       # the documented early return
              'empty_image')        # a label array without any label (e.g. after remove_labels of all)


def degenerate_args(rng, kind, labs, areas, kw):
    """npixels / labels= that realise `kind` for the actual label areas. Returns (kw, labels_arg or
    the string 'keep', requested list or None)."""
    kw = dict(kw)
    labs = np.asarray(labs)
    areas = np.asarray(areas)
    if labs.size == 0:
        return kw, 'keep', None
    order = np.argsort(areas, kind='stable')
    if kind in ('all_small', 'huge_npixels'):
        amax = int(areas.max())
        kw['npixels'] = amax // 2 + 1 if kind == 'all_small' or rng.random() < 0.3 \
            else amax + int(rng.integers(1, 5000))
        return kw, 'keep', None
    if kind == 'subset_small':
        k = int(rng.integers(0, labs.size))
        kw['npixels'] = int(areas[order[k]]) // 2 + 1          # labels order[:k+1] are all too small
        small = labs[order[:k + 1]]
        sub = rng.permutation(small)[:int(rng.integers(1, small.size + 1))]
        form = int(rng.integers(0, 4))
        if form == 0 and sub.size == 1:
            return kw, int(sub[0]), [int(sub[0])]
        arg = [[int(v) for v in sub], tuple(int(v) for v in sub), sub.astype(np.int64),
               np.sort(sub).astype(np.int32)][form]
        return kw, arg, [int(v) for v in np.asarray(arg).tolist()]
    if kind == 'empty_labels':
        arg = [[], (), np.array([], dtype=np.int64), np.array([], dtype=np.int32)][int(rng.integers(0, 4))]
        return kw, arg, []
    if kind == 'one_candidate':
        if labs.size >= 2:
            second, first = int(areas[order[-2]]), int(areas[order[-1]])
            npix = second // 2 + 1
            if first >= 2 * npix:
                kw['npixels'] = npix
                return kw, 'keep', None
        kind = 'one_candidate_subset'
    if kind == 'one_candidate_subset':
        ok = labs[areas >= 2 * kw['npixels']]
        if ok.size == 0:
            kw['npixels'] = max(1, int(areas.max()) // 2)
            ok = labs[areas >= 2 * kw['npixels']]
        big = int(rng.choice(ok))
        small = labs[areas < 2 * kw['npixels']]
        extra = rng.permutation(small)[:int(rng.integers(0, small.size + 1))] if small.size else small
        sub = rng.permutation(np.concatenate([[big], extra]).astype(np.int64))
        arg = [int(v) for v in sub] if rng.random() < 0.5 else sub
        if sub.size == 1 and rng.random() < 0.3:
            arg = big
        return kw, arg, [int(v) for v in sub]
    return kw, 'keep', None
CONTRASTS = (0.0, 1e-3, 0.1, 0.5, 1.0)


def _gauss(xx, yy, x0, y0, sx, sy, th, amp):
    c, s = np.cos(th), np.sin(th)
    xr = (xx - x0) * c + (yy - y0) * s
    yr = -(xx - x0) * s + (yy - y0) * c
    return amp * np.exp(-0.5 * ((xr / sx) ** 2 + (yr / sy) ** 2))


def _cells(rng, ny, nx, cell):
    """Cell centres of a jittered grid."""
    out = []
    for j in range(ny):
        for i in range(nx):
            out.append(((i + 0.5) * cell + rng.uniform(-2, 2), (j + 0.5) * cell + rng.uniform(-2, 2)))
    return out


def render(rng, contents, cell=24, grid=None, elong=True, parity=None):
    """Render a list of cell contents ('blend'|'iso'|'tiny'|'plateau'|'empty') on a jittered grid."""
    n = len(contents)
    if grid is None:
        nx = int(np.ceil(np.sqrt(n)))
        ny = int(np.ceil(n / nx))
    else:
        ny, nx = grid
    shape = (ny * cell, nx * cell)
    yy, xx = np.mgrid[:shape[0], :shape[1]].astype(float)
    img = np.zeros(shape)
    centres = _cells(rng, ny, nx, cell)
    order = rng.permutation(len(centres))
    ncomp = []
    for what, ci in zip(contents, order):
        x0, y0 = centres[ci]
        if parity:
            # (ix) centres exactly on a pixel centre (k) or a pixel corner (k + 0.5), even and odd k;
            # '*_equal': equal, round components at integer offsets -> exactly symmetric saddles / ties
            off = 0.5 if parity.startswith('half') else 0.0
            x0, y0 = float(np.floor(x0)) + off, float(np.floor(y0)) + off
        if what == 'blend':
            k = int(rng.integers(2, 5))
            s0 = rng.uniform(1.1, 2.2)
            amp0 = 10.0 ** rng.uniform(0.5, 2.0)
            for g in range(k):
                s = s0 * rng.uniform(0.8, 1.25)
                if g == 0:
                    dx = dy = 0.0
                else:
                    r = rng.uniform(1.8, 4.0) * s0
                    a = rng.uniform(0, 2 * np.pi)
                    dx, dy = r * np.cos(a), r * np.sin(a)
                q = rng.uniform(0.6, 1.0) if elong else 1.0
                amp = 10.0 ** rng.uniform(0.5, 2.0)
                if parity:
                    dx, dy = float(np.round(dx)), float(np.round(dy))
                    if parity.endswith('equal'):
                        s, q, amp = s0, 1.0, amp0
                img += _gauss(xx, yy, x0 + dx, y0 + dy, s, s * q, rng.uniform(0, np.pi), amp)
            ncomp.append(k)
        elif what == 'iso':
            s = rng.uniform(1.0, 2.5)
            img += _gauss(xx, yy, x0, y0, s, s * rng.uniform(0.6, 1.0), rng.uniform(0, np.pi),
                          10.0 ** rng.uniform(0.3, 1.8))
            ncomp.append(1)
        elif what == 'tiny':
            s = rng.uniform(0.45, 0.8)
            img += _gauss(xx, yy, x0, y0, s, s, 0.0, rng.uniform(1.0, 4.0))
            ncomp.append(1)
        elif what == 'plateau':
            # constant-valued region: source_min == source_max
            r = rng.uniform(2.0, 5.0)
            val = float(rng.integers(2, 9))
            if rng.random() < 0.5:
                sel = (xx - x0) ** 2 + (yy - y0) ** 2 <= r * r
            else:
                sel = (np.abs(xx - x0) <= r) & (np.abs(yy - y0) <= r * rng.uniform(0.4, 1.0))
            img[sel] = val
            ncomp.append(0)
    return img, ncomp


LABEL_FORMS = ('int', 'npint', 'npsmall', 'zero_d', 'list', 'list_np', 'tuple', 'array', 'unsorted', 'descending',
               'dups', 'all')
LAYOUTS = ('F', 'strided', 'transposed', 'offset', 'bigendian')
EDGES = ('left', 'right', 'bottom', 'top', 'bottom_left', 'bottom_right', 'top_left', 'top_right')


def draw_axes(rng, cls):
    """Generic axes drawn independently of the generator class (about half of the cases stay plain)."""
    ax = {}
    if rng.random() < 0.5:
        return ax
    p = 0.4
    if rng.random() < p and cls not in ('hostile',):
        if rng.random() < 0.5:
            ax['scale'] = ('pow2', int(rng.integers(-60, 41)))
        else:
            ax['scale'] = ('dec', float(10.0 ** rng.uniform(-20, 10)))
    if rng.random() < p:
        ax['data_layout'] = str(rng.choice(LAYOUTS))
    if rng.random() < p:
        ax['seg_layout'] = str(rng.choice(LAYOUTS))
    if rng.random() < 0.3 and cls not in ('hostile',):
        ax['data_dtype'] = str(rng.choice(['float32', 'float32', 'float16', 'int32', 'int64', 'int16', 'uint8',
                                           'uint16', 'uint32', 'uint64']))
    if rng.random() < p and cls not in ('nmarkers',):
        ax['shape'] = str(rng.choice(['wide', 'tall', '1xN', 'Nx1']))
    if rng.random() < p:
        ax['forms'] = {
            'npixels': str(rng.choice(['int', 'np.int64', 'np.int32', 'np.intp', 'np.uint8', 'zero_d', 'positional'])),
            'nlevels': str(rng.choice(['int', 'np.int64', 'np.int32', 'np.uint8', 'zero_d'])),
            'contrast': str(rng.choice(['float', 'np.float64', 'np.float32', 'zero_d'])),
            'connectivity': str(rng.choice(['int', 'np.int64'])),
            'relabel': str(rng.choice(['bool', 'np.bool_', 'int'])),
            'mode': str(rng.choice(['str', 'np.str_'])),
            'nproc': str(rng.choice(['int', 'np.int64'])),
        }
    if rng.random() < p:
        ax['labels_form'] = str(rng.choice(LABEL_FORMS))
    # ---- second list (generic_axes2.txt) ----
    if rng.random() < 0.5:
        ax['provenance'] = True              # (x) the input SegmentationImage gets a history (see c06._with_history)
    if rng.random() < 0.3 and cls not in ('nmarkers',) and ax.get('shape') not in ('1xN', 'Nx1'):
        ax['edge'] = str(rng.choice(EDGES))  # (viii) sources cut by one border / corner
    if rng.random() < 0.3 and cls not in ('nmarkers',):
        ax['parity'] = str(rng.choice(['int', 'half', 'int_equal', 'half_equal']))   # (ix)
    if rng.random() < 0.2:
        ax['allfalse_mask'] = True           # (xi) a caller-owned all-False mask for detection / SourceFinder
    return ax


def render_1d(rng, contents, cell=24):
    """A 1 x N profile: the same cell contents along one row (sigma in pixels along the row)."""
    n = len(contents)
    N = n * cell
    xx = np.arange(N, dtype=float)
    img = np.zeros(N)
    ncomp = []
    order = rng.permutation(n)
    for what, ci in zip(contents, order):
        x0 = (ci + 0.5) * cell + rng.uniform(-2, 2)
        if what == 'blend':
            k = int(rng.integers(2, 5))
            s0 = rng.uniform(1.1, 2.2)
            for g in range(k):
                dx = 0.0 if g == 0 else rng.choice([-1, 1]) * rng.uniform(1.8, 4.0) * s0
                img += 10.0 ** rng.uniform(0.5, 2.0) * np.exp(-0.5 * ((xx - x0 - dx) / (s0 * rng.uniform(0.8, 1.25))) ** 2)
            ncomp.append(k)
        elif what == 'iso':
            img += 10.0 ** rng.uniform(0.3, 1.8) * np.exp(-0.5 * ((xx - x0) / rng.uniform(1.0, 2.5)) ** 2)
            ncomp.append(1)
        elif what == 'tiny':
            img += rng.uniform(1.0, 4.0) * np.exp(-0.5 * ((xx - x0) / rng.uniform(0.45, 0.8)) ** 2)
            ncomp.append(1)
        elif what == 'plateau':
            r = rng.uniform(2.0, 5.0)
            img[np.abs(xx - x0) <= r] = float(rng.integers(2, 9))
            ncomp.append(0)
    return img[None, :], ncomp


def draw_kw(rng, npix_det, cls):
    npix = npix_det
    if rng.random() < 0.3:
        npix = int(rng.integers(1, 13))
    nlevels = int(rng.choice([1, 2, 3, 5, 8, 16, 32, 64])) if rng.random() < 0.7 else int(rng.integers(1, 65))
    contrast = float(rng.choice(CONTRASTS[:4], p=[0.3, 0.35, 0.2, 0.15]))
    if rng.random() < 0.04:
        contrast = 1.0
    if rng.random() < 0.1:
        contrast = float(10.0 ** rng.uniform(-6, 0))
    mode = str(rng.choice(MODES))
    relabel = bool(rng.random() < 0.5)
    return dict(npixels=npix, nlevels=nlevels, contrast=contrast, mode=mode, relabel=relabel)


def make_scene(rng, cls):
    ax = draw_axes(rng, cls)
    conn = int(rng.choice([4, 8]))
    npix_det = int(rng.choice([1, 2, 3, 5, 5, 8, 10]))
    thr = float(rng.uniform(0.3, 1.0))
    mask = None
    post = []
    labels = None
    flags = {}
    noise = float(rng.choice([0.0, 0.0, 0.02, 0.08, 0.2]))

    nblend = int(rng.integers(2, 7))
    contents = ['blend'] * nblend + ['iso'] * int(rng.integers(0, 4)) + ['tiny'] * int(rng.integers(0, 4))
    if rng.random() < 0.2:
        contents.append('plateau')
    cell = int(rng.integers(20, 29))

    if cls == 'sched_small':
        # 1..4 eligible sources so that all n! completion orders are enumerated
        contents = ['blend'] * int(rng.integers(1, 5)) + ['tiny'] * int(rng.integers(0, 3))
        noise = float(rng.choice([0.0, 0.02]))
    elif cls == 'sched_many':
        contents = ['blend'] * int(rng.integers(5, 13)) + ['iso'] * int(rng.integers(0, 5))
        cell = int(rng.integers(18, 24))
    elif cls == 'tiny':
        contents = ['blend'] * int(rng.integers(1, 4)) + ['tiny'] * int(rng.integers(3, 9)) + ['iso'] * 2
        npix_det = int(rng.choice([1, 2, 3, 4]))
    elif cls == 'flat':
        contents = (['blend'] * int(rng.integers(1, 4)) + ['plateau'] * int(rng.integers(1, 4))
                    + ['iso'] * int(rng.integers(0, 2)))
        noise = 0.0
    elif cls == 'nmarkers':
        contents = ['blend']
        noise = 0.0
    elif cls == 'degenerate':
        # every early-exit / degenerate path of the control flow (see DEGENERATE) ...
        kind = DEGENERATE[int(rng.integers(0, len(DEGENERATE)))]
        flags['degenerate'] = kind
        if kind == 'all_small':
            contents = ['tiny'] * int(rng.integers(2, 8)) + ['iso'] * int(rng.integers(0, 3))
        elif kind == 'flat_only':
            contents = ['plateau'] * int(rng.integers(2, 7))
            noise = 0.0
        else:
            contents = (['blend'] * int(rng.integers(1, 5)) + ['iso'] * int(rng.integers(1, 4))
                        + ['tiny'] * int(rng.integers(1, 5)))
        noise = float(rng.choice([0.0, 0.0, 0.02]))

    shape_ax = ax.get('shape')
    if shape_ax in ('1xN', 'Nx1'):
        img, ncomp = render_1d(rng, contents, cell=cell)
        npix_det = min(npix_det, 3)
    else:
        grid = None
        if shape_ax in ('wide', 'tall'):
            grid = (1, len(contents))
        img, ncomp = render(rng, contents, cell=cell, grid=grid, elong=(cls != 'flat' or rng.random() < 0.5),
                            parity=ax.get('parity'))
        if 'edge' in ax and min(img.shape) > cell:
            # (viii) cut through the first / last row or column of cells: sources straddle exactly one border
            # (or one corner); odd and even cuts
            c = cell // 2 + int(rng.integers(-2, 3))
            e = ax['edge']
            if 'bottom' in e:
                img = img[c:, :]
            if 'top' in e:
                img = img[:-c, :]
            if 'left' in e:
                img = img[:, c:]
            if 'right' in e:
                img = img[:, :-c]
            img = np.ascontiguousarray(img)
            flags['edge'] = e

    if cls == 'nmarkers':
        # one large envelope with many local peaks (> 200 markers for exponential/sinh)
        n = int(rng.integers(56, 78))
        yy, xx = np.mgrid[:n, :n].astype(float)
        env = _gauss(xx, yy, n / 2, n / 2, n / 4.0, n / 4.5, 0.3, 20.0)
        img = env * (1.0 + 0.6 * rng.random((n, n)))
        if rng.random() < 0.5:
            img = img + 1.0
        thr = float(np.quantile(img, 0.35))
        npix_det = 1
        flags['nmarkers_scene'] = True

    if noise > 0:
        img = img + rng.normal(0.0, noise, img.shape)
        flags['noise'] = noise

    if cls == 'flat':
        kind = str(rng.choice(['saturate', 'quantise', 'plain', 'terrace']))
        if kind == 'saturate':
            img = np.minimum(img, float(rng.uniform(3, 15)))
        elif kind == 'quantise':
            img = np.round(img / 2.0) * 2.0
        elif kind == 'terrace':
            img = np.floor(img)
        flags['flat_kind'] = kind
        thr = float(rng.choice([0.5, 1.0, 1.5]))
    elif cls == 'nonpos':
        kind = str(rng.choice(['offset', 'zero_min', 'all_negative', 'noise_floor']))
        if kind == 'offset':
            off = float(rng.uniform(1.0, 3.0))
            img = img - off
            thr = thr - off                       # segments reach below zero
        elif kind == 'zero_min':
            img = np.floor(img) - 1.0             # integers; background -1, faintest source pixels 0
            thr = -0.5
        elif kind == 'all_negative':
            off = float(img.max()) + 1.0
            img = img - off                       # every pixel < 0
            thr = thr - off
        else:
            img = img + rng.normal(0.0, 0.3, img.shape)
            thr = -0.2
            npix_det = max(npix_det, 5)
        flags['nonpos_kind'] = kind
    elif cls == 'masked':
        mask = rng.random(img.shape) < float(rng.choice([0.02, 0.06, 0.15]))
        if rng.random() < 0.5:
            img = img.copy()
            img[mask] = np.nan                    # NaN only under the mask: never inside a segment
        if rng.random() < 0.3 and img.shape[0] > 2:
            r = int(rng.integers(0, img.shape[0]))
            mask[r, :] = True                     # a masked row cuts sources in two
        if mask.all():
            mask.flat[0] = False
    elif cls == 'hostile':
        kind = str(rng.choice(['inf_peak', 'huge_range', 'tiny_range', 'denormal', 'f32', 'int_data', 'uint_data']))
        if kind == 'inf_peak':
            j = np.unravel_index(int(np.argmax(img)), img.shape)
            img[j] = np.inf
        elif kind == 'huge_range':
            img = img * 1e300 / max(float(img.max()), 1.0)
            thr = float(img.max()) * 1e-3
        elif kind == 'tiny_range':
            img = 1.0 + img * 1e-13
            thr = 1.0 + thr * 1e-13
        elif kind == 'denormal':
            img = img * 1e-310
            thr = thr * 1e-310
        elif kind == 'f32':
            img = img.astype(np.float32)
        elif kind == 'int_data':
            img = np.round(img).astype(np.int32)
            thr = 0.5
        elif kind == 'uint_data':
            img = np.round(np.clip(img, 0, None)).astype(np.uint16)
            thr = 0.5
        flags['hostile_kind'] = kind

    if mask is None and ax.get('allfalse_mask'):
        mask = np.zeros(img.shape, dtype=bool)
        flags['allfalse_mask'] = True
    if shape_ax in ('tall', 'Nx1'):
        img = np.ascontiguousarray(img.T)
        if mask is not None:
            mask = np.ascontiguousarray(mask.T)
    if 'scale' in ax and img.dtype.kind == 'f' and np.isfinite(img).all():
        kind_s, v = ax['scale']
        f = float(2.0 ** v) if kind_s == 'pow2' else float(v)
        img = img * f
        thr = thr * f
        flags['scale'] = f
        flags['scale_kind'] = kind_s
    if 'data_dtype' in ax and img.dtype == np.float64 and 'scale' not in flags and np.isfinite(img).all():
        dt = ax['data_dtype']
        if dt in ('float32', 'float16'):
            img = np.clip(img, -6e4, 6e4).astype(dt)
        else:
            if dt.startswith('uint') and img.min() < 0:
                dt = 'int32'
            info = np.iinfo(dt)
            img = np.clip(np.round(img), info.min, min(info.max, 2 ** 62)).astype(dt)   # narrow dtypes saturate
        flags['data_dtype_axis'] = dt
    elif 'data_dtype' in ax and ax['data_dtype'] == 'float32' and img.dtype == np.float64 \
            and np.isfinite(img).all() and 1e-30 < abs(flags.get('scale', 1.0)) < 1e30:
        img = img.astype(np.float32)
        flags['data_dtype_axis'] = 'float32'

    kw = draw_kw(rng, npix_det, cls)
    if shape_ax in ('1xN', 'Nx1'):
        kw['npixels'] = min(kw['npixels'], int(rng.integers(1, 5)))

    if cls == 'levels':
        kw['nlevels'] = int(rng.integers(1, 65))
        kw['contrast'] = float(rng.choice(CONTRASTS))
        kw['mode'] = MODES[int(rng.integers(0, 3))]
    elif cls == 'contrast':
        kw['contrast'] = float(rng.choice([0.0, 1.0, 1.0, 1e-12, 1.0 - 1e-12, 0.999]))
    elif cls == 'nonpos':
        kw['mode'] = str(rng.choice(['exponential', 'exponential', 'sinh', 'linear']))
    elif cls == 'nmarkers':
        kw['npixels'] = 1
        kw['mode'] = str(rng.choice(['exponential', 'sinh']))
        kw['nlevels'] = int(rng.choice([16, 32, 64]))
        kw['contrast'] = float(rng.choice([0.0, 1e-3, 0.05], p=[0.6, 0.32, 0.08]))
    elif cls == 'tiny':
        kw['npixels'] = int(rng.integers(1, 16))
    elif cls == 'subset':
        labels = str(rng.choice(['int', 'npint', 'list', 'tuple', 'array', 'unsorted', 'dups', 'all', 'one_tiny']))
    elif cls == 'gaps':
        if rng.random() < 0.6:
            post.append(('remove', float(rng.uniform(0.1, 0.5))))
        post.append(('remap', str(rng.choice(['increasing', 'permuted', 'shift'])),
                     int(rng.choice([50, 500, 5000, 60000]))))
        if rng.random() < 0.4:
            labels = str(rng.choice(['list', 'array', 'unsorted']))
    elif cls == 'merged':
        post.append(('merge', int(rng.integers(1, 3))))
    elif cls == 'dtype':
        name = str(rng.choice(['int64', 'uint32', 'int16', 'uint16', 'uint8', 'int8', 'uint64', 'intp']))
        near_top = bool(rng.random() < 0.4) and name in ('int16', 'uint16', 'uint8', 'int8')
        post.append(('dtype', name, near_top))
    elif cls == 'redeblend':
        flags['redeblend'] = True
    elif cls == 'degenerate':
        # ... crossed with every output-normalisation situation: input labels consecutive, with holes,
        # increasing with gaps, permuted (label order != raster order), shifted
        norm = str(rng.choice(['consecutive', 'holes', 'increasing', 'permuted', 'shift', 'holes+permuted'],
                              p=[0.1, 0.2, 0.2, 0.2, 0.15, 0.15]))
        flags['label_norm'] = norm
        if 'holes' in norm:
            post.append(('remove', float(rng.uniform(0.1, 0.5))))
        if norm in ('increasing', 'permuted', 'shift', 'holes+permuted'):
            post.append(('remap', 'permuted' if 'permuted' in norm else norm,
                         int(rng.choice([20, 500, 60000]))))
        kind = flags['degenerate']
        if kind == 'no_split_contrast':
            kw['contrast'] = float(rng.choice([0.999999, 1.0 - 1e-12, 0.9]))
        elif kind == 'no_split_nlevels1':
            kw['nlevels'] = 1
            kw['contrast'] = float(rng.choice([0.5, 0.9]))
        elif kind == 'contrast_one':
            kw['contrast'] = 1.0
    # label holes / gaps / permutations also ride along on the other classes
    if cls not in ('gaps', 'dtype', 'merged', 'degenerate') and not post and rng.random() < 0.2:
        if rng.random() < 0.5:
            post.append(('remove', float(rng.uniform(0.1, 0.4))))
        if rng.random() < 0.7 or not post:
            post.append(('remap', str(rng.choice(['increasing', 'permuted', 'shift'])),
                         int(rng.choice([50, 5000]))))
        flags['label_norm'] = 'ride_along'
    if cls not in ('subset', 'gaps') and rng.random() < 0.12:
        labels = str(rng.choice(['list', 'array', 'unsorted']))
    if labels is None and 'labels_form' in ax and cls != 'degenerate':
        labels = ax['labels_form']
    layout = ax.get('data_layout', 'C')
    if layout == 'C' and rng.random() < 0.1 and img.dtype.kind == 'f':
        layout = str(rng.choice(['F', 'strided', 'bigendian']))
    return dict(data=img, thr=thr, mask=mask, conn=conn, npix_det=npix_det, kw=kw, post=post,
                labels=labels, flags=flags, layout=layout, ncomp=ncomp, axes=ax,
                seg_layout=ax.get('seg_layout', 'C'), forms=ax.get('forms'))


def apply_layout(data, layout):
    if layout == 'F':
        return np.asfortranarray(data)
    if layout == 'strided':
        big = np.zeros((data.shape[0], data.shape[1] * 2), dtype=data.dtype)
        big[:, ::2] = data
        return big[:, ::2]
    if layout == 'bigendian':
        return data.astype(data.dtype.newbyteorder('>'))
    if layout == 'transposed':
        return np.ascontiguousarray(data.T).T
    if layout == 'offset':
        big = np.zeros((data.shape[0] + 5, data.shape[1] + 7), dtype=data.dtype)
        big[3:3 + data.shape[0], 4:4 + data.shape[1]] = data
        return big[3:3 + data.shape[0], 4:4 + data.shape[1]]
    return data


def apply_forms(kw, conn, forms):
    """The same argument values in another call form. Returns (positional_npixels or None, kwargs)."""
    kw = dict(kw)
    kw['connectivity'] = conn
    if not forms:
        return None, kw

    def conv(v, how):
        if how in ('int', 'float', 'bool', 'str'):
            return v
        if how == 'zero_d':
            return np.array(v)
        if how == 'np.uint8':
            return np.uint8(v) if 0 <= v <= 63 else np.int64(v)
        if how == 'np.str_':
            return np.str_(v)
        if how == 'positional':
            return v
        r = getattr(np, how.split('.')[1])(v)
        # a call form must carry the same value: np.float32(0.999999999999) is exactly 1.0,
        # which would turn a 'nothing splits' contrast into the documented contrast=1 no-op
        # (compare as Python numbers: np.float32(1) == 0.999999999999 is True under NEP 50 weak scalars)
        return r if r.item() == v else (np.float64(v) if isinstance(v, float) else np.int64(v))

    for k in ('npixels', 'nlevels', 'contrast', 'connectivity', 'mode'):
        kw[k] = conv(kw[k], forms[k])
    kw['relabel'] = {'bool': kw['relabel'], 'np.bool_': np.bool_(kw['relabel']), 'int': int(kw['relabel'])}[forms['relabel']]
    pos = None
    if forms['npixels'] == 'positional':
        pos = kw.pop('npixels')
    return pos, kw


def apply_post(rng, seg_arr, post):
    """Label manipulations on the detect_sources array (plain numpy). Returns (array, facts)."""
    arr = seg_arr.copy()
    facts = {}
    for op in post:
        labs = np.unique(arr[arr != 0])
        if op[0] == 'remove' and labs.size > 2:
            k = max(1, int(op[1] * labs.size))
            k = min(k, labs.size - 1)
            drop = rng.choice(labs, size=k, replace=False)
            arr[np.isin(arr, drop)] = 0
            facts['removed'] = int(k)
        elif op[0] == 'remap':
            kind, top = op[1], op[2]
            n = labs.size
            if n == 0:
                continue
            if kind == 'shift':
                new = labs + int(rng.integers(1, top))
            else:
                new = np.sort(rng.choice(np.arange(1, max(top, n) + 1), size=n, replace=False))
                if kind == 'permuted':
                    new = rng.permutation(new)
            lut = np.zeros(int(labs.max()) + 1, dtype=np.int64)
            lut[labs] = new
            arr = lut[arr].astype(seg_arr.dtype)
            facts['remap'] = kind
            facts['max_label'] = int(arr.max())
        elif op[0] == 'merge' and labs.size >= 2:
            for _ in range(op[1]):
                labs = np.unique(arr[arr != 0])
                if labs.size < 2:
                    break
                a, b = rng.choice(labs, size=2, replace=False)
                arr[arr == b] = a
            facts['merged'] = True
        elif op[0] == 'dtype':
            name, near_top = op[1], op[2]
            dt = np.dtype(name)
            n = labs.size
            top = np.iinfo(dt).max
            if n > top:
                # keep only as many labels as the dtype can name
                arr[arr > top] = 0
                labs = np.unique(arr[arr != 0])
                n = labs.size
            if near_top and n:
                # labels end close to the dtype maximum: new child labels cannot be represented
                room = int(rng.integers(0, 4))
                new = np.arange(top - room - n + 1, top - room + 1)
                lut = np.zeros(int(labs.max()) + 1, dtype=np.int64)
                lut[labs] = new
                arr = lut[arr]
                facts['room'] = room
            arr = arr.astype(dt)
            facts['dtype'] = name
            facts['near_top'] = bool(near_top)
    return arr, facts


def draw_labels(rng, how, labs, areas, npixels):
    """Concrete `labels=` argument from the spec. Returns (argument, list_of_int_labels)."""
    labs = np.asarray(labs)
    if how is None or labs.size == 0:
        return None, [int(v) for v in labs]
    k = int(rng.integers(1, labs.size + 1))
    sub = np.sort(rng.choice(labs, size=k, replace=False))
    if how == 'all':
        return labs.copy(), [int(v) for v in labs]
    if how == 'int':
        v = int(rng.choice(labs))
        return v, [v]
    if how == 'npint':
        v = rng.choice(labs)
        return np.int64(v), [int(v)]
    if how == 'npsmall':
        v = int(rng.choice(labs))
        return (np.uint16(v) if v < 65536 else np.int64(v)), [v]
    if how == 'zero_d':
        v = int(rng.choice(labs))
        return np.array(v), [v]
    if how == 'list_np':
        return [np.int64(v) for v in sub], [int(v) for v in sub]
    if how == 'one_tiny':
        small = labs[np.asarray(areas) < 2 * npixels]
        v = int(rng.choice(small if small.size else labs))
        return [v], [v]
    if how == 'list':
        return [int(v) for v in sub], [int(v) for v in sub]
    if how == 'tuple':
        return tuple(int(v) for v in sub), [int(v) for v in sub]
    if how == 'array':
        dt = rng.choice([np.int64, np.int32, np.uint16, np.intp])
        if sub.max() > np.iinfo(dt).max:
            dt = np.int64
        return sub.astype(dt), [int(v) for v in sub]
    if how == 'unsorted':
        p = rng.permutation(sub)
        return p.astype(np.int64), [int(v) for v in p]
    if how == 'descending':
        p = sub[::-1]
        dt = [np.int64, np.int32, np.uint32, np.uint64][int(rng.integers(0, 4))]
        return p.astype(dt), [int(v) for v in p]
    if how == 'dups':
        p = np.concatenate([sub, rng.choice(sub, size=int(rng.integers(1, 3)))])
        p = rng.permutation(p)
        return [int(v) for v in p], [int(v) for v in p]
    raise ValueError(how)
