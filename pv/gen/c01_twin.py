"""C01 source twin: execute the Cython kernel sources (.pyx) as plain Python.

Cython is not available in the sandbox, so an edit to
``photutils/geometry/*.pyx`` cannot reach the compiled binary.  This module
de-types the four ``.pyx`` files (drops cimport / extern / ctypedef lines,
strips C types from signatures and local declarations, turns the two C structs
into value-semantics attribute bags) and executes the result, so the *source
text under test* can be driven by the same generator and judged by the same
reference as the compiled kernels.  Pure-Python speed: small masks only.

This is code under test executed by other means, not a reference; it never
decides anything by itself.  Soundness gate (see pv/checks/c01.py): on every
run the twin must agree with the compiled overlay on a fixed probe set when
the .pyx is the text the .c was generated from; if de-typing or the gate fails
the twin leg is inconclusive and the compiled-kernel legs alone decide.

C semantics that are kept: structs are copied on assignment; asin/sqrt of an
out-of-domain argument give NaN instead of raising; division by zero raises
ZeroDivisionError exactly like Cython's default (cdivision=False).
"""
from __future__ import annotations

import math
import os
import re
import types

NAMES = ('core', 'circular_overlap', 'elliptical_overlap', 'rectangular_overlap')
CTYPES = r'(?:unsigned\s+int|double|int|bool|long|float|point|intersections|np\.ndarray\[[^\]]*\]|DTYPE_t)'

PRELUDE = '''
import math as _math
import numpy as np
nan = float('nan')
def asin(x):
    return _math.asin(x) if -1.0 <= x <= 1.0 else nan
def sqrt(x):
    return _math.sqrt(x) if x >= 0.0 else nan
def sin(x):
    return _math.sin(x)
def cos(x):
    return _math.cos(x)
def fabs(x):
    return _math.fabs(x)
class _Struct:
    _fields = ()
    def __init__(self):
        for n, t in self._fields:
            object.__setattr__(self, n, t() if isinstance(t, type) and issubclass(t, _Struct) else nan)
    def __setattr__(self, k, v):
        object.__setattr__(self, k, _cp(v))
def _cp(v):
    if isinstance(v, _Struct):
        w = type(v).__new__(type(v))
        for n, _t in v._fields:
            object.__setattr__(w, n, _cp(getattr(v, n)))
        return w
    return v
'''


class TwinError(Exception):
    pass


def _strip_args(argstr):
    out = []
    for a in argstr.split(','):
        a = a.strip()
        if not a:
            continue
        a = re.sub(r'^' + CTYPES + r'\s+', '', a)
        out.append(a)
    return ', '.join(out)


def detype(text, modname, struct_names):
    """Return Python source for one .pyx text."""
    lines = text.split('\n')
    out = []
    i = 0
    struct_locals = {}       # name -> struct type (function scope, reset at each def)
    while i < len(lines):
        ln = lines[i]
        s = ln.strip()
        ind = ln[:len(ln) - len(ln.lstrip())]
        # multi-line constructs first
        if re.match(r'cdef extern from', s):
            i += 1
            while i < len(lines) and (lines[i].strip() == '' or lines[i].startswith((' ', '\t'))):
                i += 1
            continue
        m = re.match(r'ctypedef struct (\w+):', s)
        if m:
            name = m.group(1)
            fields = []
            i += 1
            while i < len(lines) and (lines[i].strip() == '' or lines[i].startswith((' ', '\t'))):
                f = lines[i].strip()
                if f:
                    t, n = f.split()
                    fields.append((n, t))
                i += 1
            struct_names.add(name)
            out.append(f'class {name}(_Struct):')
            out.append('    _fields = (' + ''.join(
                f"({n!r}, {t if t in struct_names else 'float'}), " for n, t in fields) + ')')
            continue
        if re.match(r'(from\s+\S+\s+)?cimport\s', s) or re.match(r'ctypedef\s', s):
            m = re.match(r'from \.(\w+) cimport (.+)', s)
            if m:
                out.append(f'{ind}from _c01twin_{m.group(1)} import {m.group(2)}')
            i += 1
            continue
        # function headers (possibly spanning several lines)
        m = re.match(r'(cdef\s+' + CTYPES + r'|def)\s+(\w+)\s*\(', s)
        if m and (s.startswith('def ') or s.startswith('cdef ')) and '=' not in s.split('(')[0]:
            hdr = s
            while not hdr.rstrip().endswith(':'):
                i += 1
                hdr += ' ' + lines[i].strip()
            mm = re.match(r'(?:cdef\s+' + CTYPES + r'|def)\s+(\w+)\s*\((.*)\)\s*(?:noexcept|nogil|except\s*\S+)?\s*:$', hdr)
            if not mm:
                raise TwinError(f'{modname}: cannot parse header {hdr!r}')
            out.append(f'{ind}def {mm.group(1)}({_strip_args(mm.group(2))}):')
            struct_locals = {}
            i += 1
            continue
        # local declarations
        m = re.match(r'cdef\s+(' + CTYPES + r')\s+(.+)$', s)
        if m:
            ctype, rest = m.group(1), m.group(2)
            if '=' in rest and not rest.startswith('='):
                # declaration with initialiser (single name)
                out.append(f'{ind}{rest}')
            elif ctype in struct_names:
                for n in [x.strip() for x in rest.split(',')]:
                    struct_locals[n] = ctype
                    out.append(f'{ind}{n} = {ctype}()')
            else:
                out.append(f'{ind}pass')
            i += 1
            continue
        if s.startswith('cdef ') or s.startswith('cpdef ') or s.startswith('ctypedef '):
            raise TwinError(f'{modname}: unhandled Cython construct: {s!r}')
        # struct value semantics on plain assignment to a struct-typed local
        m = re.match(r'(\w+)\s*=\s*(?!=)(.+)$', s)
        if m and m.group(1) in struct_locals:
            out.append(f'{ind}{m.group(1)} = _cp({m.group(2)})')
            i += 1
            continue
        m = re.match(r'(\w+)\s*,\s*(\w+)\s*=\s*(\w+)\s*,\s*(\w+)$', s)
        if m and m.group(1) in struct_locals and m.group(2) in struct_locals:
            out.append(f'{ind}{m.group(1)}, {m.group(2)} = _cp({m.group(3)}), _cp({m.group(4)})')
            i += 1
            continue
        out.append(ln)
        i += 1
    return PRELUDE + '\n'.join(out) + '\n'


def load(geometry_dir):
    """De-type and execute the four .pyx of `geometry_dir`.  Returns
    {'circular_overlap_grid': f, 'elliptical_overlap_grid': f, 'rectangular_overlap_grid': f,
     'modules': {...}, 'sources': {...}}.  Raises TwinError."""
    import sys
    struct_names = set()
    mods = {}
    sources = {}
    saved = {k: sys.modules.get(k) for k in ['_c01twin_' + n for n in NAMES]}
    try:
        for n in NAMES:
            p = os.path.join(geometry_dir, n + '.pyx')
            try:
                with open(p) as f:
                    text = f.read()
            except OSError as exc:
                raise TwinError(f'cannot read {p}: {exc}') from exc
            src = detype(text, n, struct_names)
            sources[n] = src
            mod = types.ModuleType('_c01twin_' + n)
            mod.__file__ = p + ' (de-typed)'
            try:
                code = compile(src, p + ':twin', 'exec')
                sys.modules[mod.__name__] = mod
                exec(code, mod.__dict__)
            except TwinError:
                raise
            except Exception as exc:  # noqa: BLE001
                raise TwinError(f'{n}.pyx does not de-type to executable Python: {type(exc).__name__}: {exc}') from exc
            mods[n] = mod
    finally:
        for k, v in saved.items():
            if v is None:
                sys.modules.pop(k, None)
            else:
                sys.modules[k] = v
    out = {'modules': mods, 'sources': sources}
    for n, fn in (('circular_overlap', 'circular_overlap_grid'), ('elliptical_overlap', 'elliptical_overlap_grid'),
                  ('rectangular_overlap', 'rectangular_overlap_grid')):
        f = getattr(mods[n], fn, None)
        if f is None:
            raise TwinError(f'{fn} not defined by the de-typed {n}.pyx')
        out[fn] = f
    return out


if __name__ == '__main__':
    import sys
    t = load(sys.argv[1] if len(sys.argv) > 1 else '/repo/photutils/geometry')
    if len(sys.argv) > 2:
        print(t['sources'][sys.argv[2]])
    print('ok', [k for k in t if k.endswith('_grid')])
