"""C09 family: isophote Ellipse call histories.

One live Ellipse (with the EllipseGeometry the caller passed) receives a short
sequence of fit_image / fit_isophote calls with different fix_center / fix_pa /
fix_eps / linear / step / sma arguments; every returned IsophoteList / Isophote
is compared exactly (all table columns) with a fresh Ellipse + fresh
EllipseGeometry built from the same constructor arguments that makes only that
call.  The geometry flags the caller can read (fix, linear_growth, sma, x0, y0,
eps, pa, astep) are compared before/after each call.
Small noise-free (or faintly noisy) elliptical galaxies keep a fit at 0.1-0.3 s.
"""
from __future__ import annotations

import numpy as np

from pv import core
from pv.gen import c09_axes as AX
from pv.ref import c09_oracle as O

GEOM_ATTRS = ['fix', 'linear_growth', 'sma', 'x0', 'y0', 'eps', 'pa', 'astep']


def _galaxy(case):
    rng = case.rng
    n = int(rng.integers(45, 66))
    ny, nx = (n, n) if rng.random() < 0.6 else (n, n + int(rng.integers(8, 30)))
    if rng.random() < 0.5:
        ny, nx = nx, ny
    case.note('axis:shape_ellipse:' + ('square' if ny == nx else 'nonsquare'))
    x0, y0 = nx / 2 + rng.uniform(-2, 2), ny / 2 + rng.uniform(-2, 2)
    side = str(rng.choice(['centre', 'centre', 'left', 'right', 'bottom', 'top']))
    case.note('axis2_edge_ellipse:' + side)        # the fitted path leaves the frame on ONE side only
    if side == 'left':
        x0 = float(rng.uniform(7, 10))
    elif side == 'right':
        x0 = float(nx - 1 - rng.uniform(7, 10))
    elif side == 'bottom':
        y0 = float(rng.uniform(7, 10))
    elif side == 'top':
        y0 = float(ny - 1 - rng.uniform(7, 10))
    if rng.random() < 0.25:
        x0, y0 = float(np.floor(x0) + 0.5 * int(rng.integers(0, 2))), float(np.floor(y0) + 0.5 * int(rng.integers(0, 2)))
        case.note('axis2_halfint_ellipse')
    eps, pa = float(rng.uniform(0.1, 0.5)), float(rng.uniform(0, np.pi))
    r0, i0 = float(rng.uniform(4, 8)), float(rng.uniform(500, 5000))
    yy, xx = np.mgrid[0:ny, 0:nx]
    dx, dy = xx - x0, yy - y0
    xr = dx * np.cos(pa) + dy * np.sin(pa)
    yr = -dx * np.sin(pa) + dy * np.cos(pa)
    img = i0 * np.exp(-np.sqrt(xr ** 2 + (yr / (1 - eps)) ** 2) / r0)
    if rng.random() < 0.5:
        img = img + rng.normal(0, 0.002 * i0, img.shape)
    guess = dict(x0=float(x0 + rng.uniform(-0.8, 0.8)), y0=float(y0 + rng.uniform(-0.8, 0.8)),
                 sma=float(rng.uniform(5, 9)), eps=float(np.clip(eps + rng.uniform(-0.1, 0.1), 0.05, 0.7)),
                 pa=float((pa + rng.uniform(-0.3, 0.3)) % np.pi))
    mag = AX.scale(case, 'magnitude_ellipse')
    img = img * mag
    if rng.random() < 0.04:
        img = np.full(img.shape, 5.0 * mag)            # degenerate: constant image, no gradient
        case.note('axis:degenerate_ellipse:constant_image')
    return img, guess, dict(shape=[ny, nx], magnitude=mag, eps=round(eps, 3), pa=round(pa, 3), r0=round(r0, 2))


def _gen_call(rng):
    if rng.random() < 0.25:
        return ('fit_isophote', dict(sma=float(np.round(rng.uniform(3, 10), 2)),
                                     integrmode=str(rng.choice(['bilinear', 'bilinear', 'mean']))))
    kw = dict(maxsma=float(np.round(rng.uniform(9, 13), 1)), minsma=float(rng.choice([1.0, 2.0, 3.0])))
    lin = [None, None, None, True, False][int(rng.integers(0, 5))]
    if lin is not None:
        kw['linear'] = lin
    kw['step'] = float(np.round(rng.uniform(0.9, 1.6), 2)) if lin else float(np.round(rng.uniform(0.25, 0.5), 2))
    if rng.random() < 0.4:
        flags = ['fix_center', 'fix_pa', 'fix_eps']
        k = 1 if rng.random() < 0.7 else (2 if rng.random() < 0.9 else 3)
        for f in rng.permutation(flags)[:k]:
            kw[str(f)] = True
    if rng.random() < 0.3:
        kw['sma0'] = float(np.round(rng.uniform(4, 8), 2))
    if rng.random() < 0.2:
        kw['integrmode'] = str(rng.choice(['nearest_neighbor', 'mean', 'median']))
    if rng.random() < 0.2:
        kw['nclip'] = 2
    if rng.random() < 0.15:
        kw['maxrit'] = 8.0
    return ('fit_image', kw)


def _canon_result(res):
    if res is None:
        return None
    if hasattr(res, 'to_table') and hasattr(res, '__len__'):
        if len(res) == 0:
            return {'__isolist__': 0}
        try:
            return {'__isolist__': len(res), 'table': res.to_table(columns='all')}
        except Exception:  # noqa: BLE001  (older signature)
            return {'__isolist__': len(res), 'table': res.to_table()}
    # a single Isophote
    names = ['sma', 'intens', 'int_err', 'eps', 'ellip_err', 'pa', 'pa_err', 'x0', 'x0_err', 'y0', 'y0_err',
             'grad', 'grad_error', 'grad_r_error', 'rms', 'pix_stddev', 'ndata', 'nflag', 'niter', 'valid',
             'stop_code', 'tflux_e', 'tflux_c', 'npix_e', 'npix_c', 'a3', 'b3', 'a4', 'b4']
    return {'__isophote__': {n: getattr(res, n, '<absent>') for n in names}}


def _geom(g):
    return {a: O.canon(np.copy(getattr(g, a)) if isinstance(getattr(g, a), np.ndarray) else getattr(g, a))
            for a in GEOM_ATTRS}


def run(case):
    rng = case.rng
    img, guess, gdesc = _galaxy(case)
    lay = AX.layout(case, 'layout_ellipse')
    container = ['ndarray', 'ndarray', 'masked_array', 'float32', 'uint16', 'int16', 'float16'][int(rng.integers(0, 7))]
    case.note('axis:container_ellipse:' + container)

    def image():
        a = lay(img)
        if container == 'masked_array':
            m = np.zeros(a.shape, bool)
            m[0, :3] = True
            return np.ma.MaskedArray(a, mask=m)
        if container == 'float32':
            return a.astype(np.float32)
        if container in ('uint16', 'int16', 'float16'):
            b = a / gdesc['magnitude']
            b = b / max(float(np.max(b)), 1.0) * (30000.0 if container != 'float16' else 1000.0)
            return b.astype(container)
        return a
    threshold = float(rng.choice([0.1, 0.1, 0.05]))
    with_geom = rng.random() < 0.85

    def make():
        from photutils.isophote import Ellipse, EllipseGeometry
        if not with_geom:
            return Ellipse(image(), threshold=threshold), None
        g = EllipseGeometry(guess['x0'], guess['y0'], guess['sma'], guess['eps'], guess['pa'])
        return Ellipse(image(), g, threshold=threshold), g

    ncalls = int(rng.integers(2, 6)) if case.tier == 'thorough' else int(rng.integers(2, 4))
    calls = [_gen_call(rng) for _ in range(ncalls)]
    case.params = dict(gdesc, with_geometry=with_geom, calls=[[c[0], c[1]] for c in calls])
    case.digest = core.arr_digest(img) + core.digest(case.params)
    case.nontrivial = True

    live, geom = make()
    if geom is None:
        geom = live._geometry          # the default geometry is only reachable here
    pristine = _geom(make()[0]._geometry)
    for k, (name, kw) in enumerate(calls):
        cur_fix = any(kw.get(f) for f in ('fix_center', 'fix_pa', 'fix_eps'))
        cur_lin = kw.get('linear', None)
        before = _geom(geom)
        # observed facts about the configuration the call starts from (mechanism key only)
        fix_stale = not O.deep_same(before['fix'], pristine['fix'])[0]
        lin_stale = not O.deep_same(before['linear_growth'], pristine['linear_growth'])[0]
        mech = {'family': 'ellipse', 'op': name, 'call': 'first' if k == 0 else 'later',
                'cur_fix': bool(cur_fix), 'cur_linear': str(cur_lin),
                'geometry_fix_stale': bool(fix_stale), 'geometry_linear_stale': bool(lin_stale)}

        def do(e):
            if name == 'fit_image':
                return _canon_result(e.fit_image(**kw))
            return _canon_result(e.fit_isophote(**kw))

        o_live = O.request(lambda: do(live))
        after = _geom(geom)
        fresh, _ = make()
        o_fresh = O.request(lambda: do(fresh))
        O.compare(case, o_live, o_fresh, 'ellipse_call_vs_fresh', mech)
        case.note('ellipse_calls')
        if fix_stale or lin_stale:
            case.note('ellipse_calls_from_stale_geometry')
        for a in GEOM_ATTRS:
            ok, _, why = O.deep_same(before[a], after[a])
            case.check(ok, 'ellipse_geometry_unchanged_by_call', dict(mech, attr=a), why=why)
