"""C12 scene generator: clusters of point sources rendered noise-free from one PSF model.

A *scene* is a truth table (x, y, flux [, extra free parameters]) + image shape + the model object.  Sources are
generated in clusters: members of a cluster are 1.2-2.4 FWHM from at least one other member (so that a
SourceGrouper with a separation between the largest intra-cluster link and the smallest inter-cluster distance
puts exactly the members of a cluster into one group); different clusters are so far apart that a source
contributes < 1e-9 of the peak of any source of another cluster inside that source's fit window (measured on the
rendered models, not assumed).

All randomness comes from the rng passed in.
"""
from __future__ import annotations

import numpy as np

FWHM2SIG = 1.0 / (2.0 * np.sqrt(2.0 * np.log(2.0)))

MODEL_KINDS = ['cgprf', 'cgprf_free', 'gprf', 'gprf_free', 'cgpsf', 'cgpsf_free', 'gpsf', 'gpsf_free', 'moffat',
               'imagepsf', 'gridded', 'wrapped']


class Scene:
    pass


def pnames(model):
    """Names of the (x, y, flux) parameters: x_0/y_0/flux or the x_name/y_name/flux_name attributes that
    make_psf_model attaches."""
    return (getattr(model, 'x_name', 'x_0'), getattr(model, 'y_name', 'y_0'), getattr(model, 'flux_name', 'flux'))


def set_xyf(model, x, y, flux):
    xn, yn, fn = pnames(model)
    setattr(model, xn, x)
    setattr(model, yn, y)
    setattr(model, fn, flux)


def _gauss(x, y, x0, y0, sx, sy, th):
    t = np.deg2rad(th)
    dx, dy = x - x0, y - y0
    xp = dx * np.cos(t) + dy * np.sin(t)
    yp = -dx * np.sin(t) + dy * np.cos(t)
    return np.exp(-0.5 * ((xp / sx) ** 2 + (yp / sy) ** 2)) / (2 * np.pi * sx * sy)


def make_epsf_array(fwhm, osamp, ratio=1.0, theta=0.0, half_fwhm=3.0, even=(False, False)):
    """Oversampled image of a unit-flux Gaussian (per *detector* pixel units), centred on the array centre
    ((n - 1) / 2, between two samples for an even size); sizes odd or even per axis (y, x)."""
    osy, osx = osamp
    nx = 2 * int(np.ceil(half_fwhm * fwhm * osx)) + (0 if even[1] else 1)
    ny = 2 * int(np.ceil(half_fwhm * fwhm * osy)) + (0 if even[0] else 1)
    jj, ii = np.mgrid[:ny, :nx]
    s = fwhm * FWHM2SIG
    return _gauss((ii - (nx - 1) / 2.0) / osx, (jj - (ny - 1) / 2.0) / osy, 0.0, 0.0, s, s * ratio, theta)


def build_model(rng, kind, fwhm, shape_hint=(80, 80)):
    """Return (model, info) where info has: free (list of extra free parameter names), support (half-size in px of
    the region where the model is non-zero, None = infinite), fwhm."""
    import photutils.psf as P
    info = dict(kind=kind, fwhm=fwhm, free=[], support=None)
    if kind in ('cgprf', 'cgprf_free'):
        m = P.CircularGaussianPRF(fwhm=fwhm)
        if kind.endswith('free'):
            m.fwhm.fixed = False
            info['free'] = ['fwhm']
    elif kind in ('cgpsf', 'cgpsf_free'):
        m = P.CircularGaussianPSF(fwhm=fwhm)
        if kind.endswith('free'):
            m.fwhm.fixed = False
            info['free'] = ['fwhm']
    elif kind in ('gprf', 'gprf_free'):
        ratio = float(rng.uniform(0.7, 1.4))
        theta = float(rng.choice([0.0, 90.0, rng.uniform(0, 180)]))
        m = P.GaussianPRF(x_fwhm=fwhm, y_fwhm=fwhm * ratio, theta=theta)
        info.update(ratio=ratio, theta=theta)
        if kind.endswith('free'):
            m.x_fwhm.fixed = False
            m.y_fwhm.fixed = False
            info['free'] = ['x_fwhm', 'y_fwhm']
    elif kind in ('gpsf', 'gpsf_free'):
        ratio = float(rng.choice([rng.uniform(0.65, 0.85), rng.uniform(1.2, 1.45)]))
        theta = float(rng.uniform(0, 180))
        m = P.GaussianPSF(x_fwhm=fwhm, y_fwhm=fwhm * ratio, theta=theta)
        info.update(ratio=ratio, theta=theta)
        if kind.endswith('free'):
            m.x_fwhm.fixed = False
            m.y_fwhm.fixed = False
            m.theta.fixed = False
            info['free'] = ['x_fwhm', 'y_fwhm', 'theta']
    elif kind == 'wrapped':
        # an astropy model without x_0/y_0/flux made usable through make_psf_model (compound model, parameter
        # names x_mean_2 / y_mean_2 / amplitude_2; 'flux' is then the peak amplitude)
        from astropy.modeling.models import Gaussian2D
        ratio = float(rng.uniform(0.7, 1.4))
        theta = float(rng.uniform(0, np.pi))
        g = Gaussian2D(amplitude=1.0, x_mean=0.0, y_mean=0.0, x_stddev=fwhm * FWHM2SIG,
                       y_stddev=fwhm * FWHM2SIG * ratio, theta=theta)
        m = P.make_psf_model(g, x_name='x_mean', y_name='y_mean', flux_name='amplitude', normalize=False)
        info.update(ratio=ratio, theta=theta)
    elif kind == 'moffat':
        beta = float(rng.uniform(2.5, 4.5))
        alpha = fwhm / (2.0 * np.sqrt(2 ** (1.0 / beta) - 1))
        m = P.MoffatPSF(alpha=alpha, beta=beta)
        info.update(alpha=alpha, beta=beta)
    elif kind == 'imagepsf':
        os_ = [(1, 1), (2, 2), (3, 3), (2, 3), (4, 2), (2, 4), (1, 3), (3, 1)][int(rng.integers(0, 8))]
        even = (bool(rng.random() < 0.4), bool(rng.random() < 0.4))
        data = make_epsf_array(fwhm, os_, ratio=float(rng.uniform(0.8, 1.25)), theta=float(rng.uniform(0, 180)),
                               even=even)
        info['even'] = list(even)
        oarg = os_[0] if os_[0] == os_[1] and rng.random() < 0.5 else os_
        m = P.ImagePSF(data, oversampling=oarg)
        ny, nx = data.shape
        info.update(oversampling=list(os_), support=max((nx - 1) / 2 / os_[1], (ny - 1) / 2 / os_[0]))
    elif kind == 'gridded':
        from astropy.nddata import NDData
        os_ = [(1, 1), (2, 2), (3, 3), (2, 3), (4, 2), (2, 4), (3, 1)][int(rng.integers(0, 7))]
        even = (bool(rng.random() < 0.4), bool(rng.random() < 0.4))
        info['even'] = list(even)
        ngx, ngy = int(rng.integers(2, 4)), int(rng.integers(2, 4))
        # grid covering part of the image only: some sources fall outside the grid (nearest-edge regime)
        xg = np.sort(rng.uniform(-5, shape_hint[1] + 5, ngx)).round(1)
        yg = np.sort(rng.uniform(-5, shape_hint[0] + 5, ngy)).round(1)
        while np.min(np.diff(xg)) < 5 or np.min(np.diff(yg)) < 5:
            xg = np.sort(rng.uniform(-5, shape_hint[1] + 5, ngx)).round(1)
            yg = np.sort(rng.uniform(-5, shape_hint[0] + 5, ngy)).round(1)
        pos = [(float(x), float(y)) for y in yg for x in xg]
        arrs = [make_epsf_array(fwhm * float(rng.uniform(0.9, 1.1)), os_, ratio=float(rng.uniform(0.85, 1.2)),
                                theta=float(rng.uniform(0, 180)), half_fwhm=3.3, even=even) for _ in pos]
        # all arrays must have one shape: crop to the smallest
        ny = min(a.shape[0] for a in arrs)
        nx = min(a.shape[1] for a in arrs)

        def crop(a):
            cy, cx = (a.shape[0] - ny) // 2, (a.shape[1] - nx) // 2
            return a[cy:cy + ny, cx:cx + nx]
        cube = np.array([crop(a) for a in arrs])
        order = rng.permutation(len(pos))
        nd = NDData(cube[order], meta={'grid_xypos': [pos[i] for i in order],
                                       'oversampling': os_[0] if os_[0] == os_[1] else os_})
        m = P.GriddedPSFModel(nd)
        info.update(oversampling=list(os_), grid=[xg.tolist(), yg.tolist()],
                    support=max((nx - 1) / 2 / os_[1], (ny - 1) / 2 / os_[0]))
    else:  # pragma: no cover
        raise ValueError(kind)
    return m, info


def isolation_distance(info, fit_half):
    """Centre-to-centre distance beyond which a source is negligible (< ~1e-10 of a comparable peak) over the
    fit window of another source (first guess; the scene is verified by measurement afterwards)."""
    if info['support'] is not None:
        return np.sqrt(2.0) * (info['support'] + fit_half + 1.5)
    s = info['fwhm'] * FWHM2SIG * max(1.0, info.get('ratio', 1.0)) * 1.2
    return 7.3 * s + np.sqrt(2.0) * (fit_half + 1.0)


def gen_clusters(rng, sizes, fwhm, dsep, edge_pad, elongated=None):
    """Place clusters; returns (xy array (n,2), cluster index per source, image shape)."""
    clusters = []
    for k in sizes:
        pts = [np.zeros(2)]
        tries = 0
        while len(pts) < k and tries < 500:
            tries += 1
            base = pts[int(rng.integers(0, len(pts)))]
            d = rng.uniform(1.2, 2.4) * fwhm
            a = rng.uniform(0, 2 * np.pi)
            q = base + d * np.array([np.cos(a), np.sin(a)])
            if all(np.hypot(*(q - p)) >= 1.2 * fwhm for p in pts):
                pts.append(q)
        pts = np.array(pts)
        pts -= pts.mean(axis=0)
        clusters.append(pts)
    radii = [float(np.max(np.hypot(c[:, 0], c[:, 1]))) for c in clusters]
    side = 2 * edge_pad + 2 * max(radii) + 6
    n = len(clusters)
    while True:
        W = side * rng.uniform(1.0, 1.4)
        H = side * rng.uniform(1.0, 1.4)
        if elongated:
            # strongly elongated image: the clusters sit along one axis, the other is as short as the windows allow
            short = 2 * edge_pad + 2 * max(radii) + 1.0
            long_ = max(side, sum(2 * r + dsep for r in radii) + 2 * edge_pad) * rng.uniform(1.0, 1.3)
            W, H = (long_, short) if elongated == 'wide' else (short, long_)
        centres = []
        ok = True
        for i in range(n):
            for _ in range(200):
                c = np.array([rng.uniform(edge_pad + radii[i], W - edge_pad - radii[i]),
                              rng.uniform(edge_pad + radii[i], H - edge_pad - radii[i])])
                if all(np.hypot(*(c - cj)) >= radii[i] + radii[j] + dsep for j, cj in enumerate(centres)):
                    centres.append(c)
                    break
            else:
                ok = False
                break
        if ok:
            break
        side *= 1.25
    xy = np.concatenate([c + centres[i] for i, c in enumerate(clusters)])
    cid = np.concatenate([[i] * len(c) for i, c in enumerate(clusters)])
    return xy, cid, (int(np.ceil(H)), int(np.ceil(W)))


def render(model, info, truth, shape):
    """Noise-free image: sum over sources of the model evaluated on the full pixel grid. Returns (image, stack)
    where stack[i] is the image of source i alone."""
    yy, xx = np.mgrid[:shape[0], :shape[1]]
    stack = []
    for row in truth:
        m = model.copy()
        set_xyf(m, row['x'], row['y'], row['flux'])
        for name in info['free']:
            setattr(m, name, row[name])
        stack.append(np.asarray(m(xx, yy), float))
    stack = np.array(stack)
    return stack.sum(axis=0), stack


def window(shape, fit_shape, x, y):
    """Pixel index ranges (y0, y1, x0, x1) (end exclusive, trimmed to the image) of the fit window of odd size
    fit_shape=(ny, nx) about (x, y): the window is centred on the pixel containing the position."""
    fy, fx = fit_shape
    cx, cy = int(np.floor(x + 0.5)), int(np.floor(y + 0.5))
    x0, x1 = cx - (fx - 1) // 2, cx + (fx - 1) // 2 + 1
    y0, y1 = cy - (fy - 1) // 2, cy + (fy - 1) // 2 + 1
    return max(y0, 0), min(y1, shape[0]), max(x0, 0), min(x1, shape[1]), cx, cy


def contamination(stack, peaks, groups, shape, fit_shape, xinit, yinit):
    """Largest |image of a source not fitted together with i| / peak_i over the fit window of i."""
    worst = 0.0
    n = len(stack)
    for i in range(n):
        y0, y1, x0, x1, _, _ = window(shape, fit_shape, xinit[i], yinit[i])
        if y1 <= y0 or x1 <= x0:
            continue
        for j in range(n):
            if groups[j] == groups[i]:
                continue
            v = float(np.max(np.abs(stack[j][y0:y1, x0:x1])))
            worst = max(worst, v / peaks[i])
    return worst
