"""Generators shared by the C02 and C16 checks: aperture shapes, positions
relative to the image frame, simple TAN WCS, images/masks/error maps.

Everything random comes from the Generator passed in (case.rng).
"""
from __future__ import annotations

import numpy as np

KINDS = ['circle', 'circ_annulus', 'ellipse', 'ell_annulus', 'rect', 'rect_annulus']
METHODS = ['exact', 'center', 'subpixel']
LOCS = ['inside', 'left', 'right', 'bottom', 'top', 'corner_bl', 'corner_br', 'corner_tl', 'corner_tr',
        'graze', 'outside', 'far', 'integer', 'half', 'tangent']


# ----------------------------------------------------------------------
# shapes
# ----------------------------------------------------------------------
def gen_theta(rng):
    c = int(rng.integers(0, 4))
    if c == 0:
        return 0.0
    if c == 1:
        return float(rng.integers(-4, 5)) * np.pi / 4
    return float(rng.uniform(-np.pi, np.pi))


def gen_shape(rng, kind, size=None):
    """Return (params dict in pixel units, approximate half-extent)."""
    if size is None:
        size = rng.choice(['tiny', 'small', 'small', 'medium', 'medium', 'large'])
    lo, hi = {'tiny': (0.05, 0.7), 'small': (0.7, 3.0), 'medium': (3.0, 8.0), 'large': (8.0, 18.0)}[str(size)]
    s = float(rng.uniform(lo, hi))
    if kind == 'circle':
        return dict(r=s), s
    if kind == 'circ_annulus':
        return dict(r_in=s * float(rng.uniform(0.15, 0.97)), r_out=s), s
    if kind == 'ellipse':
        b = s * float(rng.uniform(0.1, 1.0))
        return dict(a=s, b=b, theta=gen_theta(rng)), s
    if kind == 'ell_annulus':
        b_out = s * float(rng.uniform(0.15, 1.0))
        a_in = s * float(rng.uniform(0.15, 0.95))
        p = dict(a_in=a_in, a_out=s, b_out=b_out, theta=gen_theta(rng))
        if rng.random() < 0.4:
            p['b_in'] = b_out * float(rng.uniform(0.1, 0.95))
        return p, s
    if kind == 'rect':
        w, h = 2 * s, 2 * s * float(rng.uniform(0.1, 1.0))
        if rng.random() < 0.5:
            w, h = h, w
        return dict(w=w, h=h, theta=gen_theta(rng)), float(np.hypot(w, h) / 2)
    if kind == 'rect_annulus':
        w_out, h_out = 2 * s, 2 * s * float(rng.uniform(0.15, 1.0))
        w_in = w_out * float(rng.uniform(0.15, 0.95))
        p = dict(w_in=w_in, w_out=w_out, h_out=h_out, theta=gen_theta(rng))
        if rng.random() < 0.4:
            p['h_in'] = h_out * float(rng.uniform(0.1, 0.95))
        return p, float(np.hypot(w_out, h_out) / 2)
    raise ValueError(kind)


def build_pixel(kind, positions, params):
    from photutils import aperture as A
    cls = {'circle': A.CircularAperture, 'circ_annulus': A.CircularAnnulus,
           'ellipse': A.EllipticalAperture, 'ell_annulus': A.EllipticalAnnulus,
           'rect': A.RectangularAperture, 'rect_annulus': A.RectangularAnnulus}[kind]
    return cls(positions, **params)


def build_sky(kind, skycoord, params, scale_arcsec, theta_offset=0.0):
    """Sky aperture whose to_pixel image has (about) the pixel parameters
    `params`: lengths are multiplied by the pixel scale, theta is shifted."""
    import astropy.units as u
    from photutils import aperture as A
    cls = {'circle': A.SkyCircularAperture, 'circ_annulus': A.SkyCircularAnnulus,
           'ellipse': A.SkyEllipticalAperture, 'ell_annulus': A.SkyEllipticalAnnulus,
           'rect': A.SkyRectangularAperture, 'rect_annulus': A.SkyRectangularAnnulus}[kind]
    p = {}
    for k, v in params.items():
        if k == 'theta':
            p[k] = (v - theta_offset) * u.rad
        else:
            p[k] = (v * scale_arcsec) * u.arcsec
    return cls(skycoord, **p)


def scaled(params, f):
    """Same shape, lengths multiplied by f (for lists of apertures)."""
    return {k: (v if k == 'theta' else v * f) for k, v in params.items()}


# ----------------------------------------------------------------------
# positions
# ----------------------------------------------------------------------
def gen_position(rng, loc, shape, ext):
    ny, nx = shape

    def free(n):
        return float(rng.uniform(-0.5, n - 0.5))

    def inner(n):
        if n - 1 - 2 * ext > 0:
            return float(rng.uniform(ext, n - 1 - ext))
        return (n - 1) / 2.0 + float(rng.uniform(-0.3, 0.3))

    def low():
        return float(rng.uniform(-0.5 - 0.95 * ext, -0.5 + 0.95 * ext))

    def high(n):
        return float(rng.uniform(n - 0.5 - 0.95 * ext, n - 0.5 + 0.95 * ext))

    if loc == 'inside':
        return inner(nx), inner(ny)
    if loc == 'left':
        return low(), free(ny)
    if loc == 'right':
        return high(nx), free(ny)
    if loc == 'bottom':
        return free(nx), low()
    if loc == 'top':
        return free(nx), high(ny)
    if loc == 'corner_bl':
        return low(), low()
    if loc == 'corner_br':
        return high(nx), low()
    if loc == 'corner_tl':
        return low(), high(ny)
    if loc == 'corner_tr':
        return high(nx), high(ny)
    if loc == 'graze':
        # the bounding box just touches / just misses one side
        d = float(rng.choice([-1.5, -1.0, -0.5, -1e-9, 0.0, 1e-9, 0.5, 1.0, 1.5])) + float(rng.choice([0.0, rng.uniform(-0.5, 0.5)]))
        side = int(rng.integers(0, 4))
        if side == 0:
            return -0.5 - ext + d, free(ny)
        if side == 1:
            return nx - 0.5 + ext - d, free(ny)
        if side == 2:
            return free(nx), -0.5 - ext + d
        return free(nx), ny - 0.5 + ext - d
    if loc in ('outside', 'far'):
        gap = float(rng.uniform(1.6, 12.0)) if loc == 'outside' else float(10 ** rng.uniform(3, 6))
        side = int(rng.integers(0, 8))
        x, y = free(nx), free(ny)
        if side in (0, 4, 5):
            x = -0.5 - ext - gap
        if side in (1, 6, 7):
            x = nx - 0.5 + ext + gap
        if side in (2, 4, 6):
            y = -0.5 - ext - gap
        if side in (3, 5, 7):
            y = ny - 0.5 + ext + gap
        return x, y
    if loc == 'tangent':
        # shape extent (exact for circles and theta=0 ellipses) tangent to a pixel edge from the inside
        x = float(rng.integers(0, max(1, nx))) - 0.5 + ext
        y = float(rng.integers(0, max(1, ny))) - 0.5 + (ext if rng.random() < 0.3 else float(rng.uniform(0.2, 0.8)))
        if rng.random() < 0.5:
            x, y = y, x
        return x, y
    if loc == 'integer':
        return float(rng.integers(-2, nx + 2)), float(rng.integers(-2, ny + 2))
    if loc == 'half':
        return float(rng.integers(-2, nx + 2)) + 0.5, float(rng.integers(-2, ny + 2)) - 0.5
    raise ValueError(loc)


# ----------------------------------------------------------------------
# images
# ----------------------------------------------------------------------
def gen_image(rng, shape, style):
    """style: 'noise' signed continuous, 'ints' small integers (ties), 'ramp' asymmetric gradient + noise,
    'blob' positive elliptical Gaussians on a positive pedestal, 'const'."""
    ny, nx = shape
    yy, xx = np.mgrid[0:ny, 0:nx].astype(float)
    if style == 'noise':
        return rng.normal(0.0, 10.0, shape)
    if style == 'ints':
        return rng.integers(-3, 9, shape).astype(float)
    if style == 'ramp':
        return (3.0 * xx - 1.7 * yy + 0.31 * xx * yy + rng.normal(0, 1.0, shape) + float(rng.uniform(-20, 50)))
    if style == 'const':
        return np.full(shape, float(rng.integers(1, 5)))
    if style == 'blob':
        img = float(rng.uniform(0.5, 3.0)) + rng.uniform(0.0, 0.3, shape)
        for _ in range(int(rng.integers(1, 4))):
            x0, y0 = rng.uniform(-1, nx), rng.uniform(-1, ny)
            sx, sy = rng.uniform(0.8, 5.0, 2)
            th = rng.uniform(0, np.pi)
            c, s = np.cos(th), np.sin(th)
            u_ = (xx - x0) * c + (yy - y0) * s
            v_ = -(xx - x0) * s + (yy - y0) * c
            img = img + float(rng.uniform(5, 200)) * np.exp(-0.5 * ((u_ / sx) ** 2 + (v_ / sy) ** 2))
        return img
    raise ValueError(style)


def sprinkle_nonfinite(rng, data, frac=0.08):
    d = data.copy()
    r = rng.random(d.shape)
    d[r < frac * 0.5] = np.nan
    d[(r >= frac * 0.5) & (r < frac * 0.8)] = np.inf
    d[(r >= frac * 0.8) & (r < frac)] = -np.inf
    return d


def gen_mask(rng, shape, style):
    """style: 'random', 'dense', 'block', 'full', 'rowcol', 'none-true'."""
    if style == 'random':
        return rng.random(shape) < float(rng.choice([0.05, 0.2, 0.5]))
    if style == 'dense':
        return rng.random(shape) < 0.9
    if style == 'full':
        return np.ones(shape, bool)
    if style == 'empty':
        return np.zeros(shape, bool)
    if style == 'block':
        m = np.zeros(shape, bool)
        y0, x0 = int(rng.integers(0, shape[0])), int(rng.integers(0, shape[1]))
        m[y0:y0 + int(rng.integers(1, 8)), x0:x0 + int(rng.integers(1, 8))] = True
        return m
    if style == 'rowcol':
        m = np.zeros(shape, bool)
        m[int(rng.integers(0, shape[0])), :] = True
        m[:, int(rng.integers(0, shape[1]))] = True
        return m
    raise ValueError(style)


# ----------------------------------------------------------------------
# WCS
# ----------------------------------------------------------------------
def gen_wcs(rng, shape):
    """Undistorted TAN WCS with random scale, rotation and parity.
    Returns (wcs, scale_arcsec_per_pixel)."""
    from astropy.wcs import WCS
    ny, nx = shape
    w = WCS(naxis=2)
    w.wcs.ctype = ['RA---TAN', 'DEC--TAN']
    w.wcs.crval = [float(rng.uniform(0, 360)), float(rng.uniform(-65, 65))]
    w.wcs.crpix = [nx / 2.0 + float(rng.uniform(-3, 3)), ny / 2.0 + float(rng.uniform(-3, 3))]
    scale = float(10 ** rng.uniform(-1.3, 0.3))        # arcsec / pixel
    s = scale / 3600.0
    parity = -1.0 if rng.random() < 0.75 else 1.0
    w.wcs.cdelt = [parity * s, s]
    th = float(rng.uniform(-np.pi, np.pi)) if rng.random() < 0.8 else 0.0
    w.wcs.pc = [[np.cos(th), -np.sin(th)], [np.sin(th), np.cos(th)]]
    w.wcs.set()
    return w, scale
