"""Generators shared by the C02 and C16 checks: aperture shapes, positions
relative to the image frame, simple TAN WCS, images/masks/error maps.

Everything random comes from the Generator passed in (case.rng).
"""
from __future__ import annotations

import numpy as np

KINDS = ['circle', 'circ_annulus', 'ellipse', 'ell_annulus', 'rect', 'rect_annulus']
METHODS = ['exact', 'center', 'subpixel']
LOCS = ['inside', 'left', 'right', 'bottom', 'top', 'corner_bl', 'corner_br', 'corner_tl', 'corner_tr',
        'graze', 'outside', 'far', 'integer', 'half', 'tangent']


# ----------------------------------------------------------------------
# shapes
# ----------------------------------------------------------------------
def gen_theta(rng):
    c = int(rng.integers(0, 4))
    if c == 0:
        return 0.0
    if c == 1:
        return float(rng.integers(-4, 5)) * np.pi / 4
    return float(rng.uniform(-np.pi, np.pi))


def gen_shape(rng, kind, size=None):
    """Return (params dict in pixel units, approximate half-extent)."""
    if size is None:
        size = rng.choice(['tiny', 'small', 'small', 'medium', 'medium', 'large'])
    lo, hi = {'tiny': (0.05, 0.7), 'small': (0.7, 3.0), 'medium': (3.0, 8.0), 'large': (8.0, 18.0)}[str(size)]
    s = float(rng.uniform(lo, hi))
    if kind == 'circle':
        return dict(r=s), s
    if kind == 'circ_annulus':
        return dict(r_in=s * float(rng.uniform(0.15, 0.97)), r_out=s), s
    if kind == 'ellipse':
        b = s * float(rng.uniform(0.1, 1.0))
        return dict(a=s, b=b, theta=gen_theta(rng)), s
    if kind == 'ell_annulus':
        b_out = s * float(rng.uniform(0.15, 1.0))
        a_in = s * float(rng.uniform(0.15, 0.95))
        p = dict(a_in=a_in, a_out=s, b_out=b_out, theta=gen_theta(rng))
        if rng.random() < 0.4:
            p['b_in'] = b_out * float(rng.uniform(0.1, 0.95))
        return p, s
    if kind == 'rect':
        w, h = 2 * s, 2 * s * float(rng.uniform(0.1, 1.0))
        if rng.random() < 0.5:
            w, h = h, w
        return dict(w=w, h=h, theta=gen_theta(rng)), float(np.hypot(w, h) / 2)
    if kind == 'rect_annulus':
        w_out, h_out = 2 * s, 2 * s * float(rng.uniform(0.15, 1.0))
        w_in = w_out * float(rng.uniform(0.15, 0.95))
        p = dict(w_in=w_in, w_out=w_out, h_out=h_out, theta=gen_theta(rng))
        if rng.random() < 0.4:
            p['h_in'] = h_out * float(rng.uniform(0.1, 0.95))
        return p, float(np.hypot(w_out, h_out) / 2)
    raise ValueError(kind)


def build_pixel(kind, positions, params):
    from photutils import aperture as A
    cls = {'circle': A.CircularAperture, 'circ_annulus': A.CircularAnnulus,
           'ellipse': A.EllipticalAperture, 'ell_annulus': A.EllipticalAnnulus,
           'rect': A.RectangularAperture, 'rect_annulus': A.RectangularAnnulus}[kind]
    return cls(positions, **params)


def build_sky(kind, skycoord, params, scale_arcsec, theta_offset=0.0, rng=None, labels=None):
    """Sky aperture whose to_pixel image has (about) the pixel parameters
    `params`: lengths are multiplied by the pixel scale, theta is shifted.
    With `rng`, every angular quantity is expressed in a randomly chosen equivalent unit."""
    import astropy.units as u
    from astropy.coordinates import Angle
    from photutils import aperture as A
    cls = {'circle': A.SkyCircularAperture, 'circ_annulus': A.SkyCircularAnnulus,
           'ellipse': A.SkyEllipticalAperture, 'ell_annulus': A.SkyEllipticalAnnulus,
           'rect': A.SkyRectangularAperture, 'rect_annulus': A.SkyRectangularAnnulus}[kind]
    p = {}
    for k, v in params.items():
        if k == 'theta':
            q = (v - theta_offset) * u.rad
            if rng is not None and rng.random() < 0.6:
                unit = str(rng.choice(['deg', 'arcmin', 'Angle_deg']))
                q = Angle(q.to(u.deg)) if unit == 'Angle_deg' else q.to(u.Unit(unit))
                if labels is not None:
                    labels[k] = unit
        else:
            q = (v * scale_arcsec) * u.arcsec
            if rng is not None and rng.random() < 0.5:
                unit = str(rng.choice(['arcmin', 'deg', 'mas', 'rad']))
                q = q.to(u.Unit(unit))
                if labels is not None:
                    labels[k] = unit
        p[k] = q
    return cls(skycoord, **p)


def scaled(params, f):
    """Same shape, lengths multiplied by f (for lists of apertures)."""
    return {k: (v if k == 'theta' else v * f) for k, v in params.items()}


# ----------------------------------------------------------------------
# positions
# ----------------------------------------------------------------------
def gen_position(rng, loc, shape, ext):
    ny, nx = shape

    def free(n):
        return float(rng.uniform(-0.5, n - 0.5))

    def inner(n):
        if n - 1 - 2 * ext > 0:
            return float(rng.uniform(ext, n - 1 - ext))
        return (n - 1) / 2.0 + float(rng.uniform(-0.3, 0.3))

    def low():
        return float(rng.uniform(-0.5 - 0.95 * ext, -0.5 + 0.95 * ext))

    def high(n):
        return float(rng.uniform(n - 0.5 - 0.95 * ext, n - 0.5 + 0.95 * ext))

    if loc == 'inside':
        return inner(nx), inner(ny)
    if loc == 'left':
        return low(), free(ny)
    if loc == 'right':
        return high(nx), free(ny)
    if loc == 'bottom':
        return free(nx), low()
    if loc == 'top':
        return free(nx), high(ny)
    if loc == 'corner_bl':
        return low(), low()
    if loc == 'corner_br':
        return high(nx), low()
    if loc == 'corner_tl':
        return low(), high(ny)
    if loc == 'corner_tr':
        return high(nx), high(ny)
    if loc == 'graze':
        # the bounding box just touches / just misses one side
        d = float(rng.choice([-1.5, -1.0, -0.5, -1e-9, 0.0, 1e-9, 0.5, 1.0, 1.5])) + float(rng.choice([0.0, rng.uniform(-0.5, 0.5)]))
        side = int(rng.integers(0, 4))
        if side == 0:
            return -0.5 - ext + d, free(ny)
        if side == 1:
            return nx - 0.5 + ext - d, free(ny)
        if side == 2:
            return free(nx), -0.5 - ext + d
        return free(nx), ny - 0.5 + ext - d
    if loc in ('outside', 'far'):
        gap = float(rng.uniform(1.6, 12.0)) if loc == 'outside' else float(10 ** rng.uniform(3, 6))
        side = int(rng.integers(0, 8))
        x, y = free(nx), free(ny)
        if side in (0, 4, 5):
            x = -0.5 - ext - gap
        if side in (1, 6, 7):
            x = nx - 0.5 + ext + gap
        if side in (2, 4, 6):
            y = -0.5 - ext - gap
        if side in (3, 5, 7):
            y = ny - 0.5 + ext + gap
        return x, y
    if loc == 'tangent':
        # shape extent (exact for circles and theta=0 ellipses) tangent to a pixel edge from the inside
        x = float(rng.integers(0, max(1, nx))) - 0.5 + ext
        y = float(rng.integers(0, max(1, ny))) - 0.5 + (ext if rng.random() < 0.3 else float(rng.uniform(0.2, 0.8)))
        if rng.random() < 0.5:
            x, y = y, x
        return x, y
    if loc == 'integer':
        return float(rng.integers(-2, nx + 2)), float(rng.integers(-2, ny + 2))
    if loc == 'half':
        return float(rng.integers(-2, nx + 2)) + 0.5, float(rng.integers(-2, ny + 2)) - 0.5
    raise ValueError(loc)


# ----------------------------------------------------------------------
# images
# ----------------------------------------------------------------------
def gen_image(rng, shape, style):
    """style: 'noise' signed continuous, 'ints' small integers (ties), 'ramp' asymmetric gradient + noise,
    'blob' positive elliptical Gaussians on a positive pedestal, 'const'."""
    ny, nx = shape
    yy, xx = np.mgrid[0:ny, 0:nx].astype(float)
    if style == 'noise':
        return rng.normal(0.0, 10.0, shape)
    if style == 'ints':
        return rng.integers(-3, 9, shape).astype(float)
    if style == 'ramp':
        return (3.0 * xx - 1.7 * yy + 0.31 * xx * yy + rng.normal(0, 1.0, shape) + float(rng.uniform(-20, 50)))
    if style == 'const':
        return np.full(shape, float(rng.integers(1, 5)))
    if style == 'blob':
        img = float(rng.uniform(0.5, 3.0)) + rng.uniform(0.0, 0.3, shape)
        for _ in range(int(rng.integers(1, 4))):
            x0, y0 = rng.uniform(-1, nx), rng.uniform(-1, ny)
            sx, sy = rng.uniform(0.8, 5.0, 2)
            th = rng.uniform(0, np.pi)
            c, s = np.cos(th), np.sin(th)
            u_ = (xx - x0) * c + (yy - y0) * s
            v_ = -(xx - x0) * s + (yy - y0) * c
            img = img + float(rng.uniform(5, 200)) * np.exp(-0.5 * ((u_ / sx) ** 2 + (v_ / sy) ** 2))
        return img
    raise ValueError(style)


def sprinkle_nonfinite(rng, data, frac=0.08):
    d = data.copy()
    r = rng.random(d.shape)
    d[r < frac * 0.5] = np.nan
    d[(r >= frac * 0.5) & (r < frac * 0.8)] = np.inf
    d[(r >= frac * 0.8) & (r < frac)] = -np.inf
    return d


def gen_mask(rng, shape, style):
    """style: 'random', 'dense', 'block', 'full', 'rowcol', 'none-true'."""
    if style == 'random':
        return rng.random(shape) < float(rng.choice([0.05, 0.2, 0.5]))
    if style == 'dense':
        return rng.random(shape) < 0.9
    if style == 'full':
        return np.ones(shape, bool)
    if style == 'empty':
        return np.zeros(shape, bool)
    if style == 'block':
        m = np.zeros(shape, bool)
        y0, x0 = int(rng.integers(0, shape[0])), int(rng.integers(0, shape[1]))
        m[y0:y0 + int(rng.integers(1, 8)), x0:x0 + int(rng.integers(1, 8))] = True
        return m
    if style == 'rowcol':
        m = np.zeros(shape, bool)
        m[int(rng.integers(0, shape[0])), :] = True
        m[:, int(rng.integers(0, shape[1]))] = True
        return m
    raise ValueError(style)


# ----------------------------------------------------------------------
# WCS
# ----------------------------------------------------------------------
def gen_wcs(rng, shape):
    """Undistorted TAN WCS with random scale, rotation and parity.
    Returns (wcs, scale_arcsec_per_pixel)."""
    from astropy.wcs import WCS
    ny, nx = shape
    w = WCS(naxis=2)
    w.wcs.ctype = ['RA---TAN', 'DEC--TAN']
    w.wcs.crval = [float(rng.uniform(0, 360)), float(rng.uniform(-65, 65))]
    w.wcs.crpix = [nx / 2.0 + float(rng.uniform(-3, 3)), ny / 2.0 + float(rng.uniform(-3, 3))]
    scale = float(10 ** rng.uniform(-1.3, 0.3))        # arcsec / pixel
    s = scale / 3600.0
    parity = -1.0 if rng.random() < 0.75 else 1.0
    w.wcs.cdelt = [parity * s, s]
    th = float(rng.uniform(-np.pi, np.pi)) if rng.random() < 0.8 else 0.0
    w.wcs.pc = [[np.cos(th), -np.sin(th)], [np.sin(th), np.cos(th)]]
    w.wcs.set()
    return w, scale


# ----------------------------------------------------------------------
# generic axes (drawn independently of the generator class)
# ----------------------------------------------------------------------
def gen_magnitude(rng, plain=0.5):
    """(factor, label): overall scale of a value-like input. Half of the draws are plain (1.0); the rest are
    powers of two 2**-60..2**40 or decimal 1e-20..1e10 (exact decades and in-between values)."""
    r = rng.random()
    if r < plain:
        return 1.0, 'plain'
    if r < plain + (1 - plain) * 0.45:
        return float(2.0 ** int(rng.integers(-60, 41))), 'pow2'
    if rng.random() < 0.5:
        return float(10.0 ** int(rng.integers(-20, 11))), 'decade'
    return float(10.0 ** rng.uniform(-20, 10)), 'decimal'


def gen_elongated_shape(rng):
    """strongly non-square frames (nx >= ny + 2 or the reverse), incl. 1xN / Nx1"""
    a, b = int(rng.integers(1, 6)), int(rng.integers(20, 61))
    return (a, b) if rng.random() < 0.5 else (b, a)


THETA_FORMS = ['float', 'np.float64', 'np.float32', 'int', 'Quantity_rad', 'Quantity_deg', 'Quantity_arcmin',
               'Angle_deg', 'Angle_hourangle']


def theta_form(rng, theta_rad):
    """Return (constructor value, label, radians the value denotes exactly as a float).
    A float-like value is radians (documented); Quantities / Angles carry their unit."""
    import astropy.units as u
    from astropy.coordinates import Angle
    f = str(rng.choice(THETA_FORMS))
    if f == 'float':
        return float(theta_rad), f, float(theta_rad)
    if f == 'np.float64':
        return np.float64(theta_rad), f, float(theta_rad)
    if f == 'np.float32':
        v = np.float32(theta_rad)
        return v, f, float(v)
    if f == 'int':
        v = int(round(theta_rad))
        return v, f, float(v)
    if f == 'Quantity_rad':
        return theta_rad * u.rad, f, float(theta_rad)
    if f == 'Quantity_deg':
        d = float(np.degrees(theta_rad)) if rng.random() < 0.5 else float(rng.choice([35.0, -120.0, 90.0, 10.0, 200.0]))
        return d * u.deg, f, float(np.radians(d))
    if f == 'Quantity_arcmin':
        d = float(np.degrees(theta_rad)) * 60.0
        return d * u.arcmin, f, float(np.radians(d / 60.0))
    if f == 'Angle_deg':
        d = float(np.degrees(theta_rad))
        return Angle(d, 'deg'), f, float(np.radians(d))
    h = float(np.degrees(theta_rad)) / 15.0
    return Angle(h, 'hourangle'), 'Angle_hourangle', float(np.radians(h * 15.0))


def size_form(rng, v):
    """Return (constructor value, label, float value it denotes). Sizes are documented as `float`."""
    f = str(rng.choice(['float', 'float', 'np.float64', 'np.float32', 'int']))
    if f == 'np.float64':
        return np.float64(v), f, float(v)
    if f == 'np.float32':
        x = np.float32(v)
        return x, f, float(x)
    if f == 'int' and v >= 1.5:
        x = int(round(v))
        return x, f, float(x)
    return float(v), 'float', float(v)


def apply_forms(rng, kind, params):
    """Draw a call form for every shape parameter. Returns (constructor params, canonical float params
    (theta in radians), labels). Ordering constraints of annuli (inner < outer) are preserved by giving the
    'int' / float32 forms only to the outermost length of an annulus."""
    ctor, canon, labels = {}, {}, {}
    outer_only = {'circ_annulus': ('r_out',), 'ell_annulus': ('a_out',), 'rect_annulus': ('w_out',)}.get(kind)
    for k, v in params.items():
        if k == 'theta':
            c, lab, x = theta_form(rng, v)
        elif outer_only is not None and k not in outer_only:
            c, lab, x = float(v), 'float', float(v)
        else:
            c, lab, x = size_form(rng, v)
            if outer_only is not None and x <= max(params[q] for q in params if q.endswith('_in') and q[0] == k[0]):
                c, lab, x = float(v), 'float', float(v)
        ctor[k], canon[k], labels[k] = c, x, lab
    return ctor, canon, labels


def positions_form(rng, positions, scalar):
    """Equivalent containers for the positions argument."""
    f = str(rng.choice(['as_is', 'ndarray', 'list_of_lists', 'tuple_of_tuples', 'list_of_arrays']))
    if f == 'as_is':
        return positions, f
    arr = np.asarray(positions, dtype=float)
    if f == 'ndarray':
        return arr.copy(), f
    if scalar:
        return ([float(arr[0]), float(arr[1])] if f != 'tuple_of_tuples' else (float(arr[0]), float(arr[1]))), f
    if f == 'list_of_lists':
        return [[float(x), float(y)] for x, y in arr], f
    if f == 'tuple_of_tuples':
        return tuple((float(x), float(y)) for x, y in arr), f
    return [np.array([x, y]) for x, y in arr], f


LAYOUTS = ['C', 'C', 'C', 'F', 'strided', 'offset_view', 'transposed_view', 'negative_stride', 'big_endian']


def relayout(arr, code):
    """A new array with the same values (and native semantics) in another memory layout."""
    if arr is None:
        return None
    a = np.asarray(arr)
    if code == 'F':
        return np.asfortranarray(a.copy())
    if code == 'strided':
        big = np.zeros((a.shape[0] * 2 + 1, a.shape[1] * 3 + 2), dtype=a.dtype)
        v = big[1::2, 2::3][:a.shape[0], :a.shape[1]]
        v[...] = a
        return v
    if code == 'offset_view':
        big = np.full((a.shape[0] + 5, a.shape[1] + 4), 7, dtype=a.dtype)
        v = big[3:3 + a.shape[0], 2:2 + a.shape[1]]
        v[...] = a
        return v
    if code == 'transposed_view':
        return np.ascontiguousarray(a.T).T
    if code == 'negative_stride':
        return np.ascontiguousarray(a[::-1, ::-1])[::-1, ::-1]
    if code == 'big_endian' and a.dtype.kind in 'fiu' and a.dtype.itemsize > 1:
        return a.astype(a.dtype.newbyteorder('>'))
    return a.copy()


# ----------------------------------------------------------------------
# generic axes, second list
# ----------------------------------------------------------------------
DATA_DTYPES = ['float32', 'float32', 'float16', 'float16', 'uint8', 'uint16', 'uint32', 'uint64', 'int8', 'int16',
               'bool', 'int64_big']
ERROR_DTYPES = ['float32', 'float32', 'float16', 'float16', 'uint8', 'uint16', 'int8', 'int16']


def to_dtype(rng, arr, role='data'):
    """(array, label): the image in a narrow / unsigned / huge-integer dtype. The values are whatever the dtype
    holds after the cast (the oracle works on float64 of *those*); they are chosen so that arithmetic carried out
    in the narrow dtype would be visibly wrong (non-integers for float32, sums and squares beyond 65504 for
    float16, values near the limits of the integer dtypes, beyond 2**31 / 2**53 for the wide ones)."""
    a = np.asarray(arr, dtype=float)
    fin = np.isfinite(a)
    scale = float(np.max(np.abs(a[fin]))) if fin.any() and np.max(np.abs(a[fin])) > 0 else 1.0
    unit = np.where(fin, a, 0.0) / scale                     # in [-1, 1]
    dt = str(rng.choice(DATA_DTYPES if role == 'data' else ERROR_DTYPES))
    with np.errstate(all='ignore'):
        if dt == 'float32':
            # non-integer values (non-finite ones survive the cast)
            return ((a * 1.2345678) if role == 'data' else a).astype('float32'), dt
        if dt == 'float16':
            top = float(rng.choice([3.0e4, 6.0e4, 500.0])) if role == 'data' else float(rng.choice([300.0, 2000.0, 20.0]))
            out = np.where(fin, unit * top, a).astype('float16')
            return out, dt
        if dt == 'bool':
            return (unit > 0.3), dt
        if dt == 'int64_big':
            top = float(rng.choice([2.0 ** 33, 2.0 ** 55, 2.0 ** 62]))
            return np.round(unit * top).astype('int64') + int(rng.integers(0, 7)), dt
        info = np.iinfo(dt)
        if info.min == 0:
            v = np.abs(unit)
            top = float(info.max) if dt != 'uint64' else 2.0 ** 63.5
            out = np.floor(v * top * 0.999)
            out = np.clip(out, 0, float(info.max) if dt != 'uint64' else 1.8e19).astype(dt)
            if role == 'error':
                out = np.maximum(out, 1).astype(dt)
            return out, dt
        out = np.clip(np.round(unit * info.max), info.min, info.max).astype(dt)
        if role == 'error':
            out = np.maximum(np.abs(out.astype(float)), 1).astype(dt)
        return out, dt


def snap_half(rng, kind, params):
    """lengths snapped to multiples of 0.5 (shape edges exactly on pixel centres / pixel edges for integer and
    half-integer centres); the inner < outer ordering of annuli is kept, else the parameter stays as it was"""
    p = dict(params)
    for k, v in params.items():
        if k == 'theta':
            if rng.random() < 0.5:
                p[k] = float(rng.choice([0.0, np.pi / 2, np.pi, -np.pi / 2]))
            continue
        p[k] = max(0.5, round(v * 2.0) / 2.0)
    pairs = [('r_in', 'r_out'), ('a_in', 'a_out'), ('b_in', 'b_out'), ('w_in', 'w_out'), ('h_in', 'h_out')]
    for lo, hi in pairs:
        if lo in p and hi in p and not p[lo] < p[hi]:
            p[lo], p[hi] = params[lo], params[hi]
    if kind in ('ell_annulus', 'rect_annulus'):
        a_in, a_out = ('a_in', 'a_out') if kind == 'ell_annulus' else ('w_in', 'w_out')
        if not p[a_in] < p[a_out]:
            return dict(params)
    return p


def ap_snapshot(ap):
    """hashable description of every parameter an aperture holds (values + units)"""
    out = []
    for k in ap._params:
        v = getattr(ap, k)
        if hasattr(v, 'ra') and hasattr(v, 'dec'):
            out.append((k, 'SkyCoord', tuple(np.atleast_1d(v.ra.deg).tolist()), tuple(np.atleast_1d(v.dec.deg).tolist()),
                        v.frame.name))
        elif hasattr(v, 'unit'):
            out.append((k, type(v).__name__, tuple(np.atleast_1d(v.value).tolist()), str(v.unit)))
        else:
            a = np.asarray(v)
            out.append((k, a.shape, tuple(a.ravel().tolist())))
    return tuple(out)


def with_history(rng, ap, data):
    """(aperture, label): an aperture with the same parameters that has a history - a copy, an element / subset of
    a larger aperture obtained by indexing, or an object whose masks / boxes were already used on other data."""
    h = str(rng.choice(['copy', 'indexed', 'used_before', 'used_before']))
    if h == 'copy':
        return ap.copy(), 'copy'
    if h == 'indexed':
        pos = np.atleast_2d(np.asarray(ap.positions, float))
        extra = np.array([[1.5, 2.5], [-3.0, 4.0]])
        pp = {k: getattr(ap, k) for k in ap._params if k != 'positions'}
        big = type(ap)(np.vstack([extra[:1], pos, extra[1:]]), **pp)
        _ = big.bbox, big.area
        if ap.isscalar:
            return big[1], 'indexed_int'
        idx = np.arange(1, 1 + len(pos))
        form = str(rng.choice(['slice', 'list', 'int32', 'uint8', 'bool']))
        if form == 'slice':
            return big[1:1 + len(pos)], 'indexed_slice'
        if form == 'list':
            return big[idx.tolist()], 'indexed_list'
        if form == 'bool':
            b = np.zeros(len(pos) + 2, bool)
            b[idx] = True
            return big[b], 'indexed_bool'
        return big[idx.astype(form)], 'indexed_' + form
    _ = ap.bbox, ap.area
    other = np.ones((7, 9))
    ap.to_mask(method='center')
    ap.do_photometry(other, method='subpixel', subpixels=3)
    ap.area_overlap(other, method='exact')
    return ap, 'used_before'
