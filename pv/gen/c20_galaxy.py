"""C20 generator: noise-free galaxies with concentric elliptical isophotes + fit settings.

Everything is drawn from the case RNG.  The returned spec is a plain dict
(json-able) so it can be shown in evidence samples and replays.
"""
from __future__ import annotations

import math

import numpy as np

from pv.ref import c20_ellipse as ref

FIT_CLASSES = ['free', 'geo_step', 'linear', 'fixed', 'area', 'nearest', 'pa_edge', 'eps_edge', 'offcentre',
               'truth_start', 'fix_noniter', 'controls', 'corner']
# composite classes: the sub-class is drawn per case (keeps the number of classes, each of which every run must
# reach, small enough for a heavily loaded machine)
SUBCLASSES = {'free': ['sersic', 'gauss'], 'fixed': ['fix_center', 'fix_pa', 'fix_eps', 'fix_two'],
              'area': ['area_mean', 'area_median']}


REPRS_FIT = ['float32', 'float32', 'uint16', 'uint16', 'int16', 'int32', 'uint32', 'int64', 'uint64', 'fortran',
             'strided', 'bigendian', 'transposed_view', 'masked_empty']
REPRS_ALL = ['float32', 'float16', 'uint8', 'int8', 'uint16', 'int16', 'int32', 'uint32', 'int64', 'uint64',
             'fortran', 'strided', 'bigendian', 'transposed_view', 'masked_empty', 'masked_nomask', 'masked_far']
# peak counts: near the limits of the narrow dtypes, beyond 2**31 / 2**53 for the wide ones
INT_PEAK = {'uint8': 250.0, 'int8': 125.0, 'uint16': 6.0e4, 'int16': 3.0e4, 'int32': 2.0e9, 'uint32': 4.2e9,
            'int64': 8.0e18, 'uint64': 1.7e19}


def _size(rng, tier):
    hi = 131 if tier == 'thorough' else 101
    nx = int(rng.integers(81, hi + 1))
    ny = nx if rng.random() < 0.5 else int(rng.integers(81, hi + 1))
    return ny, nx


def draw_axes(rng, cls, small):
    """Generic axes drawn independently of the generator class (about half of the cases stay plain):
    frame shape, data magnitude, image dtype/layout/container, call forms of the geometry arguments."""
    ax = dict(plain=bool(rng.random() < 0.5), frame=None, magnitude=None, image_repr=None, pa_form=None,
              centre_np=False, sma_int=False, peak_frac=float(rng.uniform(0.35, 1.0)))
    r = rng.random(6)
    r2 = rng.random(3)
    ax.update(centre_grid=None, geometry_history=False, model_from_slice=False)
    k = int(rng.integers(-50, 31))
    dec = float(10.0 ** rng.uniform(-15.0, 9.0))
    i_repr = int(rng.integers(0, len(REPRS_FIT)))
    i_pa = int(rng.integers(0, 3))
    if ax['plain']:
        return ax
    if not small and cls not in ('area_mean', 'area_median', 'offcentre') and r[0] < 0.35:
        ax['frame'] = 'elongated'
    if r[1] < 0.4:
        ax['magnitude'] = ('pow2', float(2.0 ** k)) if r[1] < 0.2 else ('decimal', dec)
    if r[2] < 0.4:
        ax['image_repr'] = REPRS_FIT[i_repr]
    if r[3] < 0.4:
        ax['pa_form'] = ['negative', 'above_pi', 'numpy_float64'][i_pa]
    ax['centre_np'] = bool(r[4] < 0.3)
    ax['sma_int'] = bool(r[5] < 0.3)
    # second list: (ix) centre exactly on a pixel centre / pixel edge, even and odd; (x) geometry with a history
    ax['centre_grid'] = [None, None, None, 'integer', 'half'][int(r2[0] * 5) % 5]
    ax['geometry_history'] = bool(r2[1] < 0.25)
    ax['model_from_slice'] = bool(r2[2] < 0.25)
    return ax


def draw_truth(rng, cls, tier, small=False):
    """Galaxy truth: frame, centre, eps, pa, radial law."""
    axes = draw_axes(rng, cls, small)
    ny, nx = _size(rng, tier)
    if small or cls in ('area_mean', 'area_median'):
        # the area integrators scan pixels in pure Python: keep the frame small
        ny = nx = int(rng.integers(71, 86))
    m = min(nx, ny)
    # centre: non-integer, well inside the frame
    span = 0.12 if cls != 'offcentre' else 0.22
    x0 = float(nx / 2 + rng.uniform(-span, span) * nx)
    y0 = float(ny / 2 + rng.uniform(-span, span) * ny)
    el = rng.random(5)
    if axes['frame'] == 'elongated':
        # strongly non-square frame, galaxy near the far end of the long axis (still >= 0.36 short sides inside)
        short = int(61 + el[0] * 21)
        long_ = int(161 + el[1] * 61)
        d = (0.36 + 0.14 * el[2]) * short
        along = (long_ - 1 - d) if el[3] < 0.7 else d
        across = short / 2 + (el[4] - 0.5) * 0.2 * short
        if int(el[0] * 1000) % 2:
            ny, nx, x0, y0 = short, long_, float(along), float(across)
        else:
            ny, nx, x0, y0 = long_, short, float(across), float(along)
        m = short
    if cls == 'corner':
        # (viii) centre well inside the frame but nearer EACH corner in turn; the fit goes out to where the path
        # leaves the frame through the two near borders only (left/bottom = negative indices, right/top = beyond)
        ny = nx = int(71 + el[0] * 31)
        if el[1] < 0.5:
            ny = int(71 + el[2] * 31)
        m = min(nx, ny)
        corner = int(el[3] * 4) % 4
        fx, fy = 0.27 + 0.08 * el[4], 0.27 + 0.08 * el[2]
        x0 = float(fx * nx if corner in (0, 2) else (1 - fx) * nx)
        y0 = float(fy * ny if corner in (0, 1) else (1 - fy) * ny)
        # corner 0: small x, small y; 1: large x, small y; 2: small x, large y; 3: large x, large y
        axes['corner'] = ['lower_left', 'lower_right', 'upper_left', 'upper_right'][corner]
    if axes.get('centre_grid') == 'integer':
        x0, y0 = float(round(x0)), float(round(y0))
    elif axes.get('centre_grid') == 'half':
        x0, y0 = float(math.floor(x0)) + 0.5, float(math.floor(y0)) + 0.5
    eps = float(rng.uniform(0.05, 0.8))
    pa = float(rng.uniform(0.0, math.pi))
    if cls == 'pa_edge':
        # position angles at / next to the ends of the [0, pi) range, at the axes and diagonals
        base = [0.0, 0.0, math.pi / 2, math.pi / 4, 3 * math.pi / 4][int(rng.integers(0, 5))]
        off = [0.0, 1e-6, 1e-4, 2e-3, 0.02][int(rng.integers(0, 5))] * float(rng.choice([-1.0, 1.0]))
        pa = float((base + off) % math.pi)
        eps = float(rng.uniform(0.15, 0.8))
    if cls == 'eps_edge':
        eps = float(rng.choice([rng.uniform(0.05, 0.09), rng.uniform(0.72, 0.8)]))
    kind = 'gauss' if cls == 'gauss' else ('sersic' if cls == 'sersic' else
                                           ('gauss' if rng.random() < 0.3 else 'sersic'))
    amp = float(10.0 ** rng.uniform(0.0, 3.0))
    if axes['magnitude']:
        amp = axes['magnitude'][1]
    if kind == 'sersic':
        n = float(rng.uniform(0.7, 4.0))
        scale = float(rng.uniform(0.10, 0.30) * m)
    else:
        n = None
        scale = float(rng.uniform(0.11, 0.20) * m)
    background = float(rng.choice([0.0, 0.0, amp * rng.uniform(0.01, 0.5)]))
    return dict(shape=[ny, nx], x0=x0, y0=y0, eps=eps, pa=pa, kind=kind, amp=amp, scale=scale, n=n,
                background=background, axes=axes, law_scale=1.0)


def draw_init(rng, spec, sma0=None):
    """Initial geometry inside the basin of convergence: centre +-1.5 px (but not more than about a
    third of the start ellipse's semi-minor axis), eps +-0.1, PA +-20 deg, sma0 5-15."""
    if sma0 is None:
        sma0 = float(rng.uniform(5.0, 15.0))
    cmax = min(1.5, 0.35 * sma0 * (1.0 - spec['eps']))
    gx0 = spec['x0'] + float(rng.uniform(-cmax, cmax))
    gy0 = spec['y0'] + float(rng.uniform(-cmax, cmax))
    geps = float(np.clip(spec['eps'] + rng.uniform(-0.1, 0.1), 0.05, 0.85))
    gpa = float((spec['pa'] + math.radians(rng.uniform(-20.0, 20.0))) % math.pi)
    return dict(x0=gx0, y0=gy0, sma=sma0, eps=geps, pa=gpa)


def draw(rng, cls, tier):
    """Draw truth + initial geometry + fit_image keywords for generator class `cls`."""
    if cls in SUBCLASSES:
        cls = SUBCLASSES[cls][int(rng.integers(0, len(SUBCLASSES[cls])))]
    spec = draw_truth(rng, cls, tier)
    spec['subclass'] = cls
    m = min(spec['shape'])
    init = draw_init(rng, spec)
    sma0 = init['sma']
    if cls == 'truth_start':
        # start exactly at the true geometry (certainly inside the basin of convergence)
        init.update(x0=spec['x0'], y0=spec['y0'], eps=spec['eps'], pa=spec['pa'])

    kw = {}
    linear = False
    step = 0.1
    if cls in ('geo_step', 'eps_edge', 'pa_edge', 'offcentre') or rng.random() < 0.25:
        step = float(rng.uniform(0.1, 0.3))
    if cls == 'linear' or (cls in ('fix_center', 'fix_two', 'offcentre', 'nearest') and rng.random() < 0.3) \
            or (cls in ('fix_noniter', 'controls') and rng.random() < 0.4):
        linear = True
        step = float(rng.uniform(1.0, 3.0))
    if cls in ('area_mean', 'area_median'):
        kw['integrmode'] = 'mean' if cls == 'area_mean' else 'median'
        if rng.random() < 0.5:
            linear, step = False, float(rng.uniform(0.1, 0.2))
    elif cls == 'nearest':
        kw['integrmode'] = 'nearest_neighbor'
    elif rng.random() < 0.3:
        kw['integrmode'] = 'bilinear'          # explicit default
    kw['step'] = step
    # growth mode given in the call, or (linear only) through the geometry object
    linear_via = 'call'
    if linear and rng.random() < 0.3:
        linear_via = 'geometry'
    elif linear or rng.random() < 0.3:
        kw['linear'] = linear
    # radial range
    maxfrac = float(rng.uniform(0.30, 0.45))
    if cls == 'offcentre':
        maxfrac = float(rng.uniform(0.40, 0.60))
    if cls in ('area_mean', 'area_median'):
        maxfrac = float(rng.uniform(0.25, 0.33))
    if cls == 'corner':
        # near borders at ~0.27-0.35 of the side, far ones at ~0.65-0.73: leave the frame on the near sides only
        maxfrac = float(rng.uniform(0.45, 0.62))
        cm = ['bilinear', 'nearest_neighbor', 'bilinear', 'nearest_neighbor', 'mean', 'median'][int(rng.integers(0, 6))]
        kw['integrmode'] = cm
        if cm in ('mean', 'median'):
            maxfrac = float(rng.uniform(0.42, 0.5))
    maxsma = float(maxfrac * m)
    r = rng.random()
    if r < 0.45:
        minsma = 0.0
    elif r < 0.55:
        minsma = float(rng.uniform(0.05, 0.5))      # below the smallest fitted ellipse (0.5 px), but not 0
    elif r < 0.75:
        minsma = float(rng.uniform(0.6, 3.0))
    else:
        minsma = float(rng.uniform(1.0, 0.8 * sma0))
    regime = None
    if cls == 'fix_noniter':
        # make the outward pass END in non-iterative mode (stop_code 4) while parameters are held fixed
        regime = ['maxrit_below_sma0', 'maxrit_mid', 'maxsma_beyond_frame'][int(rng.integers(0, 3))]
        if regime == 'maxrit_below_sma0':
            kw['maxrit'] = float(rng.uniform(0.5, 0.95) * sma0)
        elif regime == 'maxrit_mid':
            kw['maxrit'] = float(rng.uniform(1.15 * sma0, max(1.3 * sma0, 0.9 * maxsma)))
        else:
            maxsma = float(rng.uniform(0.65, 1.0) * m)     # the centre is at most 0.62 m from the nearest edge
    if cls == 'corner' and kw.get('integrmode') == 'nearest_neighbor':
        minsma = float(3.0 + 2.0 * r)       # (stay clear of the known zero-gradient crash at sma < ~3)
    kw['minsma'] = minsma
    kw['maxsma'] = maxsma
    if cls == 'controls':
        # keywords that change the control flow of the fit loops; only structural monitors are judged
        if rng.random() < 0.5:
            kw['nclip'] = int(rng.integers(1, 4))
            kw['sclip'] = float(rng.uniform(2.0, 3.5))
        if rng.random() < 0.5:
            kw['fflag'] = float(rng.uniform(0.5, 0.9))
        if rng.random() < 0.5:
            kw['maxgerr'] = float(rng.uniform(0.1, 1.0))
        if rng.random() < 0.5:
            kw['conver'] = float(rng.uniform(0.01, 0.3))
        if rng.random() < 0.5:
            kw['minit'] = int(rng.integers(3, 13))
            kw['maxit'] = int(rng.integers(max(kw['minit'], 10), 61))
        if rng.random() < 0.4:
            kw['maxrit'] = float(rng.uniform(0.6 * sma0, maxsma))
        if rng.random() < 0.3:
            kw['maxsma'] = float(rng.uniform(0.65, 1.0) * m)
    axes = spec['axes']
    ex = rng.random(4)
    extra_fix = None
    if not axes['plain'] and cls not in ('controls', 'fix_noniter'):
        # option combinations drawn independently of the class
        if ex[0] < 0.15 and 'maxrit' not in kw:
            kw['maxrit'] = float(sma0 * 1.15 + ex[1] * max(0.9 * maxsma - 1.15 * sma0, 1.0))
        if ex[2] < 0.2 and cls not in ('fix_center', 'fix_pa', 'fix_eps', 'fix_two', 'truth_start'):
            extra_fix = ['fix_center', 'fix_pa', 'fix_eps'][int(ex[3] * 3) % 3]
    if axes['image_repr'] in ('masked_empty',):
        kw['maxsma'] = min(kw['maxsma'], 18.0)      # MaskedArray element access is ~20x slower
    if axes['sma_int']:
        sma0 = float(int(round(sma0)))
        init['sma'] = sma0
        if 'maxrit' in kw and cls == 'fix_noniter' and regime == 'maxrit_below_sma0':
            kw['maxrit'] = min(kw['maxrit'], 0.95 * sma0)
    if rng.random() < 0.7:
        kw['sma0'] = sma0          # else taken from the geometry object

    fix = dict(fix_center=False, fix_pa=False, fix_eps=False)
    if cls == 'fix_center':
        fix['fix_center'] = True
    elif cls == 'fix_pa':
        fix['fix_pa'] = True
    elif cls == 'fix_eps':
        fix['fix_eps'] = True
    elif cls == 'fix_two':
        a, b = [('fix_center', 'fix_pa'), ('fix_center', 'fix_eps'), ('fix_pa', 'fix_eps')][int(rng.integers(0, 3))]
        fix[a] = fix[b] = True
    elif extra_fix:
        fix[extra_fix] = True
    elif cls == 'fix_noniter' or (cls == 'controls' and rng.random() < 0.4):
        combos = [('fix_center',), ('fix_pa',), ('fix_eps',), ('fix_center', 'fix_pa'), ('fix_center', 'fix_eps'),
                  ('fix_pa', 'fix_eps')]
        for a in combos[int(rng.integers(0, 6))]:
            fix[a] = True
    # a fixed parameter is pinned at the truth (so the free ones can still be
    # recovered) or, half of the time, at its perturbed start value
    fixed_at_truth = bool(rng.random() < 0.5)
    if fixed_at_truth:
        if fix['fix_center']:
            init['x0'], init['y0'] = spec['x0'], spec['y0']
        if fix['fix_pa']:
            init['pa'] = spec['pa']
        if fix['fix_eps']:
            init['eps'] = spec['eps']
    # where the flags are given: fit_image keywords, or the EllipseGeometry constructor
    flags_via = 'call' if (not any(fix.values()) or rng.random() < 0.7) else 'geometry'

    spec.update(regime=regime, no_recovery=(cls == 'controls'))
    spec.update(init=init, fit_kw=kw, fix=fix, fixed_at_truth=fixed_at_truth, flags_via=flags_via,
                linear=linear, linear_via=linear_via)
    return spec


def law_of(spec):
    f = ref.radial_law(spec['kind'], spec['amp'], spec['scale'], spec['n'])
    bg = spec['background']
    sc = spec.get('law_scale', 1.0)
    return lambda r: sc * (f(r) + bg)


def apply_repr(img, kind, spec=None, peak_frac=1.0, far_radius=None):
    """Image `img` (float64, C order) in another dtype / layout / container.

    Returns (library_image, monitor_image, scale): monitor_image is a plain float64 C array holding exactly the
    values of library_image (so results must not depend on the representation); scale = factor applied to the
    values (integer kinds are rescaled to bright counts and rounded)."""
    if kind is None:
        return img, img, 1.0
    if kind in INT_PEAK:
        sc = peak_frac * INT_PEAK[kind] / float(img.max())
        v = np.rint(img * sc).astype(kind)
        return v, v.astype(np.float64), sc
    if kind in ('float32', 'float16'):
        sc = 1.0
        if kind == 'float16':
            sc = 1000.0 / float(img.max())            # keep the values inside the float16 range
        v = (img * sc).astype(kind)
        return v, v.astype(np.float64), sc
    if kind == 'fortran':
        return np.asfortranarray(img), img, 1.0
    if kind == 'transposed_view':
        return np.ascontiguousarray(img.T).T, img, 1.0
    if kind == 'strided':
        big = np.full((2 * img.shape[0] + 3, 3 * img.shape[1] + 2), -1.0e30)
        big[3::2, 2::3] = img
        return big[3::2, 2::3], img, 1.0
    if kind == 'bigendian':
        return img.astype('>f8'), img, 1.0
    if kind == 'masked_empty':
        return np.ma.MaskedArray(img.copy(), mask=np.zeros(img.shape, bool)), img, 1.0
    if kind == 'masked_nomask':
        return np.ma.MaskedArray(img.copy()), img, 1.0
    if kind == 'masked_far':
        yy, xx = np.mgrid[0:img.shape[0], 0:img.shape[1]]
        rr = ref.elliptical_radius(xx, yy, spec['x0'], spec['y0'], spec['eps'], spec['pa'])
        return np.ma.MaskedArray(img.copy(), mask=rr > far_radius), img, 1.0
    raise ValueError(kind)


def int_repr_ok(spec, kind, maxsma):
    """Integer kinds only for modest dynamic range (rounding to counts must stay negligible noise)."""
    if kind not in INT_PEAK:
        return True
    f = law_of(spec)
    return float(f(maxsma * 1.3)) / float(f(0.0)) >= 1.0 / 300.0


def image_of(spec):
    f = ref.radial_law(spec['kind'], spec['amp'], spec['scale'], spec['n'])
    return ref.render(tuple(spec['shape']), spec['x0'], spec['y0'], spec['eps'], spec['pa'], f,
                      spec['background'])
