"""C09 family: PSFPhotometry / IterativePSFPhotometry call histories.

ONE live photometry object receives several calls with different (data,
init_params with/without flux, local_bkg, group_id, id columns, different x/y
column names, error, mask, units).  After every call the returned table and the
post-call observables (fit_info, fit_params, init_params, finder_results,
results, data_unit, make_model_image, make_residual_image, repr) are compared
exactly with a FRESH object built by the same factory (new model, fitter,
grouper, finder, local-background estimator) that makes only that call.  The
configuration attributes must read the same after the call as before.
"""
from __future__ import annotations

import copy

import numpy as np

from pv import core
from pv.gen import c09_axes as AX
from pv.ref import c09_oracle as O

XY_NAMES = [('x', 'y'), ('x_init', 'y_init'), ('x_0', 'y_0'), ('xcentroid', 'ycentroid'), ('x_fit', 'y_fit'),
            ('xpos', 'ypos')]
FLUX_NAMES = ['flux', 'flux_init', 'flux_fit', 'flux_0', 'segment_flux']
CONFIG_ATTRS = ['grouper', 'finder', 'localbkg_estimator', 'fitter', 'fit_shape', 'aperture_radius',
                'xy_bounds', 'fitter_maxiters', 'progress_bar']


def _scene(rng, fwhm, shape, faint_companions=False, edge_xy=None):
    from photutils.psf import CircularGaussianPRF
    ny, nx = shape
    yy, xx = np.mgrid[0:ny, 0:nx]
    nstar = int(rng.integers(2, 7))
    pos = []
    for i in range(nstar):
        if pos and rng.random() < 0.45:      # a close companion (blend)
            x0, y0 = pos[int(rng.integers(0, len(pos)))]
            ang = rng.uniform(0, 2 * np.pi)
            sep = rng.uniform(2.0, 5.5)
            x, y = x0 + sep * np.cos(ang), y0 + sep * np.sin(ang)
            x, y = float(np.clip(x, 3, nx - 4)), float(np.clip(y, 3, ny - 4))
        else:
            x, y = float(rng.uniform(4, nx - 5)), float(rng.uniform(4, ny - 5))
        pos.append((x, y))
    if edge_xy is not None:
        pos[0] = (float(np.clip(edge_xy[0], 0.5, nx - 1.5)), float(np.clip(edge_xy[1], 0.5, ny - 1.5)))
    flux = rng.uniform(300, 3000, nstar)
    hidden = []
    if faint_companions:
        # faint close companions that a peak finder only sees after the bright star was subtracted
        for (x, y), f in zip(pos, flux):
            if rng.random() < 0.7:
                ang, sep = rng.uniform(0, 2 * np.pi), rng.uniform(1.0, 1.6) * fwhm
                hidden.append((x + sep * np.cos(ang), y + sep * np.sin(ang), f * rng.uniform(0.1, 0.3)))
    data = np.zeros(shape)
    for x, y, f in hidden:
        data += CircularGaussianPRF(flux=f, x_0=x, y_0=y, fwhm=fwhm)(xx, yy)
    for (x, y), f in zip(pos, flux):
        data += CircularGaussianPRF(flux=f, x_0=x, y_0=y, fwhm=fwhm)(xx, yy)
    bkg = float(rng.choice([0.0, 5.0, 7.0]))
    data += bkg + rng.normal(0, 1.0, shape)
    return dict(data=data, pos=np.array(pos), flux=flux, bkg=bkg)


def gen_factory(rng, variant, mag=1.0):
    """Returns (make, cfgdesc).  make() builds a brand-new photometry object
    (every component newly constructed) from the same recorded choices."""
    fwhm = float(np.round(rng.uniform(2.0, 3.5), 2))
    mk = int(rng.integers(0, 4)) if rng.random() < 0.8 else int(rng.integers(4, 6))      # model kind
    fit_shape = [(5, 5), 5, (7, 7), (5, 7), (7, 5), (3, 9)][int(rng.integers(0, 6))]
    use_grouper = variant in ('grouped',) or (variant in ('finder', 'iterative') and rng.random() < 0.6)
    min_sep = float(np.round(rng.uniform(3.0, 8.0), 1))
    use_finder = variant in ('finder', 'iterative') or (variant == 'grouped' and rng.random() < 0.3)
    thr = float(rng.uniform(6, 15))
    use_lbkg = rng.random() < 0.5
    ap_r = None if (variant not in ('finder', 'iterative') and rng.random() < 0.15) else float(np.round(rng.uniform(2.5, 5), 1))
    xyb = [None, None, 2.0, (1.5, None), (None, 3.0)][int(rng.integers(0, 5))]
    fk = int(rng.integers(0, 5))       # fitter kind; 0,1 = default argument (shared singleton)
    mode = 'new' if (not use_grouper or rng.random() < 0.5) else 'all'
    maxiters = int(rng.integers(2, 4)) if rng.random() < 0.65 else 1
    sub_shape = [None, (7, 7), 9, (9, 5), (5, 11)][int(rng.integers(0, 5))]
    model_history = bool(rng.random() < 0.3)

    def make():
        from astropy.modeling.fitting import LevMarLSQFitter, LMLSQFitter, TRFLSQFitter
        from photutils.background import LocalBackground, MedianBackground
        from photutils.detection import DAOStarFinder
        from photutils.psf import (CircularGaussianPRF, GaussianPRF, IterativePSFPhotometry, PSFPhotometry,
                                   SourceGrouper)
        if mk == 0:
            model = CircularGaussianPRF(fwhm=fwhm)
        elif mk == 1:
            model = CircularGaussianPRF(fwhm=fwhm)
            model.fwhm.fixed = False                 # an extra fitted parameter
            model.fwhm.bounds = (1.0, 6.0)
        elif mk == 2:
            model = GaussianPRF(x_fwhm=fwhm, y_fwhm=fwhm)
        elif mk == 3:
            model = CircularGaussianPRF(fwhm=fwhm, flux=7.0)
        else:
            from astropy.nddata import NDData
            from photutils.psf import GriddedPSFModel, ImagePSF
            over, size = 2, 25
            gy, gx = np.mgrid[0:size, 0:size] - (size - 1) / 2
            psfs = []
            grid = [(0.0, 0.0), (50.0, 0.0), (0.0, 50.0), (50.0, 50.0)]
            for i in range(4):
                sg = fwhm / 2.3548 * over * (1 + 0.03 * i)
                pp = np.exp(-(gx ** 2 + gy ** 2) / (2 * sg ** 2))
                psfs.append(pp / pp.sum() * over ** 2)
            if mk == 4:     # position-dependent ePSF grid: copies share the interpolator cache
                model = GriddedPSFModel(NDData(np.array(psfs), meta={'grid_xypos': grid, 'oversampling': over}))
            else:
                model = ImagePSF(psfs[0], oversampling=over)
        if model_history:
            # a model that was evaluated and copied before it is handed in
            model(np.arange(5.0), np.arange(5.0))
            model = model.copy()
        kw = dict(grouper=SourceGrouper(min_sep) if use_grouper else None,
                  finder=DAOStarFinder(thr * mag, fwhm) if use_finder else None,
                  localbkg_estimator=LocalBackground(5, 9, MedianBackground()) if use_lbkg else None,
                  aperture_radius=ap_r, xy_bounds=xyb)
        if fk == 2:
            kw['fitter'] = TRFLSQFitter()
        elif fk == 3:
            kw['fitter'] = LevMarLSQFitter()
        elif fk == 4:
            kw['fitter'] = LMLSQFitter()
        if variant == 'iterative':
            return IterativePSFPhotometry(model, fit_shape, mode=mode, maxiters=maxiters, sub_shape=sub_shape, **kw)
        return PSFPhotometry(model, fit_shape, **kw)

    desc = dict(variant=variant, fwhm=fwhm, model=mk, fit_shape=fit_shape, grouper=use_grouper, min_sep=min_sep,
                finder=use_finder, localbkg=use_lbkg, aperture_radius=ap_r, xy_bounds=xyb, fitter=fk)
    if variant == 'iterative':
        desc.update(mode=mode, maxiters=maxiters, sub_shape=sub_shape)
    return make, desc, fwhm, use_finder, use_grouper


def gen_call(case, scenes, use_finder, allow_units, mag=1.0):
    rng = case.rng
    """One call description (plain data, JSON-able summary)."""
    import astropy.units as u
    from astropy.table import QTable, Table
    si = int(rng.integers(0, len(scenes)))
    sc = scenes[si]
    n = len(sc['pos'])
    call = {'scene': si}
    unit = u.Jy if (allow_units and rng.random() < 0.25) else None
    use_init = (not use_finder) or rng.random() < 0.6
    if rng.random() < 0.06:
        use_init = False                  # without a finder: documented ValueError
    init = None
    cols = []
    if use_init:
        xn, yn = XY_NAMES[int(rng.integers(0, len(XY_NAMES)))]
        keep = np.ones(n, bool)
        if n > 2 and rng.random() < 0.3:
            keep[int(rng.integers(0, n))] = False
        degenerate = None
        rdeg = rng.random()
        if rdeg < 0.05:
            keep[:] = False
            keep[int(rng.integers(0, n))] = True         # a single source
            degenerate = 'single_source'
        elif rdeg < 0.09:
            degenerate = 'source_off_image'              # documented ValueError
        elif rdeg < 0.13:
            degenerate = 'source_fully_masked'           # documented ValueError
        elif rdeg < 0.17:
            degenerate = 'integer_positions'
        if degenerate:
            case.note('axis:degenerate_psf:' + degenerate)
            call['degenerate'] = degenerate
        pos = sc['pos'][keep] + rng.normal(0, 0.3, (int(keep.sum()), 2))
        if degenerate == 'source_off_image':
            pos[0] = (-60.0, -40.0)
        if degenerate == 'integer_positions':
            pos = np.round(pos).astype(int)
        elif rng.random() < 0.15:
            pos = np.floor(pos) + 0.5                     # exact half-integers (pixel corners)
            case.note('axis2_halfint_psf_init')
        init = (QTable if rng.random() < 0.7 else Table)()
        if rng.random() < 0.2:
            init['id'] = np.arange(len(pos)) + 1
            cols.append('id')
        init[xn] = pos[:, 0]
        init[yn] = pos[:, 1]
        cols += [xn, yn]
        if rng.random() < 0.4:
            fn = FLUX_NAMES[int(rng.integers(0, len(FLUX_NAMES)))]
            f = sc['flux'][keep] * rng.uniform(0.7, 1.3, len(pos))
            if unit is not None and rng.random() < 0.5:
                init[fn] = (f * 1000.0) * u.mJy           # compatible non-base unit of the column
                case.note('axis:psf_flux_column_unit:mJy_vs_Jy')
            else:
                init[fn] = f * unit if unit is not None else f
            cols.append(fn)
        if rng.random() < 0.3:
            lb = np.full(len(pos), sc['bkg']) + rng.normal(0, 0.2, len(pos)) * mag
            init['local_bkg'] = lb * unit if unit is not None else lb
            cols.append('local_bkg')
        if rng.random() < 0.3:
            init['group_id'] = rng.integers(1, max(2, len(pos) // 2 + 1), len(pos))
            cols.append('group_id')
        if rng.random() < 0.05:
            init.remove_column(xn)            # documented ValueError
            cols.remove(xn)
        if len(init) > 0 and rng.random() < 0.2:
            # provenance: the table handed in is a slice of a larger table
            from astropy.table import vstack as _vstack
            bigt = _vstack([init, init[:1]])
            init = bigt[:len(init)]
            case.note('axis2_provenance_psf_init:slice_of_larger_table')
    data = sc['data']
    error = mask = None
    if rng.random() < 0.3:
        error = np.sqrt(np.abs(np.asarray(data, dtype=float) / mag) + 1.0) * mag
    if rng.random() < 0.3:
        mask = rng.random(data.shape) < 0.03
    if use_init and call.get('degenerate') == 'source_fully_masked':
        mask = np.zeros(data.shape, bool) if mask is None else mask
        px, py = sc['pos'][0]
        mask[max(0, int(py) - 6):int(py) + 7, max(0, int(px) - 6):int(px) + 7] = True
    if rng.random() < 0.08 and np.asarray(data).dtype.kind == 'f':
        data = data.copy()
        data[rng.random(data.shape) < 0.01] = np.nan
        call['nan'] = True
    nddata = bool(rng.random() < 0.08)
    call.update(cols=cols, unit=str(unit), error=error is not None, mask=mask is not None,
                init=None if init is None else type(init).__name__, nddata=nddata)
    args = dict(data=data, unit=unit, error=error, mask=mask, init=init, nddata=nddata)
    return call, args


def _call(obj, args):
    lay = args.get('lay') or (lambda a: None if a is None else a.copy())
    d = lay(args['data'])
    e = lay(args['error'])
    m = lay(args['mask'])
    ip = None if args['init'] is None else args['init'].copy()
    if args.get('nddata'):
        from astropy.nddata import NDData, StdDevUncertainty
        nd = NDData(d, mask=m, unit=args['unit'], uncertainty=None if e is None else StdDevUncertainty(e))
        return obj(nd, init_params=ip)
    if args['unit'] is not None:
        d = d * args['unit']
        e = None if e is None else e * args['unit']
    return obj(d, mask=m, error=e, init_params=ip)


def _attrs(obj, iterative):
    """Post-call public attributes, each as its own request (no image request is made here)."""
    out = {}
    if not iterative:
        for a in ('fit_info', 'fit_params', 'init_params', 'finder_results', 'results', 'data_unit'):
            out[a] = O.request(lambda a=a: getattr(obj, a))
    else:
        def frs():
            return [dict(results=p.results, fit_info=p.fit_info, init_params=p.init_params,
                         finder_results=p.finder_results, fit_params=p.fit_params) for p in obj.fit_results]
        out['fit_results'] = O.request(frs)
    for k, v in O.repr_fields(repr(obj)).items():
        out['repr.' + k] = O.Out(True, value=v)
    return out


PSF_SHAPES = [None, None, (7, 7), 5, (9, 5), 11]


def _gen_image_requests(rng, shape):
    """2-5 make_model_image / make_residual_image requests with varying arguments; include_localbkg
    alternates often so that True->False and False->True orders both occur."""
    reqs = []
    lb = bool(rng.random() < 0.5)
    for j in range(int(rng.integers(2, 6))):
        kind = 'make_model_image' if rng.random() < 0.55 else 'make_residual_image'
        shp = list(shape)
        if kind == 'make_model_image' and rng.random() < 0.3:
            shp = [int(shape[0] + rng.integers(-6, 7)), int(shape[1] + rng.integers(-6, 7))]
        reqs.append(dict(kind=kind, shape=shp, psf_shape=PSF_SHAPES[int(rng.integers(0, len(PSF_SHAPES)))], lbkg=lb))
        if rng.random() < 0.65:
            lb = not lb
    return reqs


def _image(obj, args, rq):
    if rq['kind'] == 'make_model_image':
        return obj.make_model_image(tuple(rq['shape']), psf_shape=rq['psf_shape'], include_localbkg=rq['lbkg'])
    d = args['data'].copy()
    if args['unit'] is not None:
        d = d * args['unit']
    return obj.make_residual_image(d, psf_shape=rq['psf_shape'], include_localbkg=rq['lbkg'])


def _grouping(obj, iterative):
    """group_id columns of the init_params table(s) of the last call (None if there is none)."""
    try:
        if iterative:
            tabs = [p.init_params for p in obj.fit_results]
        else:
            tabs = [obj.init_params]
        if not tabs or any(t is None for t in tabs):
            return None
        return [np.asarray(t['group_id']) for t in tabs]
    except (KeyError, TypeError):
        return None


def _config(obj, iterative):
    """Public configuration as read from the object: objects by identity, values by value."""
    snap = {}
    if iterative:
        for a in ('maxiters', 'mode', 'sub_shape'):
            snap[a] = ('value', O.canon(getattr(obj, a)))
        for k, v in O.repr_fields(repr(obj)).items():
            snap['repr.' + k] = ('value', v)
        return snap
    for a in CONFIG_ATTRS:
        v = getattr(obj, a)
        if a in ('grouper', 'finder', 'localbkg_estimator', 'fitter'):
            snap[a] = ('identity', v)
        else:
            snap[a] = ('value', O.canon(v))
    m = obj.psf_model
    snap['psf_model'] = ('identity', m)
    snap['psf_model.parameters'] = ('value', O.canon(m))
    return snap


def run(case, variant):
    rng = case.rng
    iterative = variant == 'iterative'
    mag = AX.scale(case, 'magnitude_psf', p_plain=0.6)
    lay = AX.layout(case, 'layout_psf')
    make, desc, fwhm, use_finder, use_grouper = gen_factory(rng, variant, mag)
    desc['magnitude'] = mag
    nscene = int(rng.integers(2, 4))
    scenes = []
    for _ in range(nscene):
        shp = AX.image_shape(case, 32, 49, 'shape_psf')
        exy = AX.edge_position(case, 'psf', shp, margin=6.0, reach=2.0)[:2] if rng.random() < 0.5 else None
        scenes.append(_scene(rng, fwhm, shp, faint_companions=iterative, edge_xy=exy))
    dk = AX.dtype_kind(case, 'psf_data', p_plain=0.7, allow=('float32', 'uint16', 'int16_limit', 'float16', 'uint32_big'))
    mkind = AX.mask_kind(case, 'psf')
    for sc_ in scenes:
        sc_['data'] = sc_['data'] * mag
        sc_['flux'] = sc_['flux'] * mag
        sc_['bkg'] = sc_['bkg'] * mag
        if dk.kind != 'float64' and not use_finder:
            sc_['data'] = dk(sc_['data'], mag)
    ncalls = int(rng.integers(2, 6)) if not iterative else int(rng.integers(2, 4))
    calls = [gen_call(case, scenes, use_finder, allow_units=not use_finder, mag=mag) for _ in range(ncalls)]
    for c_, a_ in calls:
        a_['lay'] = lay
        if mkind.kind == 'all_false' and a_['mask'] is None:
            a_['mask'] = np.zeros(a_['data'].shape, bool)
            c_['mask'] = 'all_false'
    calllog = []
    case.params = dict(desc, calls=calllog, nstars=[len(s['pos']) for s in scenes])
    case.digest = core.arr_digest(*[s['data'] for s in scenes]) + core.digest([desc, [c for c, _ in calls]])
    case.nontrivial = ncalls >= 2

    live = make()
    prior_gid = False
    for k, (cdesc, args) in enumerate(calls):
        calllog.append(dict(cdesc))
        cur_gid = 'group_id' in cdesc['cols']
        inner = live._psfphot if iterative else live
        # known-mechanism key only (never a verdict): has the configured grouper already been dropped?
        lost = bool(use_grouper and inner.grouper is None)
        mech = {'family': 'psfphot', 'cls': 'Iterative' if iterative else 'PSFPhotometry', 'call': 'first' if k == 0 else 'later',
                'grouper_cfg': bool(use_grouper), 'cur_group_id': bool(cur_gid), 'prior_group_id_call': bool(prior_gid),
                'grouper_lost_earlier': lost}
        before = _config(live, iterative)
        o_live = O.request(lambda: _call(live, args))
        after = _config(live, iterative)
        fresh = make()
        o_fresh = O.request(lambda: _call(fresh, args))
        case.note('psf_calls')
        if o_live.ok and o_live.value is not None:
            case.note('psf_calls_returning_table')
            if iterative and len(live.fit_results) > 1:
                case.note('iterpsf_calls_with_2plus_iterations')
            if int(np.max(o_live.value['group_size'])) > 1:
                case.note('psf_calls_with_grouped_fit')
        elif o_live.ok:
            case.note('psf_calls_returning_None')
        else:
            case.note('psf_calls_raising:' + str(o_live.etype))

        # configuration must read the same after the call as before it
        for name, (kind, v0) in before.items():
            v1 = after[name][1]
            if kind == 'identity':
                ok, why = (v1 is v0), f'{v0!r:.80} -> {v1!r:.80}'
            else:
                ok, _, why = O.deep_same(v0, v1)
            case.check(ok, 'psf_config_unchanged_by_call', dict(mech, attr=name), why=why)

        consequential = False
        if lost and not cur_gid:
            # the configured grouper is gone (reported by psf_config_unchanged_by_call when it happened):
            # judge the grouping alone first; if it differs every fitted number is a consequence of it.
            # The grouping is read from the public init_params table, which exists even when the call
            # raised later on.
            gl, gf = _grouping(live, iterative), _grouping(fresh, iterative)
            if gl is not None and gf is not None:
                ok, _, why = O.deep_same(O.canon(gl), O.canon(gf))
                case.check(ok, 'psf_grouping_vs_fresh', mech, why=why)
                consequential = not ok
        if consequential:
            case.note('psf_calls_not_compared_further_after_lost_grouper')
        else:
            O.compare(case, o_live, o_fresh, 'psf_call_vs_fresh', mech)
            # public attributes right after the call; `fresh` never receives an image request
            a_fresh = _attrs(fresh, iterative)
            a_live = _attrs(live, iterative)
            for name in a_live:
                O.compare(case, a_live[name], a_fresh[name], 'psf_post_vs_fresh', dict(mech, attr=name),
                          devname='psf_post:' + name)
            # a sequence of image requests with varying arguments on the live object; each one is judged
            # against an object that made the same fit call and ONLY that request (a deep copy of the
            # untouched fresh object; one request per call also against a really new object)
            reqs = _gen_image_requests(rng, args['data'].shape)
            k_new = int(rng.integers(0, len(reqs))) if rng.random() < 0.5 else -1
            seen_true = seen_false = False
            for j, rq in enumerate(reqs):
                mi = dict(mech, attr=rq['kind'], include_localbkg=bool(rq['lbkg']), request='first' if j == 0 else 'later',
                          prior_request_with_localbkg=bool(seen_true), prior_request_without_localbkg=bool(seen_false))
                o_l = O.request(lambda: _image(live, args, rq))
                twin = copy.deepcopy(fresh)
                o_t = O.request(lambda: _image(twin, args, rq))
                O.compare(case, o_l, o_t, 'psf_image_vs_fresh', mi, devname='psf_image:' + rq['kind'])
                if j == k_new:
                    new = make()
                    O.request(lambda: _call(new, args))
                    o_n = O.request(lambda: _image(new, args, rq))
                    O.compare(case, o_l, o_n, 'psf_image_vs_new_object', mi, devname='psf_image_new:' + rq['kind'])
                case.note('psf_image_requests')
                if j > 0 and (seen_true if not rq['lbkg'] else seen_false):
                    case.note('psf_image_requests_after_opposite_localbkg')
                seen_true |= bool(rq['lbkg'])
                seen_false |= not rq['lbkg']
            calllog[-1]['images'] = [[r['kind'][5:-6], r['psf_shape'], r['lbkg'], r['shape'] != list(args['data'].shape)]
                                     for r in reqs]
            # the image requests must not have changed what the object reports
            a_live2 = _attrs(live, iterative)
            for name in a_live2:
                O.compare(case, a_live2[name], a_fresh[name], 'psf_post_after_images_vs_fresh', dict(mech, attr=name))
        prior_gid = prior_gid or cur_gid
