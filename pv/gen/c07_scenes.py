"""Scene generator shared by C07 and C08: small images + hostile segmentation maps.

A Scene holds plain float64/int arrays (never Quantities); `catalog_kwargs`
wraps copies in units when the scene has one, so the library never sees the
arrays the oracle reads.

Segmentation-map ingredients (`kinds`): blob, rect, single, line, donut (ring
label + core label inside the ring's bounding box), split (one ellipse cut into
2-3 touching labels), edge (shape clipped by the image border), walk (irregular
8-connected random growth).  Later shapes only claim free pixels, so touching
and partly nested configurations arise everywhere.
"""
from __future__ import annotations

import numpy as np

ALL_KINDS = ('blob', 'rect', 'single', 'line', 'donut', 'split', 'edge', 'walk')


class Scene:
    def __init__(self):
        self.shape = None
        self.seg = None          # int array of labels
        self.labels = None       # sorted label numbers
        self.data = None
        self.conv = None
        self.error = None
        self.mask = None
        self.background = None
        self.unit = None         # astropy unit or None
        self.wcs = None
        self.localbkg_width = 0
        self.kron_params = (2.5, 1.4, 0.0)
        self.apermask_method = 'correct'
        self.kinds = []
        self.info = {}
        self.layout = {}         # array name -> 'F' | 'strided' | 'bigendian' | 'float32' (how the library sees it)
        self.callform = {}       # argument name -> form tag (how scalar / sequence arguments are passed)
        self.axes = []           # generic axes exercised by this scene (evidence counters)
        self.provenance = {}     # history of the objects handed to SourceCatalog (segmentation image, detection cat)

    def copy(self):
        s = Scene()
        for k, v in self.__dict__.items():
            if isinstance(v, np.ndarray):
                v = v.copy()
            elif isinstance(v, (list, dict)):
                v = type(v)(v)
            setattr(s, k, v)
        return s

    def scale(self, name, factor):
        a = getattr(self, name)
        if a is not None and a.dtype.kind == 'f':
            with np.errstate(all='ignore'):
                setattr(self, name, a * factor)

    def describe(self):
        d = dict(shape=list(self.shape), nlabels=len(self.labels), labels=[int(x) for x in self.labels],
                 kinds=list(self.kinds), conv=self.conv is not None, error=self.error is not None,
                 mask=self.mask is not None, background=self.background is not None,
                 unit=None if self.unit is None else str(self.unit), wcs=self.wcs is not None,
                 localbkg_width=int(self.localbkg_width), dtype=str(self.data.dtype))
        d.update(self.info)
        if self.layout:
            d['layout'] = dict(self.layout)
        if self.callform:
            d['callform'] = dict(self.callform)
        if self.axes:
            d['axes'] = list(self.axes)
        return d

    def arrays(self):
        return (self.data, self.seg, self.conv, self.error, self.mask, self.background)


# ----------------------------------------------------------------------
# segmentation maps
# ----------------------------------------------------------------------
def _ellipse(shape, yc, xc, a, b, theta):
    yy, xx = np.indices(shape)
    dx, dy = xx - xc, yy - yc
    ct, st = np.cos(theta), np.sin(theta)
    u = (dx * ct + dy * st) / a
    v = (-dx * st + dy * ct) / b
    return u * u + v * v <= 1.0


def _walk(rng, shape, y0, x0, n):
    """Irregular 8-connected region grown pixel by pixel."""
    m = np.zeros(shape, bool)
    pts = [(y0, x0)]
    m[y0, x0] = True
    for _ in range(n * 4):
        if len(pts) >= n:
            break
        y, x = pts[int(rng.integers(0, len(pts)))]
        dy, dx = int(rng.integers(-1, 2)), int(rng.integers(-1, 2))
        yy, xx = y + dy, x + dx
        if 0 <= yy < shape[0] and 0 <= xx < shape[1] and not m[yy, xx]:
            m[yy, xx] = True
            pts.append((yy, xx))
    return m


def _shape_masks(rng, shape, kind):
    """Return a list of boolean footprints (one per label) for one ingredient."""
    ny, nx = shape
    def U(a, b):
        return rng.uniform(min(a, b), max(a, b))
    yc, xc = U(1, ny - 2), U(1, nx - 2)
    if kind == 'blob':
        return [_ellipse(shape, yc, xc, rng.uniform(1.2, 6), rng.uniform(1.0, 4), rng.uniform(0, np.pi))]
    if kind == 'rect':
        h, w = int(rng.integers(1, 8)), int(rng.integers(1, 8))
        y0, x0 = int(rng.integers(0, ny)), int(rng.integers(0, nx))
        m = np.zeros(shape, bool)
        m[y0:y0 + h, x0:x0 + w] = True
        return [m]
    if kind == 'single':
        m = np.zeros(shape, bool)
        m[int(rng.integers(0, ny)), int(rng.integers(0, nx))] = True
        return [m]
    if kind == 'line':
        m = np.zeros(shape, bool)
        k = int(rng.integers(2, 9))
        y0, x0 = int(rng.integers(0, ny)), int(rng.integers(0, nx))
        dy, dx = [(0, 1), (1, 0), (1, 1), (1, -1)][int(rng.integers(0, 4))]
        for i in range(k):
            y, x = y0 + i * dy, x0 + i * dx
            if 0 <= y < ny and 0 <= x < nx:
                m[y, x] = True
        return [m]
    if kind == 'donut':
        ro = rng.uniform(3.0, 7.0)
        ri = rng.uniform(1.2, ro - 1.2)
        rc = ri if rng.random() < 0.5 else rng.uniform(0.6, ri)     # touching or detached core
        yc, xc = U(3, ny - 4), U(3, nx - 4)
        outer = _ellipse(shape, yc, xc, ro, ro, 0.0)
        inner = _ellipse(shape, yc, xc, ri, ri, 0.0)
        core = _ellipse(shape, yc, xc, rc, rc, 0.0) & inner
        if rng.random() < 0.3:                                      # off-centre core
            core = _ellipse(shape, yc + rng.uniform(-1, 1), xc + rng.uniform(-1, 1), rc * 0.7, rc * 0.7, 0) & inner
        return [outer & ~inner, core]
    if kind == 'split':
        e = _ellipse(shape, yc, xc, rng.uniform(2.5, 7), rng.uniform(2.0, 5), rng.uniform(0, np.pi))
        yy, xx = np.indices(shape)
        ang = rng.uniform(0, np.pi)
        side = (xx - xc) * np.cos(ang) + (yy - yc) * np.sin(ang)
        if rng.random() < 0.5:
            return [e & (side < 0), e & (side >= 0)]
        t = rng.uniform(0.5, 2.0)
        return [e & (side < -t), e & (side >= -t) & (side < t), e & (side >= t)]
    if kind == 'edge':
        which = int(rng.integers(0, 6))
        r1, r2 = rng.uniform(2, 6), rng.uniform(1.5, 4)
        if which == 0:
            yc, xc = rng.uniform(-1.5, 1.0), rng.uniform(0, nx)
        elif which == 1:
            yc, xc = rng.uniform(ny - 2.0, ny + 0.5), rng.uniform(0, nx)
        elif which == 2:
            yc, xc = rng.uniform(0, ny), rng.uniform(-1.5, 1.0)
        elif which == 3:
            yc, xc = rng.uniform(0, ny), rng.uniform(nx - 2.0, nx + 0.5)
        elif which == 4:                                            # corner
            yc, xc = [(-0.5, -0.5), (-0.5, nx - 0.5), (ny - 0.5, -0.5), (ny - 0.5, nx - 0.5)][int(rng.integers(0, 4))]
        else:                                                       # full row / column along the border
            m = np.zeros(shape, bool)
            if rng.random() < 0.5:
                m[int(rng.choice([0, ny - 1])), :] = True
            else:
                m[:, int(rng.choice([0, nx - 1]))] = True
            return [m]
        return [_ellipse(shape, yc, xc, r1, r2, rng.uniform(0, np.pi))]
    if kind == 'walk':
        return [_walk(rng, shape, int(rng.integers(0, ny)), int(rng.integers(0, nx)), int(rng.integers(3, 30)))]
    raise ValueError(kind)


def gen_segmap(rng, shape, kinds, nmax=8, nmin=1, label_mode='consecutive'):
    """Place ingredients until nmin..nmax labels exist. Returns (seg, labels, footprint centres)."""
    seg = np.zeros(shape, dtype=np.int32)
    regions = []
    target = int(rng.integers(nmin, nmax + 1))
    tries = 0
    while len(regions) < target and tries < 60:
        tries += 1
        kind = kinds[int(rng.integers(0, len(kinds)))]
        for m in _shape_masks(rng, shape, kind):
            m = m & (seg == 0)
            if m.sum() == 0 or len(regions) >= nmax:
                continue
            regions.append(m)
            seg[m] = len(regions)          # provisional label
    if not regions:
        m = np.zeros(shape, bool)
        m[shape[0] // 2, shape[1] // 2] = True
        regions.append(m)
        seg[m] = 1
    n = len(regions)
    if label_mode == 'consecutive':
        labs = np.arange(1, n + 1)
    elif label_mode == 'big':
        labs = np.sort(rng.choice(np.arange(1, 100000), size=n, replace=False))
    else:  # nonconsecutive
        labs = np.sort(rng.choice(np.arange(1, max(60, 3 * n)), size=n, replace=False))
    perm = rng.permutation(n)              # label order independent of placement/raster order
    out = np.zeros(shape, dtype=np.int32)
    for k, m in enumerate(regions):
        out[m] = labs[perm[k]]
    return out, np.sort(labs).astype(int)


# ----------------------------------------------------------------------
# pixel data
# ----------------------------------------------------------------------
def _sources_image(rng, shape, seg, labels):
    yy, xx = np.indices(shape)
    img = np.zeros(shape)
    for lab in labels:
        ys, xs = np.nonzero(seg == lab)
        k = int(rng.integers(0, len(ys)))
        y0, x0 = ys[k] + rng.uniform(-0.5, 0.5), xs[k] + rng.uniform(-0.5, 0.5)
        sy, sx = rng.uniform(0.8, 4), rng.uniform(0.8, 4)
        img += rng.uniform(5, 200) * np.exp(-0.5 * (((yy - y0) / sy) ** 2 + ((xx - x0) / sx) ** 2))
    return img


def gen_data(rng, shape, seg, labels, mode):
    """mode: smooth | noisy | negative | ties | flat | random"""
    if mode == 'ties':
        return rng.integers(-2, 6, size=shape).astype(float)
    if mode == 'flat':
        return np.full(shape, float(rng.integers(1, 5)))
    if mode == 'random':
        return rng.normal(0, 10, shape) ** 2 * rng.choice([1.0, 1e-3, 1e4])
    if mode == 'oversub':
        # background over-subtracted: faint and bright sources minus a constant -> negative totals, zero Kron
        # radii and flux-fraction radii without a solution at arbitrary rows
        yy, xx = np.indices(shape)
        img = np.zeros(shape)
        for lab in labels:
            ys, xs = np.nonzero(seg == lab)
            k = int(rng.integers(0, len(ys)))
            amp = float(rng.choice([0.5, 3.0, 20.0, 60.0, 200.0]))
            sy, sx = rng.uniform(1.0, 4), rng.uniform(1.0, 4)
            img += amp * np.exp(-0.5 * (((yy - ys[k]) / sy) ** 2 + ((xx - xs[k]) / sx) ** 2))
        return img + rng.normal(0, 0.3, shape) - float(rng.uniform(3.0, 12.0))
    if mode == 'undetected':
        # a band in which the sources are not detected: smooth low-amplitude pattern around zero
        yy, xx = np.indices(shape)
        return (3.0 * np.sin(rng.uniform(0.2, 0.5) * xx + rng.uniform(0, 6)) * np.cos(rng.uniform(0.2, 0.4) * yy - 1.0)
                + rng.normal(0, 0.2, shape))
    img = _sources_image(rng, shape, seg, labels)
    if mode == 'smooth':
        return img + rng.uniform(0.0, 2.0)
    if mode == 'noisy':
        return img + rng.normal(1.0, 3.0, shape)
    if mode == 'negative':
        return img * 0.1 + rng.normal(-2.0, 4.0, shape)
    raise ValueError(mode)


def box_smooth(a):
    """3x3 mean filter with edge replication (numpy only)."""
    p = np.pad(a, 1, mode='edge')
    out = np.zeros_like(a, dtype=float)
    for dy in range(3):
        for dx in range(3):
            out += p[dy:dy + a.shape[0], dx:dx + a.shape[1]]
    return out / 9.0


def plane_background(rng, shape):
    """Deliberately non-symmetric background: strong, different x and y gradients + ripple."""
    yy, xx = np.indices(shape)
    a, b = rng.uniform(0.5, 3.0), rng.uniform(-9.0, -4.0)
    if rng.random() < 0.5:
        a, b = b, a
    return 50.0 + a * xx + b * yy + 0.7 * np.sin(0.9 * xx) * np.cos(0.4 * yy) + rng.normal(0, 0.05, shape)


def simple_wcs(rng, shape, wide=False):
    """TAN WCS; wide=True: arc-minute pixels, so scale and orientation vary measurably over the image."""
    from astropy.wcs import WCS
    w = WCS(naxis=2)
    w.wcs.crpix = [shape[1] / 2.0 + float(rng.uniform(-3, 3)), shape[0] / 2.0 + float(rng.uniform(-3, 3))]
    sc = float(rng.uniform(0.5e-4, 3e-4)) if not wide else float(rng.uniform(0.01, 0.05))
    th = float(rng.uniform(0, 2 * np.pi))
    w.wcs.cd = np.array([[-sc * np.cos(th), sc * np.sin(th)], [sc * np.sin(th), sc * np.cos(th)]])
    w.wcs.crval = [float(rng.uniform(0, 360)), float(rng.uniform(-70, 70))]
    w.wcs.ctype = ['RA---TAN', 'DEC--TAN']
    return w


def cut_mask(rng, shape, seg, labels, mode):
    """mode: sparse | half | stripes | full_source (one source fully masked + sparse elsewhere)"""
    yy, xx = np.indices(shape)
    if mode == 'sparse':
        return rng.random(shape) < rng.choice([0.05, 0.2, 0.5])
    if mode == 'half':
        lab = labels[int(rng.integers(0, len(labels)))]
        ys, xs = np.nonzero(seg == lab)
        k = int(rng.integers(0, len(ys)))
        ang = rng.uniform(0, 2 * np.pi)
        return ((xx - xs[k]) * np.cos(ang) + (yy - ys[k]) * np.sin(ang)) > 0.25
    if mode == 'stripes':
        p = int(rng.integers(2, 5))
        return ((xx + (yy if rng.random() < 0.5 else 0)) % p) == 0
    if mode == 'full_source':
        m = rng.random(shape) < 0.1
        k = int(rng.integers(1, min(3, len(labels)) + 1))
        for lab in rng.choice(labels, size=k, replace=False):
            m |= seg == lab
        return m
    raise ValueError(mode)


def sprinkle_nonfinite(rng, arr, where, frac, kinds=(np.nan, np.inf, -np.inf)):
    """Put non-finite values at a random subset of `where` (bool) pixels. Returns the positions mask."""
    sel = where & (rng.random(arr.shape) < frac)
    vals = rng.choice(np.array(kinds), size=int(sel.sum()))
    arr[sel] = vals
    return sel


# ----------------------------------------------------------------------
# SourceCatalog construction from a scene
# ----------------------------------------------------------------------
def relayout(a, how):
    """Same values, different memory representation. None / 'C' -> contiguous copy."""
    if a is None:
        return None
    if how == 'F':
        return np.asfortranarray(a)
    if how == 'strided':
        big = np.zeros((2 * a.shape[0] + 1, 2 * a.shape[1] + 3), dtype=a.dtype)
        view = big[1::2, 2:-1:2]
        view[...] = a
        return view                                   # non-contiguous, offset view
    if how == 'bigendian' and a.dtype.kind in 'fiu' and a.dtype.itemsize > 1:
        return a.astype(a.dtype.newbyteorder('>'))
    if how == 'float32' and a.dtype.kind == 'f':
        return a.astype(np.float32)                   # scene values were rounded to float32 beforehand
    if isinstance(how, str) and how.startswith('dtype:'):
        return a.astype(how[6:])                      # scene values are exactly representable in that dtype
    return a.copy()


def callform(value, tag):
    """Scalar / sequence argument in an equivalent call form."""
    if tag == 'npint':
        return np.int64(value)
    if tag == 'float':
        return float(value)
    if tag == 'np0d':
        return np.array(value)
    if tag == 'list':
        return list(value)
    if tag == 'array':
        return np.array(value, dtype=float)
    return value


def catalog_kwargs(sc):
    """Fresh copies of everything (in the scene's memory layout), wrapped in the scene's unit where the API
    wants Quantities (``<<`` keeps the layout)."""
    def q(a, name):
        if a is None:
            return None
        a = relayout(a, sc.layout.get(name))
        return a if sc.unit is None else a << sc.unit
    kw = dict(convolved_data=q(sc.conv, 'conv'), error=q(sc.error, 'error'),
              mask=relayout(sc.mask, sc.layout.get('mask')),
              background=q(sc.background, 'background'), wcs=sc.wcs,
              localbkg_width=callform(sc.localbkg_width, sc.callform.get('localbkg_width')),
              apermask_method=sc.apermask_method,
              kron_params=callform(sc.kron_params, sc.callform.get('kron_params')))
    return q(sc.data, 'data'), kw


def _seg_array(sc, seg):
    seg = relayout(seg, sc.layout.get('seg'))
    if sc.layout.get('seg_dtype'):
        seg = seg.astype(sc.layout['seg_dtype'])
    return seg


def make_segm(sc):
    """SegmentationImage whose label array equals sc.seg - either fresh, or (sc.provenance['segm']) an object
    with a history: built from a different label array, cached properties read, then brought to sc.seg through
    the public API (relabel_consecutive(start_label), reassign_label, remove_labels / keep_labels)."""
    from photutils.segmentation import SegmentationImage
    prov = sc.provenance.get('segm')
    if not prov:
        return SegmentationImage(_seg_array(sc, sc.seg))
    kind = prov['kind']
    labels = np.array(sorted(int(x) for x in sc.labels))
    pre = sc.seg.copy()
    if kind == 'relabel_consecutive':
        # order-preserving gapped numbering -> relabel_consecutive(start_label=k) gives k..k+n-1 (= sc.seg)
        gaps = np.cumsum(np.asarray(prov['gaps'])[:len(labels)])
        lut = np.zeros(int(labels.max()) + 1, dtype=np.int64)
        lut[labels] = labels + gaps
        pre = lut[sc.seg]
    elif kind == 'reassign':
        pre[sc.seg == prov['label']] = prov['tmp']
    elif kind in ('remove', 'keep'):
        for (y0, x0, h, w), lab in zip(prov['boxes'], prov['extra']):
            sub = pre[y0:y0 + h, x0:x0 + w]
            sub[sub == 0] = lab
    segm = SegmentationImage(_seg_array(sc, pre.astype(sc.seg.dtype)))
    if prov.get('read_before', True):
        segm.slices, segm.labels, segm.areas, segm.bbox
    if kind == 'relabel_consecutive':
        segm.relabel_consecutive(start_label=int(labels.min()))
    elif kind == 'reassign':
        segm.reassign_label(prov['tmp'], prov['label'])
    elif kind == 'remove':
        present = [lab for lab in prov['extra'] if lab in segm.labels]
        if present:
            segm.remove_labels(present)
    elif kind == 'keep':
        segm.keep_labels([int(x) for x in labels])
    if prov.get('read_after'):
        segm.labels, segm.slices
    return segm


def make_catalog(sc, detection_cat=None, segm=None):
    from photutils.segmentation import SourceCatalog
    data, kw = catalog_kwargs(sc)
    if segm is None:
        segm = make_segm(sc)
    cat = SourceCatalog(data, segm, detection_cat=detection_cat, **kw)
    child = sc.provenance.get('as_child')
    if child:
        # a catalogue with a history: some properties read, then indexed with an identity selection; the
        # full-length, same-order child is handed on (e.g. as detection catalogue)
        for name in child.get('pre_read', ()):
            getattr(cat, name)
        how = child['how']
        n = len(cat.labels)
        if how == 'slice':
            cat = cat[:]
        elif how == 'list':
            cat = cat[list(range(n))]
        elif how == 'bool':
            cat = cat[np.ones(n, dtype=bool)]
        elif how == 'get_labels':
            cat = cat.get_labels(cat.labels)
    return cat
