"""C10 scene generator: small star fields in 8 argument representations x 5 data conditions.

Everything random comes from the Generator handed in.  The harness keeps the
plain float64 originals (`raw_*`) for its own use and hands *represented*
objects to the library; every represented object is registered in `owned`
so that the case-level sentinel can compare it at the end of the case.
"""
from __future__ import annotations

import inspect

import numpy as np

REPS = ['ndarray', 'ma_nomask', 'ma_masked', 'quantity', 'view', 'fortran', 'int', 'float32']
CONDS = ['clean', 'negatives', 'nonfinite', 'masked', 'mask_nonfinite']
# an integer array cannot hold NaN/inf: those two cells do not exist
CELLS = [f'{r}/{c}' for r in REPS for c in CONDS
         if not (r == 'int' and c in ('nonfinite', 'mask_nonfinite'))]


class Ctx:
    def __init__(self, rng, rep, cond, readonly=False):
        import astropy.units as u
        self.rng, self.rep, self.cond = rng, rep, cond
        self.readonly = readonly
        self.unit = u.Jy if rep == 'quantity' else None
        self.owned = []          # (name, object) handed to the library
        self.raised = []         # (callable name, exception type)
        self.ncalls = 0
        self.nreads = 0
        self.read_errors = 0
        self._n = 0
        self._build()

    # -- scene ----------------------------------------------------------
    def _build(self):
        rng = self.rng
        # ---- generic axes, drawn independently of the (representation, condition) cell; about half plain ----
        self.axes = {}
        self.scale = 1.0
        plain = rng.random() < 0.5                                # about half of the cases stay plain
        if not plain and rng.random() < 0.6:                      # (i) magnitude
            if self.rep == 'int':
                self.scale = float(2.0 ** int(rng.integers(0, 7)))
            elif rng.random() < 0.5:
                self.scale = float(2.0 ** int(rng.integers(-60, 41)))
            else:
                self.scale = float(10.0 ** int(rng.integers(-20, 11)))
            self.axes['magnitude'] = 1
            if self.scale < 1e-6 or self.scale > 1e6:
                self.axes['magnitude_extreme'] = 1
        self.altunit = bool(not plain and self.rep == 'quantity' and rng.random() < 0.5)   # (ii) different units
        if self.altunit:
            self.axes['alt_unit_secondary_inputs'] = 1
        self.qtable = bool(not plain and rng.random() < 0.5)      # (ii) Table vs QTable independent of the rep
        elong = (not plain) and rng.random() < 0.45               # (iv) shape
        if elong:
            short, long_ = int(rng.integers(26, 33)), int(rng.integers(58, 81))
            ny, nx = (short, long_) if rng.random() < 0.5 else (long_, short)
            self.axes['elongated'] = 1
        else:
            ny, nx = int(rng.integers(36, 47)), int(rng.integers(36, 47))
            if plain:
                nx = ny
            elif abs(nx - ny) >= 2:
                self.axes['non_square'] = 1
        self.shape = (ny, nx)
        n = int(rng.integers(3, 6))
        pos = []
        if elong:
            # one row of stars along the long axis, >= ~9 px apart, >= 8 px from the edges
            L = max(ny, nx)
            for j in range(n):
                a = 8 + (L - 16) * (j + 0.5) / n + rng.uniform(-1.0, 1.0)
                b = min(ny, nx) / 2.0 + rng.uniform(-2.0, 2.0)
                pos.append((a, b) if nx > ny else (b, a))
            order = rng.permutation(n)
            pos = [pos[i] for i in order]
        else:
            # jittered grid keeps stars >= ~9 px apart and >= 8 px from the edges
            cells = [(i, j) for i in range(3) for j in range(3)]
            rng.shuffle(cells)
            for (i, j) in cells[:n]:
                cx = 8 + (nx - 16) * (j + 0.5) / 3 + rng.uniform(-1.5, 1.5)
                cy = 8 + (ny - 16) * (i + 0.5) / 3 + rng.uniform(-1.5, 1.5)
                pos.append((cx, cy))
        self.plain_case = plain
        # ---- second list of generic axes ----
        if not plain and rng.random() < 0.3:                      # (ix) exact integer / half-integer positions
            pos = [(np.floor(x) + (0.5 if rng.random() < 0.5 else 0.0), np.floor(y) + (0.5 if rng.random() < 0.5 else 0.0))
                   for (x, y) in pos]
            self.axes['axis2_ix_half_integer_positions'] = 1
        edge = None
        if not plain and rng.random() < 0.4:                      # (viii) one object at / across ONE border or corner
            where = ['left', 'right', 'bottom', 'top', 'll', 'lr', 'ul', 'ur'][int(rng.integers(0, 8))]
            off = float(rng.choice([-1.0, 0.0, 0.5, 1.0, 2.5]))
            ex = {'left': off, 'right': nx - 1 - off, 'll': off, 'ul': off, 'lr': nx - 1 - off, 'ur': nx - 1 - off}.get(
                where, float(rng.uniform(9, nx - 10)))
            ey = {'bottom': off, 'top': ny - 1 - off, 'll': off, 'lr': off, 'ul': ny - 1 - off, 'ur': ny - 1 - off}.get(
                where, float(rng.uniform(9, ny - 10)))
            edge = (ex, ey, float(rng.uniform(80, 300)))
            self.axes['axis2_viii_edge_object_' + where] = 1
        # (xi) every mask-like argument: as generated / all False / all True / a single True pixel
        self.mask_mode = 'asis'
        if not plain:
            r = rng.random()
            self.mask_mode = 'allfalse' if r < 0.3 else 'alltrue' if r < 0.4 else 'single' if r < 0.5 else 'asis'
            if self.mask_mode != 'asis':
                self.axes['axis2_xi_mask_' + self.mask_mode] = 1
        self.narrow = bool(not plain and rng.random() < 0.6)      # (vii) dtype kinds beyond float64/int64/float32
        self.xy = np.array(pos)                       # (n, 2) x, y
        self.fwhm = float(rng.uniform(2.6, 3.4))
        sig = self.fwhm / 2.3548200450309493
        self.sigma = sig
        amp = rng.uniform(80, 300, n)
        self.amp = amp
        yy, xx = np.mgrid[0:ny, 0:nx]
        img = np.zeros(self.shape)
        for (x, y), a in zip(pos, amp):
            img += a * np.exp(-((xx - x) ** 2 + (yy - y) ** 2) / (2 * sig * sig))
        if edge is not None:
            img += edge[2] * np.exp(-((xx - edge[0]) ** 2 + (yy - edge[1]) ** 2) / (2 * sig * sig))
        noise = rng.normal(0.0, 1.0, self.shape)
        cond = self.cond
        if cond == 'clean':
            img = img + 20.0 + 0.3 * np.abs(noise)
        else:
            img = img + noise
            for (x, y) in pos:                          # negatives inside every star cutout
                for _ in range(2):
                    dx, dy = rng.integers(-2, 3, 2)
                    if dx == 0 and dy == 0:
                        dx = 1
                    img[int(round(y)) + dy, int(round(x)) + dx] = -float(rng.uniform(3, 25))
        mask = None
        if cond in ('masked', 'mask_nonfinite'):
            mask = rng.random(self.shape) < 0.03
            x1, y1 = pos[1]
            mask[int(y1) + 2:int(y1) + 4, int(x1) - 4:int(x1) - 2] = True
            for (x, y) in pos:                          # never mask the star cores entirely
                mask[int(round(y)) - 1:int(round(y)) + 2, int(round(x)) - 1:int(round(x)) + 2] = False
        err = np.sqrt(1.0 + np.clip(img, 0, None) / 5.0)
        self.nonfinite_unmasked = 0
        if cond in ('nonfinite', 'mask_nonfinite'):
            x0, y0 = pos[0]
            spots = [(int(round(y0)) + 2, int(round(x0)) + 1, np.nan),
                     (int(round(y0)) - 2, int(round(x0)) - 2, np.inf)]
            for v in (np.nan, np.inf, -np.inf, np.nan):
                spots.append((int(rng.integers(0, ny)), int(rng.integers(0, nx)), v))
            for (r, c, v) in spots:
                img[r, c] = v
                if mask is not None:
                    mask[r, c] = False              # non-finite at an UNMASKED pixel
            if mask is not None:
                r, c = int(rng.integers(0, ny)), int(rng.integers(0, nx))
                img[r, c] = np.nan
                mask[r, c] = True                   # and one under the mask
            r, c = int(rng.integers(0, ny)), int(rng.integers(0, nx))
            err[r, c] = np.nan
            if mask is not None:
                mask[r, c] = False
            # a non-finite ERROR value next to star 0 where the data are finite
            r, c = int(round(y0)) - 3, int(round(x0)) + 3
            if np.isfinite(img[r, c]):
                err[r, c] = np.inf if rng.random() < 0.5 else np.nan
                if mask is not None:
                    mask[r, c] = False
            self.nonfinite_unmasked = int(np.sum(~np.isfinite(img) & (~mask if mask is not None else True)))
        if edge is not None:
            # the border object is the LAST entry of xy / amp (the harness-side pixel edits above never use it)
            self.xy = np.vstack([self.xy, [[edge[0], edge[1]]]])
            self.amp = np.append(self.amp, edge[2])
        if self.scale != 1.0:
            img = img * self.scale
            err = err * self.scale
            self.amp = self.amp * self.scale
        self.raw = img
        self.raw_err = err
        self.raw_mask = mask
        self.present = {
            'clean': True,
            'negatives': bool(np.any(img < 0)),
            'nonfinite': bool(np.any(~np.isfinite(img))),
            'masked': mask is not None and bool(mask.any()),
            'mask_nonfinite': mask is not None and self.nonfinite_unmasked > 0,
        }[cond]
        # represented objects
        self.data = self.arr(img, 'data', primary=True)
        self.error = self.arr(err, 'error', secondary=True)
        if mask is None and self.mask_mode != 'asis':
            self.mask = self.boolarr(np.zeros(self.shape, bool), 'mask')     # (xi) a mask argument in every condition
        else:
            self.mask = None if mask is None else self.boolarr(mask, 'mask')
        yk, xk = np.mgrid[-3:4, -3:4]
        self.raw_kernel = np.exp(-(xk ** 2 + yk ** 2) / (2 * sig * sig))

    # -- representations ------------------------------------------------
    def _name(self, name):
        self._n += 1
        return f'{name}#{self._n}'

    def _ro(self, a):
        return a

    def _make_ro(self, a):
        if isinstance(a, np.ndarray):
            b = a
            while isinstance(b, np.ndarray):
                try:
                    b.setflags(write=False)
                except ValueError:
                    pass
                if isinstance(b, np.ma.MaskedArray) and b._mask is not np.ma.nomask:
                    try:
                        b._mask.setflags(write=False)
                    except ValueError:
                        pass
                b = b.base
        return a

    def own(self, obj, name):
        nm = self._name(name)
        self.owned.append((nm, obj))
        if self.readonly is True or (self.readonly and nm in self.readonly):
            self._make_ro(obj)
        return obj

    def _view(self, a):
        rng = self.rng
        k = int(rng.integers(0, 3))
        ny, nx = a.shape[:2] if a.ndim >= 2 else (a.shape[0], 1)
        if a.ndim == 1:
            big = rng.normal(0, 1, a.size * 2 + 3).astype(a.dtype)
            big[1:1 + 2 * a.size:2] = a
            return big[1:1 + 2 * a.size:2]
        if k == 0:
            big = np.full((ny + 5, nx + 4) + a.shape[2:], 7, dtype=a.dtype)
            big[2:2 + ny, 1:1 + nx] = a
            return big[2:2 + ny, 1:1 + nx]
        if k == 1:
            big = np.full((2 * ny, 2 * nx) + a.shape[2:], 7, dtype=a.dtype)
            big[::2, ::2] = a
            return big[::2, ::2]
        if a.ndim == 2 and rng.random() < 0.5:
            big = np.full((nx + 3, ny + 2), 7, dtype=a.dtype)      # transposed view of a larger array
            big[1:1 + nx, 2:2 + ny] = a.T
            self.axes['transposed_view'] = 1
            return big[1:1 + nx, 2:2 + ny].T
        big = np.full((ny + 2, nx) + a.shape[2:], 7, dtype=a.dtype)
        big[1:1 + ny] = a[::-1]
        return big[1:1 + ny][::-1]

    def arr(self, a, name, primary=False, secondary=False, unit=True, allow_int=True):
        """Represent a float array according to self.rep."""
        rep = self.rep
        a = np.array(a, dtype=float)
        if rep == 'ndarray':
            out = a
        elif rep == 'ma_nomask':
            out = np.ma.MaskedArray(a) if (primary or self.rng.random() < 0.3) else a
        elif rep == 'ma_masked':
            if primary or self.rng.random() < 0.3:
                mm = self.rng.random(a.shape) < 0.02
                if primary and a.ndim == 2 and hasattr(self, 'xy') and a.shape == self.shape:
                    for (x, y) in self.xy:
                        mm[int(round(y)) - 1:int(round(y)) + 2, int(round(x)) - 1:int(round(x)) + 2] = False
                    mm[0, 0] = True
                out = np.ma.MaskedArray(a, mask=mm)
            else:
                out = a
        elif rep == 'quantity':
            if unit and secondary and getattr(self, 'altunit', False):
                import astropy.units as u
                out = (a * 1e3) * u.mJy             # same quantity, equivalent but different unit
            else:
                out = a * self.unit if unit else a
        elif rep == 'view':
            out = self._view(a)
        elif rep == 'fortran':
            out = np.asfortranarray(a)
        elif rep == 'int':
            if allow_int and (primary or not secondary) and np.all(np.isfinite(a)):
                dts = [np.int32, np.int64, np.int16]
                if getattr(self, 'narrow', False):
                    dts = [np.int8, np.int16, np.int32, np.int64]
                    if not np.any(a < 0):
                        dts += [np.uint8, np.uint16, np.uint32, np.uint64]
                dt = dts[int(self.rng.integers(0, len(dts)))]
                info = np.iinfo(dt)
                v = np.rint(a)
                if getattr(self, 'narrow', False):
                    self.axes['axis2_vii_dtype_' + np.dtype(dt).name] = 1
                    if primary and info.max < 2 ** 31 and np.nanmax(np.abs(v)) > 0 and self.rng.random() < 0.5:
                        v = np.rint(v * (0.98 * info.max / np.nanmax(np.abs(v))))       # values near the dtype limit
                        self.axes['axis2_vii_near_dtype_limit'] = 1
                    elif primary and info.max > 2 ** 53 and not np.any(a < 0) and self.rng.random() < 0.3:
                        v = v + float(2 ** 31 if self.rng.random() < 0.5 else 2 ** 53)  # integers beyond 2**31 / 2**53
                        self.axes['axis2_vii_big_integers'] = 1
                out = np.clip(v, max(info.min, -2.0 ** 62), min(info.max, 2.0 ** 62)).astype(dt)
            else:
                out = a
        elif rep == 'float32':
            # (iii) narrow or non-native dtypes
            dts = [np.float32, np.float32, '>f8', '>f4']
            if getattr(self, 'narrow', False):
                dts.append(np.float16)
            dt = dts[int(self.rng.integers(0, len(dts)))]
            with np.errstate(all='ignore'):
                out = a.astype(dt)
            if dt is np.float16:
                self.axes['axis2_vii_dtype_float16'] = 1
            elif dt is not np.float32:
                self.axes['big_endian'] = 1
        else:
            raise ValueError(rep)
        self._ro(out)
        return self.own(out, name)

    def boolarr(self, m, name):
        m = np.array(m, dtype=bool)
        mode = getattr(self, 'mask_mode', 'asis')
        if mode == 'allfalse':
            m = np.zeros(m.shape, bool)
        elif mode == 'alltrue':
            m = np.ones(m.shape, bool)
        elif mode == 'single' and m.size:
            m = np.zeros(m.shape, bool)
            m.flat[int(self.rng.integers(0, m.size))] = True
        if self.rep == 'view':
            out = self._view(m)
        elif self.rep == 'fortran':
            out = np.asfortranarray(m)
        else:
            out = m
        self._ro(out)
        return self.own(out, name)

    def plain(self, a, name, dtype=None):
        """An array that is always a plain ndarray (positions, radii ...), view/fortran where applicable."""
        a = np.array(a, dtype=dtype)
        if self.rep == 'view' and a.ndim in (1, 2):
            a = self._view(a)
        elif self.rep == 'fortran' and a.ndim == 2:
            a = np.asfortranarray(a)
        self._ro(a)
        return self.own(a, name)

    def labels(self, a, name):
        """A label / segmentation array in one of several integer dtypes (vii)."""
        a = np.asarray(a)
        dts = [np.int64]
        if getattr(self, 'narrow', False):
            dts = [np.int64, np.int32, np.int16, np.uint16, np.uint32, np.uint64, np.intp]
            if a.size and a.max() < 127:
                dts += [np.uint8, np.int8]
        dt = dts[int(self.rng.integers(0, len(dts)))]
        if dt is not np.int64:
            self.axes['axis2_vii_label_dtype_' + np.dtype(dt).name] = 1
        return self.plain(a.astype(dt), name, dtype=dt)

    def par(self, value, name, kinds=('int', 'float', 'list', 'intview', 'plain'), force=None):
        """A small parameter-like argument (box size, shape, radii, labels, bounds ...) as a caller-owned
        object: int ndarray, float ndarray, strided view of an int ndarray, list, or the plain Python value.
        Registered like every other argument, so the sentinels compare it."""
        k = force or kinds[int(self.rng.integers(0, len(kinds)))]
        if k == 'plain':
            return value
        if k == 'npscalar':
            self.axes['numpy_scalar_form'] = 1
            return np.float64(value) if isinstance(value, float) else np.int64(value)
        if k == 'zero_d':
            self.axes['zero_d_array_form'] = 1
            return self.own(np.array(value), name + '_0d')
        if k == 'list':
            v = np.asarray(value).tolist()
            if not isinstance(v, list):
                return v
            return self.own(v, name + '_list')
        if k == 'tuple':
            v = np.asarray(value).tolist()
            return tuple(v) if isinstance(v, list) else v
        if k == 'float':
            if getattr(self, 'narrow', False) and self.rng.random() < 0.3:
                self.axes['axis2_vii_param_float32'] = 1
                return self.own(np.array(value, dtype=np.float32), name + '_f4')
            return self.own(np.array(value, dtype=float), name + '_f8')
        idt = [np.int64, np.int32, np.intp]
        if getattr(self, 'narrow', False):
            va = np.asarray(value)
            idt += [np.int16]
            if va.size and va.min() >= 0:
                idt += [np.uint16, np.uint32, np.uint64] + ([np.uint8] if va.max() < 256 else [])
        dt = idt[int(self.rng.integers(0, len(idt)))]
        va = np.asarray(value)
        if va.size and (va.min() < np.iinfo(dt).min or va.max() > np.iinfo(dt).max):
            dt = np.int64                                      # the harness never wraps a value itself
        a = np.array(value, dtype=dt)
        if a.dtype not in (np.dtype(np.int64), np.dtype(np.int32)):
            self.axes['axis2_vii_param_dtype_' + a.dtype.name] = 1
        if k == 'intview' and a.ndim == 1:
            big = np.full(2 * a.size + 1, 7, dtype=a.dtype)
            big[1::2] = a
            return self.own(big[1::2], name + '_iview')
        return self.own(a, name + '_int')

    def s(self, x):
        """Scale a value-like constant (threshold, background, local_bkg, peakmax ...) with the data magnitude."""
        return x * self.scale

    def q(self, x):
        """Attach the scene unit to a threshold/background-like value when the scene is a Quantity
        (in the equivalent-but-different unit when that axis is drawn)."""
        if self.unit is None:
            return x
        if self.altunit:
            import astropy.units as u
            return (x * 1e3) * u.mJy
        return x * self.unit

    # -- calling --------------------------------------------------------
    def call(self, fn, *args, **kwargs):
        """Call library code; an exception is counted (C10 does not care whether a call raises,
        the inputs are compared by the sentinel either way)."""
        self.ncalls += 1
        try:
            return fn(*args, **kwargs)
        except Exception as exc:  # noqa: BLE001
            nm = getattr(fn, '__qualname__', None) or type(fn).__name__
            self.raised.append((nm, type(exc).__name__, str(exc)[:120]))
            if self.readonly and 'read-only' in str(exc):
                raise
            return None

    def read_all(self, obj, skip=(), methods=()):
        """Read EVERY public property of obj; then call the listed zero-argument methods."""
        if obj is None:
            return
        names = []
        for name in dir(type(obj)):
            if name.startswith('_') or name in skip:
                continue
            try:
                attr = inspect.getattr_static(type(obj), name)
            except AttributeError:
                continue
            if isinstance(attr, property):          # lazyproperty is a property subclass
                names.append(name)
        # random order: which lazyproperty is evaluated first (outermost) differs from case to case
        names = [names[i] for i in self.rng.permutation(len(names))]
        tp = type(obj)
        for dn, fn in (('__repr__', repr), ('__str__', str), ('__len__', len),
                       ('__iter__', lambda o: [x for _, x in zip(range(3), iter(o))])):
            f = getattr(tp, dn, None)
            if f is not None and str(getattr(f, '__module__', '')).startswith('photutils'):
                self.nreads += 1
                try:
                    fn(obj)
                except Exception:  # noqa: BLE001
                    self.read_errors += 1
        for name in names:
            self.nreads += 1
            try:
                getattr(obj, name)
            except Exception as exc:  # noqa: BLE001
                self.read_errors += 1
                if self.readonly and 'read-only' in str(exc):
                    raise
        for m in methods:
            f = getattr(obj, m, None)
            if f is not None:
                self.call(f)

    def star_table(self, names=('x_0', 'y_0', 'flux'), jitter=0.3, extra=None):
        from astropy.table import QTable, Table
        x = self.xy[:, 0] + self.rng.uniform(-jitter, jitter, len(self.xy))
        y = self.xy[:, 1] + self.rng.uniform(-jitter, jitter, len(self.xy))
        flux = self.amp * 2 * np.pi * self.sigma ** 2
        use_q = self.unit is not None or self.qtable
        if use_q:
            self.axes['qtable'] = 1
        t = (QTable if use_q else Table)()
        t[names[0]] = x
        t[names[1]] = y
        if len(names) > 2:
            if self.unit is not None and self.altunit:
                import astropy.units as u
                t[names[2]] = (flux * 1e3) * u.mJy
                self.axes['alt_unit_table_column'] = 1
            else:
                t[names[2]] = flux * self.unit if self.unit is not None else flux
        t.meta['origin'] = 'c10'
        for k, v in (extra or {}).items():
            t[k] = v
        return self.own(t, 'table')
