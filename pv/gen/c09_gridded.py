"""C09 family: GriddedPSFModel evaluation-order histories.

A pool of live models (the original plus the results of copy()/deepcopy(), which
share or duplicate the interpolator cache keyed by grid position) receives
parameter assignments, evaluations at random points, direct evaluate() calls for
other positions, fill_value / oversampling assignments and bounding_box / origin
reads.  Every evaluation is compared exactly with a fresh GriddedPSFModel built
from a copy of the NDData and given the current parameters, which has never
evaluated anything before.
"""
from __future__ import annotations

import copy

import numpy as np

from pv import core
from pv.gen import c09_axes as AX
from pv.ref import c09_oracle as O


def gen_grid(case):
    """nx and ny drawn independently from 1..6 (single row/column, strongly non-square in both senses),
    irregular spacing, grid far from / across the origin, unsorted input order, PSF data of any magnitude
    and memory layout."""
    rng = case.rng
    r = rng.random()
    if r < 0.3:                                    # strongly non-square, more columns than rows
        ngy = int(rng.integers(1, 5))
        ngx = int(rng.integers(ngy + 2, 8))
    elif r < 0.6:                                  # ... and the reverse
        ngx = int(rng.integers(1, 5))
        ngy = int(rng.integers(ngx + 2, 8))
    else:                                          # independent 1..6
        ngx, ngy = int(rng.integers(1, 7)), int(rng.integers(1, 7))
    if ngx == 1 and ngy == 1:
        ngx = 2
    case.note('axis:grid:' + ('single_row_or_col' if min(ngx, ngy) == 1 else
                              'nx>=ny+2' if ngx >= ngy + 2 else 'ny>=nx+2' if ngy >= ngx + 2 else 'squareish'))
    size = int(rng.choice([5, 7, 9, 11]))
    over = int(rng.choice([1, 2, 4]))

    def axis(n):
        if rng.random() < 0.5:
            g = np.sort(rng.choice(np.arange(0, 300, 10), n, replace=False)).astype(float)
        else:                                        # irregular, non-integer spacing
            g = np.cumsum(rng.uniform(3.0, 80.0, n)).round(2)
        off = float(rng.choice([0.0, 0.0, -150.0, 1.0e4, -3.3e3]))
        return g + off
    xg, yg = axis(ngx), axis(ngy)
    pos = [(float(x), float(y)) for y in yg for x in xg]
    order = rng.permutation(len(pos))            # the input grid need not be sorted
    yy, xx = np.mgrid[0:size, 0:size] - size // 2
    psfs = []
    for i, (x, y) in enumerate(pos):
        s = 0.8 + 0.15 * (i % 5) + 0.05 * (i // 5)
        q = 0.6 + 0.07 * (i % 6)
        p = np.exp(-(xx ** 2 + (yy / q) ** 2) / (2 * (s * over) ** 2)) + rng.uniform(0, 0.01, (size, size))
        psfs.append(p / p.sum() * over ** 2)
    sc = AX.scale(case, 'magnitude_gridded')
    lay = AX.layout(case, 'layout_gridded')
    data = np.array(psfs)[order] * sc
    if rng.random() < 0.15:
        data = data.astype(np.float32)
        case.note('axis:dtype_gridded:float32')
    gform = AX.seq_form(case, 'grid_xypos_form')
    gpos = gform(np.array([pos[i] for i in order]))
    ro = rng.random()
    ovs = over if ro < 0.5 else ((over, over) if ro < 0.65 else [(4, 2), (2, 4), (1, 2), (3, 1)][int(rng.integers(0, 4))])
    case.note('axis2_anisotropy_gridded:' + ('pair_different' if ro >= 0.65 else 'same'))
    meta = {'grid_xypos': gpos, 'oversampling': ovs}

    def mkdata():
        return lay(data)
    return mkdata, data, meta, xg, yg, size, over


def run(case):
    """Four independent histories (own grids) per case: they are cheap (~20 ms each)."""
    params, digests, nevals = [], [], 0
    for _ in range(4):
        p, d, n = _history(case)
        params.append(p)
        digests.append(d)
        nevals += n
    case.params = dict(histories=params)
    case.digest = core.digest(digests)
    case.nontrivial = nevals >= 2
    case.note('gridded_evals', nevals)
    case.note('gridded_histories', 4)


def _history(case):
    rng = case.rng
    mkdata, data, meta, xg, yg, size, over = gen_grid(case)
    xform = AX.seq_form(case, 'eval_xy_form')

    def fresh(state):
        from astropy.nddata import NDData
        from photutils.psf import GriddedPSFModel
        m = GriddedPSFModel(NDData(mkdata(), meta=copy.deepcopy(meta)), flux=state['flux'], x_0=state['x_0'],
                            y_0=state['y_0'], fill_value=state['fill_value'])
        if state['oversampling'] is not None:
            m.oversampling = state['oversampling']
        return m

    used = []

    def position(st=None):
        p = _position(st)
        used.append(p)
        return p

    def _position(st):
        r = rng.random()
        # caches are keyed by position: revisit coordinates on purpose (same x other y, same y other x,
        # an earlier position again) so that a key that forgets one coordinate is exercised
        if st is not None and r < 0.45:
            q = _position(None)
            return (st['x_0'], q[1]) if rng.random() < 0.5 else (q[0], st['y_0'])
        if used and r < 0.55:
            return used[int(rng.integers(0, len(used)))]
        r = rng.random()
        if r < 0.15:                                 # exactly on a grid node
            return float(rng.choice(xg)), float(rng.choice(yg))
        if r < 0.3:                                  # outside the grid (any side)
            return (float(rng.choice([xg[0] - rng.uniform(1, 30), xg[-1] + rng.uniform(1, 30)])),
                    float(rng.choice([yg[0] - rng.uniform(1, 30), yg[-1] + rng.uniform(1, 30),
                                      rng.uniform(yg[0], yg[-1] + 1e-9)])))
        # a uniformly chosen CELL (so that many different cells are visited), then a point inside it
        def inside(g):
            if len(g) == 1:
                return float(g[0] + rng.uniform(-5, 5))
            i = int(rng.integers(0, len(g) - 1))
            return float(rng.uniform(g[i], g[i + 1]))
        return inside(xg), inside(yg)

    state0 = dict(flux=1.0, x_0=0.0, y_0=0.0, fill_value=0.0, oversampling=None)
    pool = [(fresh(state0), dict(state0), 'original')]
    nsteps = int(rng.integers(15, 45))
    log = []
    nevals = 0
    if rng.random() < 0.6:
        # cell sweep: every cell of the grid once, in random order, alternating between the original and
        # a copy made up front (they share the caches): any cache whose key confuses two cells must show
        if rng.random() < 0.5:
            pool.append((pool[0][0].copy(), dict(state0), 'copy'))
        cells = [(i, j) for i in range(max(len(xg) - 1, 1)) for j in range(max(len(yg) - 1, 1))]
        for ci in rng.permutation(len(cells)):
            i, j = cells[int(ci)]
            x0 = float(rng.uniform(xg[i], xg[i + 1])) if len(xg) > 1 else float(xg[0])
            y0 = float(rng.uniform(yg[j], yg[j + 1])) if len(yg) > 1 else float(yg[0])
            live, st, origin = pool[int(rng.integers(0, len(pool)))]
            live.x_0, live.y_0 = x0, y0
            st.update(x_0=x0, y_0=y0)
            used.append((x0, y0))
            xs = x0 + rng.uniform(-2, 2, 6)
            ys = y0 + rng.uniform(-2, 2, 6)
            fr = fresh(st)
            O.compare(case, O.request(lambda: live(xs, ys)), O.request(lambda: fr(xs, ys)), 'gridded_eval_vs_fresh',
                      {'family': 'gridded', 'object': origin, 'pool': len(pool), 'attr': 'cell_sweep'})
            nevals += 1
        log.append(['cell_sweep', len(cells)])
        case.note('gridded_cell_sweeps')
    for _ in range(nsteps):
        k = int(rng.integers(0, len(pool)))
        live, st, origin = pool[k]
        r = rng.random()
        mech = {'family': 'gridded', 'object': origin, 'pool': min(len(pool), 3)}
        if r < 0.25:
            x0, y0 = position(st)
            f = float(np.round(rng.uniform(0.5, 100), 3))
            live.x_0, live.y_0, live.flux = x0, y0, f
            st.update(x_0=x0, y_0=y0, flux=f)
            log.append(['set', k])
        elif r < 0.33 and len(pool) < 4:
            kind = 'copy' if rng.random() < 0.6 else 'deepcopy'
            new = live.copy() if kind == 'copy' else live.deepcopy()
            pool.append((new, dict(st), kind))
            log.append([kind, k])
        elif r < 0.38:
            fv = [0.0, None, np.nan, -1.0][int(rng.integers(0, 4))]
            live.fill_value = fv
            st['fill_value'] = fv
            log.append(['fill_value', k])
        elif r < 0.42:
            ov = [over, (over, over), 1, 2, (2, 4)][int(rng.integers(0, 5))]
            live.oversampling = ov
            st['oversampling'] = ov
            log.append(['oversampling', k])
        elif r < 0.5:
            what = 'bounding_box' if rng.random() < 0.5 else 'origin'
            o_l = O.request(lambda: getattr(live, what))
            fr = fresh(st)
            o_f = O.request(lambda: getattr(fr, what))
            O.compare(case, o_l, o_f, 'gridded_read_vs_fresh', dict(mech, attr=what))
            log.append([what, k])
        elif r < 0.62:
            # direct evaluate() for some other position: must not disturb anything
            x0, y0 = position(st)
            half = size / over / 2 + 1
            x = x0 + rng.uniform(-half, half, 12)
            y = y0 + rng.uniform(-half, half, 12)
            o_l = O.request(lambda: live.evaluate(x, y, 3.0, x0, y0))
            fr = fresh(st)
            o_f = O.request(lambda: fr.evaluate(x, y, 3.0, x0, y0))
            O.compare(case, o_l, o_f, 'gridded_eval_vs_fresh', dict(mech, attr='evaluate'))
            nevals += 1
            log.append(['evaluate', k])
        else:
            half = size / over / 2 + 1
            rr = rng.random()
            if rr < 0.15:                            # a single scalar point
                x = float(st['x_0'] + rng.uniform(-half, half))
                y = float(st['y_0'] + rng.uniform(-half, half))
            elif rr < 0.55:
                x = xform(st['x_0'] + rng.uniform(-half, half, 15))
                y = xform(st['y_0'] + rng.uniform(-half, half, 15))
            else:
                yy, xx = np.mgrid[0:7, 0:7]
                x = xx + np.floor(st['x_0']) - 3.0
                y = yy + np.floor(st['y_0']) - 3.0
            o_l = O.request(lambda: live(x, y))
            fr = fresh(st)
            o_f = O.request(lambda: fr(x, y))
            O.compare(case, o_l, o_f, 'gridded_eval_vs_fresh', dict(mech, attr='call'))
            nevals += 1
            log.append(['call', k])
    return (dict(grid=[len(xg), len(yg)], size=size, oversampling=over, steps=log),
            core.arr_digest(data) + core.digest(log), nevals)
