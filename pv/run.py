"""Driver / aggregator.  ./check <ID> [--tier quick|thorough] [--replay FILE]

Exit codes: 0 held (or only known findings), 1 violation, 2 inconclusive.
"""
from __future__ import annotations

import argparse
import importlib
import json
import os
import shutil
import subprocess
import sys
import time
import traceback
from concurrent.futures import ThreadPoolExecutor

VERIF = os.path.dirname(os.path.dirname(os.path.abspath(__file__)))
PY = '/venv/bin/python'
NCPU = os.cpu_count() or 4


def ensure_deps():
    """icontract next to the repository's interpreter, from the offline wheelhouse."""
    deps = os.path.join(VERIF, '.deps')
    if os.path.isdir(os.path.join(deps, 'icontract')):
        return deps
    os.makedirs(deps, exist_ok=True)
    subprocess.run([PY, '-m', 'pip', 'install', '-q', '--no-index', '--find-links',
                    '/opt/veriftools/wheels', '--target', deps, 'icontract'],
                   check=False, stdout=subprocess.DEVNULL, stderr=subprocess.DEVNULL,
                   env={**os.environ, 'PIP_NO_INDEX': '1'})
    return deps


def worker_env(extra=None):
    env = dict(os.environ)
    env['PYTHONPATH'] = VERIF + os.pathsep + os.path.join(VERIF, '.deps')
    repo = os.environ.get('PV_REPO')
    if repo and os.path.abspath(repo) != '/repo':
        # scratch worktree for deliberate-break trials: shadows the editable install
        env['PYTHONPATH'] = os.path.abspath(repo) + os.pathsep + env['PYTHONPATH']
    env['PYTHONHASHSEED'] = '0'
    env['PYTHONDONTWRITEBYTECODE'] = '1'
    env.setdefault('OMP_NUM_THREADS', '1')
    env.setdefault('OPENBLAS_NUM_THREADS', '1')
    env.setdefault('MKL_NUM_THREADS', '1')
    env['MPLBACKEND'] = 'Agg'
    if extra:
        env.update(extra)
    return env


def load_known():
    import glob
    out = {'findings': [], 'fixed': []}
    paths = [os.path.join(VERIF, 'known_findings.json')]
    paths += sorted(glob.glob(os.path.join(VERIF, 'known_findings.d', '*.json')))
    for path in paths:
        if not os.path.exists(path):
            continue
        with open(path) as f:
            d = json.load(f)
        out['findings'] += d.get('findings', [])
        out['fixed'] += d.get('fixed', [])
    return out


def repo_root():
    return os.path.abspath(os.environ.get('PV_REPO') or '/repo')


def match_known(pid, viol, known):
    """A finding matches when property, `what` and every key of its `match`
    dict equal the violation's mechanism record."""
    for k in known.get('findings', []):
        if k.get('property') != pid:
            continue
        if 'what' in k and k['what'] is not None:
            whats = k['what'] if isinstance(k['what'], list) else [k['what']]
            if viol['what'] not in whats:
                continue
        m = k.get('match', {})
        if all(viol['mech'].get(a) == b for a, b in m.items()):
            return k
    return None


def run_workers(pid, tier, seed, plan, tmp, mod, only=None):
    shards = plan['shards'] if only is None else 1
    timeout = plan.get('timeout', 1800)
    budget = plan.get('budget_s', timeout * 0.6)
    env = worker_env(getattr(mod, 'WORKER_ENV', None))
    env['PV_NSHARDS'] = str(shards)
    outs = []

    def one(sh):
        out = os.path.join(tmp, f'shard{sh}.jsonl')
        cmd = [PY, '-m', 'pv.worker', pid, tier, str(seed), str(sh),
               str(plan['cases']), str(budget), out]
        if only is not None:
            cmd.append(str(only))
        try:
            p = subprocess.run(cmd, cwd=VERIF, env=env, timeout=timeout,
                               capture_output=True, text=True)
            return sh, out, p.returncode, (p.stderr or '')[-3000:]
        except subprocess.TimeoutExpired:
            return sh, out, 'timeout', ''

    ids = list(range(shards))
    if only is not None:
        ids = [plan['replay_shard']]
    with ThreadPoolExecutor(max_workers=min(NCPU, max(1, len(ids)))) as ex:
        for r in ex.map(one, ids):
            outs.append(r)
    return outs


def read_logs(outs):
    cases, metas, tails, problems = [], [], [], []
    for sh, out, rc, err in outs:
        if rc != 0:
            problems.append(f'shard {sh}: worker exit {rc}: {err[-800:]}')
        if not os.path.exists(out):
            continue
        with open(out) as f:
            for line in f:
                try:
                    r = json.loads(line)
                except Exception:  # noqa: BLE001
                    problems.append(f'shard {sh}: truncated log line')
                    continue
                k = r.get('kind')
                (cases if k == 'case' else metas if k == 'meta' else tails).append(r)
    for m in metas:
        if 'setup_error' in m:
            problems.append('setup error: ' + m['setup_error'][-800:])
    return cases, metas, tails, problems


def aggregate(pid, tier, seed, mod, cases, metas, tails, problems, extra_info, t0):
    known = load_known()
    nviol_cases = 0
    per_mech = {}
    known_hits = {}
    classes, skipped, maxdev, notes = {}, {}, {}, {}
    nchecks = 0
    digests = set()
    errors = []
    for r in cases:
        classes[r['cls']] = classes.get(r['cls'], 0) + 1
        nchecks += r['nchecks']
        for k, v in r['maxdev'].items():
            if v > maxdev.get(k, -1):
                maxdev[k] = v
        for k, v in r['notes'].items():
            notes[k] = notes.get(k, 0) + v
        if r['error']:
            errors.append(r)
            continue
        if r['skipped']:
            skipped[r['skipped']] = skipped.get(r['skipped'], 0) + 1
            continue
        if r['nontrivial']:
            digests.add(r['digest'])
        new = False
        for v in r['violations']:
            kf = match_known(pid, v, known)
            if kf is not None:
                known_hits.setdefault(kf['id'], [kf, 0, r])
                known_hits[kf['id']][1] += 1
                continue
            new = True
            key = json.dumps([v['what'], v['mech']], sort_keys=True)
            per_mech.setdefault(key, (v, r))
        nviol_cases += new

    # M6 contracts: evaluations summed over shards; a broken contract owned by
    # this property is a violation, others are shown only (their owner's check decides)
    c_evals, c_foreign = {}, {}
    for t in tails:
        rep = t.get('contracts') or {}
        for k, v in rep.get('evaluations', {}).items():
            c_evals[k] = c_evals.get(k, 0) + v
        for b in rep.get('broken', []):
            if b['owner'] == pid:
                v = {'what': 'contract:' + b['contract'], 'mech': {'contract': b['contract']},
                     'detail': b['detail']}
                if match_known(pid, v, known) is None:
                    key = json.dumps([v['what'], v['mech']], sort_keys=True)
                    fake = {'digest': 'contract', 'tier': tier, 'seed': seed, 'shard': t.get('shard', 0),
                            'idx': -1, 'cls': 'contract', 'params': b['detail'], 'leg': None}
                    per_mech.setdefault(key, (v, fake))
            else:
                c_foreign[b['contract']] = c_foreign.get(b['contract'], 0) + 1
    nchecks += sum(c_evals.values())

    reach = {}
    for t in tails:
        for k, v in t.get('reach', {}).items():
            reach[k] = reach.get(k, 0) + v
    from pv.reach import to_key
    must = {m: reach.get(to_key(m), 0) for m in getattr(mod, 'MUST_REACH', [])}
    anchors = set()
    for spec in getattr(mod, 'ANCHOR_FILES', []):
        anchors.add(spec)
    reach_anch = {k: v for k, v in reach.items()
                  if any(k.startswith(a) for a in anchors)} if anchors else {}

    evaluations = len(cases)
    inconclusive = list(problems)
    if errors:
        inconclusive.append(f'{len(errors)} case(s) ended in a harness error; first: '
                            + errors[0]['error'][-600:])
    minn = getattr(mod, 'MIN_NONTRIVIAL', {'quick': 2, 'thorough': 2}).get(tier, 2)
    if len(digests) < minn:
        inconclusive.append(f'distinct non-trivial cases {len(digests)} < required {minn}')
    if nchecks == 0:
        inconclusive.append('no oracle comparison was evaluated')
    for m, n in must.items():
        if n == 0:
            inconclusive.append(f'must-reach function never called: {m}')
    missing_cls = [c for c in mod.CLASSES if classes.get(c, 0) == 0]
    if missing_cls:
        inconclusive.append(f'generator classes never run: {missing_cls}')
    for info in extra_info.values():
        for p in info.get('inconclusive', []):
            inconclusive.append(p)

    # samples: up to 5, distinct classes first
    samples, seen = [], set()
    for want_nt in (True, False):
        for r in cases:
            if len(samples) >= 5:
                break
            if r['cls'] in seen or r['error'] or r['skipped'] or r['nontrivial'] != want_nt:
                continue
            seen.add(r['cls'])
            samples.append({'cls': r['cls'], 'shard': r['shard'], 'idx': r['idx'],
                            'params': r['params'], 'oracle_checks': r['nchecks'],
                            'digest': r['digest']})
    if not samples and cases:
        r = cases[0]
        samples.append({'cls': r['cls'], 'params': r['params'], 'skipped': r['skipped']})

    # replays
    viol_lines = []
    rdir = os.path.join(VERIF, 'replays', pid)
    if repo_root() != '/repo':
        rdir = os.path.join(VERIF, '.build', 'replays_trial', pid)
    if per_mech:
        os.makedirs(rdir, exist_ok=True)
    for key, (v, r) in list(per_mech.items())[:12]:
        name = f"{r['digest']}_{abs(hash(key)) % 10**8:08d}.json"
        path = os.path.join(rdir, name)
        with open(path, 'w') as f:
            json.dump({'property': pid, 'tier': r['tier'], 'seed': r['seed'], 'shard': r['shard'],
                       'idx': r['idx'], 'cls': r['cls'], 'violation': v, 'params': r['params'],
                       'leg': r.get('leg'),
                       'replay_cmd': f'./check {pid} --replay {path}'}, f, indent=1)
        viol_lines.append((path, v))

    wall = time.time() - t0
    cov = {
        'evaluations': evaluations,
        'distinct_nontrivial': len(digests),
        'rule': mod.RULE,
        'samples': samples,
        'oracle_checks': nchecks,
        'classes': classes,
        'skipped': skipped,
        'max_deviation': {k: maxdev[k] for k in sorted(maxdev)},
        'notes': notes,
        'contracts': {'evaluations': c_evals, 'broken_owned_elsewhere': c_foreign},
        'must_reach': must,
        'reach_anchor_functions': len(reach_anch),
        'reach_top': dict(sorted(reach_anch.items(), key=lambda kv: -kv[1])[:40]),
        'violating_cases': nviol_cases,
        'known_finding_hits': {k: v[1] for k, v in known_hits.items()},
        'inconclusive_reasons': inconclusive,
        'shards': len(tails),
    }
    for name, info in extra_info.items():
        cov[name] = info.get('coverage', {})
    ev = {
        'property_id': pid, 'tier': tier, 'seed': int(seed), 'level': 'exploration',
        'coverage': cov,
        'assumptions': getattr(mod, 'ASSUMPTIONS', []),
        'wall_s': round(wall, 2),
        'violations': len(per_mech),
    }
    evdir = os.path.join(VERIF, 'evidence')
    if repo_root() != '/repo':
        # deliberate-break trial against a scratch worktree: never overwrite the real evidence
        evdir = os.path.join(VERIF, '.build', 'evidence_trial')
        ev['coverage']['repo_under_test'] = repo_root()
    os.makedirs(evdir, exist_ok=True)
    with open(os.path.join(evdir, pid + '.json'), 'w') as f:
        json.dump(ev, f, indent=1, sort_keys=False)

    print(f'[{pid}] tier={tier} seed={seed} cases={evaluations} nontrivial={len(digests)} '
          f'oracle_checks={nchecks} skipped={sum(skipped.values())} wall={wall:.1f}s')
    for kid, (kf, n, r) in known_hits.items():
        print(f"KNOWN-FINDING: property={pid} {kf['text']} [{kid}; observed {n}x]")
    for path, v in viol_lines:
        print(f"VIOLATION property={pid} replay={path}")
        print(f"   what={v['what']} mech={json.dumps(v['mech'], sort_keys=True)}")
        d = json.dumps(v['detail'], default=str)
        print('   detail=' + d[:600])
    if per_mech:
        return 1
    if inconclusive:
        for p in inconclusive:
            print(f'INCONCLUSIVE property={pid}: {p}')
        return 2
    print(f'[{pid}] held on everything explored')
    return 0


def main(argv=None):
    ap = argparse.ArgumentParser()
    ap.add_argument('pid')
    ap.add_argument('--tier', default=os.environ.get('VERIF_TIER', 'quick'))
    ap.add_argument('--replay')
    ap.add_argument('--cases', type=int)
    ap.add_argument('--shards', type=int)
    ap.add_argument('--no-legs', action='store_true')
    a = ap.parse_args(argv)
    pid = a.pid.upper()
    tier = a.tier if a.tier in ('quick', 'thorough') else 'quick'
    try:
        seed = int(os.environ.get('VERIF_SEED', '0') or 0)
    except ValueError:
        seed = 0
    t0 = time.time()
    ensure_deps()
    sys.path.insert(0, os.path.join(VERIF, '.deps'))
    mod = importlib.import_module('pv.checks.' + pid.lower())
    plan = dict(mod.plan(tier))
    if a.cases:
        plan['cases'] = a.cases
    if a.shards:
        plan['shards'] = a.shards
    tmp = os.path.join(VERIF, '.build', 'run', f'{pid}-{os.getpid()}')
    shutil.rmtree(tmp, ignore_errors=True)
    os.makedirs(tmp)
    try:
        if a.replay:
            with open(a.replay) as f:
                rp = json.load(f)
            plan['replay_shard'] = rp['shard']
            seed, tier = rp['seed'], rp['tier']
            if rp.get('leg'):
                recs, info = mod.driver_legs(tier, seed, tmp, only=rp)
                outs, cases = [], recs
                metas, tails, problems = [], [], []
            else:
                outs = run_workers(pid, tier, seed, plan, tmp, mod, only=rp['idx'])
                cases, metas, tails, problems = read_logs(outs)
            bad = 0
            for r in cases:
                print(json.dumps({k: r[k] for k in ('cls', 'params', 'violations', 'skipped', 'error')},
                                 indent=1, default=str)[:6000])
                bad += len(r['violations'])
            for p in problems:
                print('PROBLEM', p)
            print(f'replay: {bad} violation record(s)')
            return 1 if bad else 0

        problems0 = []
        if hasattr(mod, 'selftest'):
            try:
                p = subprocess.run([PY, '-c', f'import pv.checks.{pid.lower()} as m; m.selftest()'],
                                   cwd=VERIF, env=worker_env(), capture_output=True, text=True,
                                   timeout=600)
                if p.returncode != 0:
                    problems0.append('oracle self-test failed: ' + p.stderr[-1200:])
            except subprocess.TimeoutExpired:
                problems0.append('oracle self-test timed out')
        outs = run_workers(pid, tier, seed, plan, tmp, mod)
        cases, metas, tails, problems = read_logs(outs)
        problems = problems0 + problems
        extra = {}
        if hasattr(mod, 'driver_legs') and not a.no_legs:
            try:
                recs, info = mod.driver_legs(tier, seed, tmp)
                cases.extend(recs)
                extra.update(info)
            except Exception:  # noqa: BLE001
                problems.append('driver leg crashed: ' + traceback.format_exc()[-1500:])
        return aggregate(pid, tier, seed, mod, cases, metas, tails, problems, extra, t0)
    finally:
        shutil.rmtree(tmp, ignore_errors=True)


if __name__ == '__main__':
    sys.exit(main())
