"""C01 kernel overlay (DESIGN 2.1).

Cython is not available in the sandbox, so the four overlap kernels of
``photutils.geometry`` can only be rebuilt from the generated ``.c`` files
that sit next to the tracked ``.pyx`` sources.  This module

* compiles the *current* ``<repo>/photutils/geometry/*.c`` (gcc -O2, or clang
  with ASan+UBSan for the sanitizer leg) into
  ``/verif/.build/kernels/<sha256 of sources+flags>/`` (content-hash cache,
  file lock, atomic rename, the four compiles run in parallel);
* serves the four fully-qualified module names from that directory through a
  ``sys.meta_path`` finder that must be installed *before*
  ``photutils.geometry`` is imported, so an edit to a ``.c`` file is live
  although the repository's own ``.so`` is stale;
* falls back to the installed ``.so`` (and says so) when the ``.c`` files are
  absent;
* reports whether the ``.pyx`` sources still are the text the ``.c`` files
  were generated from (Cython embeds every translated source line in a comment
  ``/* "file.pyx":N ... # <<<<<<`` - compared line by line).

Nothing here judges photutils; it only decides *which binary* is executed.
"""
from __future__ import annotations

import fcntl
import hashlib
import importlib.machinery
import importlib.util
import os
import re
import shutil
import subprocess
import sys
import sysconfig
import time
from concurrent.futures import ThreadPoolExecutor

VERIF = os.path.dirname(os.path.dirname(os.path.abspath(__file__)))
NAMES = ('core', 'circular_overlap', 'elliptical_overlap', 'rectangular_overlap')
PKG = 'photutils.geometry'
EXT = sysconfig.get_config_var('EXT_SUFFIX')

FLAGS = {
    'plain': ['gcc', '-O2'],
    # -fsanitize=float-divide-by-zero is part of the requested set; see
    # pv/checks/c01.py (sanitizer leg) for what was observed with it.
    'asan': ['clang', '-O1', '-g', '-fno-omit-frame-pointer',
             '-fsanitize=address,undefined', '-fsanitize=float-divide-by-zero',
             '-fno-sanitize-recover=undefined'],
}


def repo_root():
    return os.path.abspath(os.environ.get('PV_REPO') or '/repo')


def geometry_dir():
    return os.path.join(repo_root(), 'photutils', 'geometry')


def c_sources():
    """{name: path} of the generated C files, or None if any is missing."""
    out = {}
    for n in NAMES:
        p = os.path.join(geometry_dir(), n + '.c')
        if not os.path.isfile(p):
            return None
        out[n] = p
    return out


def _common_flags():
    import numpy
    return ['-shared', '-fPIC', '-I' + sysconfig.get_paths()['include'],
            '-I' + numpy.get_include(), '-DNPY_NO_DEPRECATED_API=NPY_1_7_API_VERSION']


def source_hash(kind='plain', extra_flags=()):
    src = c_sources()
    if src is None:
        return None
    import numpy
    h = hashlib.sha256()
    h.update(('|'.join(FLAGS[kind]) + '|' + '|'.join(extra_flags) + '|' + sys.version + '|'
              + numpy.__version__).encode())
    for n in NAMES:
        with open(src[n], 'rb') as f:
            h.update(n.encode() + b'\0' + f.read())
    return h.hexdigest()[:32]


def build(kind='plain', drop_flags=(), timeout=600):
    """Compile the current .c files. Returns a dict:

    {'source': 'overlay'|'installed', 'dir': path|None, 'sha': ..., 'cached': bool,
     'seconds': float, 'kind': kind, 'error': str|None}
    """
    t0 = time.time()
    info = {'kind': kind, 'source': 'installed', 'dir': None, 'sha': None, 'cached': False,
            'seconds': 0.0, 'error': None, 'repo': repo_root()}
    src = c_sources()
    if src is None:
        info['error'] = 'generated .c files missing in ' + geometry_dir()
        return info
    base = [f for f in FLAGS[kind] if f not in drop_flags]
    sha = source_hash(kind, tuple(sorted(drop_flags)))
    if kind != 'plain':
        sha += '-' + kind
    root = os.path.join(VERIF, '.build', 'kernels')
    os.makedirs(root, exist_ok=True)
    final = os.path.join(root, sha)
    info['sha'] = sha

    def complete(d):
        return all(os.path.isfile(os.path.join(d, n + EXT)) for n in NAMES)

    if complete(final):
        info.update(source='overlay', dir=final, cached=True, seconds=time.time() - t0)
        return info
    lock = open(os.path.join(root, sha + '.lock'), 'w')
    try:
        fcntl.flock(lock, fcntl.LOCK_EX)
        if complete(final):
            info.update(source='overlay', dir=final, cached=True, seconds=time.time() - t0)
            return info
        tmp = final + f'.tmp{os.getpid()}'
        shutil.rmtree(tmp, ignore_errors=True)
        os.makedirs(tmp)
        common = _common_flags()

        def one(n):
            cmd = base + common + [src[n], '-o', os.path.join(tmp, n + EXT), '-lm']
            try:
                p = subprocess.run(cmd, capture_output=True, text=True, timeout=timeout)
            except subprocess.TimeoutExpired:
                return n, 'timeout'
            except FileNotFoundError as exc:
                return n, f'compiler not found: {exc}'
            return n, None if p.returncode == 0 else (p.stderr or p.stdout)[-1500:]

        with ThreadPoolExecutor(max_workers=4) as ex:
            res = list(ex.map(one, NAMES))
        errs = [f'{n}: {e}' for n, e in res if e]
        if errs:
            shutil.rmtree(tmp, ignore_errors=True)
            info['error'] = 'compile failed: ' + ' || '.join(errs)[:3000]
            info['seconds'] = time.time() - t0
            return info
        try:
            os.rename(tmp, final)
        except OSError:
            shutil.rmtree(tmp, ignore_errors=True)
            if not complete(final):
                raise
        info.update(source='overlay', dir=final, cached=False, seconds=time.time() - t0)
        return info
    finally:
        try:
            fcntl.flock(lock, fcntl.LOCK_UN)
        finally:
            lock.close()


class _Finder:
    """Serves photutils.geometry.{core,...} from the overlay directory."""

    def __init__(self, directory):
        self.directory = directory
        self.served = {}

    def find_spec(self, fullname, path=None, target=None):
        if not fullname.startswith(PKG + '.'):
            return None
        name = fullname[len(PKG) + 1:]
        if name not in NAMES:
            return None
        fn = os.path.join(self.directory, name + EXT)
        if not os.path.isfile(fn):
            return None
        self.served[fullname] = fn
        loader = importlib.machinery.ExtensionFileLoader(fullname, fn)
        return importlib.util.spec_from_file_location(fullname, fn, loader=loader)


_installed = None


def install(directory):
    """Install the finder. Must precede any import of photutils.geometry."""
    global _installed
    already = [m for m in sys.modules if m.startswith(PKG + '.') and m.split('.')[-1] in NAMES]
    if already:
        raise RuntimeError(f'kernel overlay installed too late; already imported: {already}')
    f = _Finder(directory)
    sys.meta_path.insert(0, f)
    _installed = f
    return f


def loaded_from():
    """{module name: file} for the four kernels as actually loaded in this process."""
    out = {}
    for n in NAMES:
        m = sys.modules.get(f'{PKG}.{n}')
        out[n] = getattr(m, '__file__', None) if m is not None else None
    return out


def activate(kind='plain', drop_flags=()):
    """build + install + import + verify. Returns the info dict with
    'loaded' (files actually loaded) and 'overlay_active' (bool)."""
    info = build(kind, drop_flags)
    if info['source'] == 'overlay':
        install(info['dir'])
    import photutils.geometry  # noqa: F401
    lf = loaded_from()
    info['loaded'] = lf
    info['overlay_active'] = bool(info['dir']) and all(
        v is not None and os.path.dirname(v) == info['dir'] for v in lf.values())
    if info['source'] == 'overlay' and not info['overlay_active']:
        raise RuntimeError(f'overlay built in {info["dir"]} but kernels loaded from {lf}')
    info['pyx_drift'] = pyx_drift()
    return info


# ----------------------------------------------------------------------
# is the .c still the translation of the current .pyx ?
# ----------------------------------------------------------------------
_BLOCK = re.compile(r'/\* "([^"\n]+\.pyx)":(\d+)\n(.*?)\*/', re.S)


def pyx_drift(limit=12):
    """Compare every source line Cython embedded in the .c files (the line
    flagged ``# <<<<<<<<<<<<<<`` of each comment block) with the same line
    number of the current .pyx.  Returns {'checked': n, 'drift': [...]}.
    A non-empty drift list means the compiled kernels were NOT generated from
    the .pyx text now in the tree (the .pyx edit is not executed by the
    compiled-kernel legs)."""
    src = c_sources()
    out = {'checked': 0, 'drift': [], 'available': src is not None}
    if src is None:
        return out
    pyx_cache = {}
    seen = set()
    for n in NAMES:
        with open(src[n], errors='replace') as f:
            text = f.read()
        for m in _BLOCK.finditer(text):
            fn, ln, body = m.group(1), int(m.group(2)), m.group(3)
            base = os.path.basename(fn)
            if base.split('.')[0] not in NAMES or (base, ln) in seen:
                continue
            marked = [b for b in body.split('\n') if b.rstrip().endswith('# <<<<<<<<<<<<<<')]
            if not marked:
                continue
            seen.add((base, ln))
            line = marked[0]
            line = line[2:] if line.startswith(' *') else line
            line = line.rstrip()[:-len('# <<<<<<<<<<<<<<')].strip()
            if base not in pyx_cache:
                p = os.path.join(geometry_dir(), base)
                try:
                    with open(p) as g:
                        pyx_cache[base] = g.read().split('\n')
                except OSError:
                    pyx_cache[base] = None
            lines = pyx_cache[base]
            if lines is None:
                continue
            out['checked'] += 1
            cur = lines[ln - 1].strip() if ln - 1 < len(lines) else '<past end of file>'
            if cur != line and len(out['drift']) < limit:
                out['drift'].append({'file': base, 'line': ln, 'c_has': line[:120], 'pyx_has': cur[:120]})
    return out


if __name__ == '__main__':
    import json
    k = sys.argv[1] if len(sys.argv) > 1 else 'plain'
    print(json.dumps(activate(k), indent=1))
