"""C08 Indexing a catalogue commutes with evaluating its properties (SourceCatalog and ApertureStats).

M3/M2 monitor.  Two fresh catalogues A and B are built from copies of the same inputs.  On A a random subset E
of properties (and extra properties / photometry methods with name=) is evaluated in random order, then A is
indexed (int, negative int, numpy integer, slices with steps, int lists / arrays with duplicates, bool masks,
get_label(s) / get_id(s); optionally a second time after more reads on the child) and EVERY public property is
read on the child in random order.  B is only ever read as a whole; the oracle is index(B.p, positions) and the
comparison is structural and exact (pv.ref.c08_compare).
Independence monitor (SourceCatalog): after slicing, a random sequence of add / overwrite / rename / remove
extra-property operations and circular / kron / fluxfrac photometry with name= is applied to parent or child;
after every step the other object must report exactly what it reported before (extra_properties, their values,
to_table(columns=extra_properties), a few built-in properties, an un-named photometry call), and the object
operated on must agree with a registry model.
"""
from __future__ import annotations

import numpy as np

from pv import core
from pv.checks import c07 as c07mod
from pv.gen import c07_scenes as gen
from pv.ref import c08_compare as cmp

ID = 'C08'
RULE = ('SourceCatalog: C07 scene generator (1-8 sources; touching/nested/single-pixel/edge segments, masks cutting '
        'through segments, fully masked sources, NaN/inf, units, wcs, detection_cat, localbkg_width, all '
        'apermask methods, kron_params with and without a minimum circular radius); ApertureStats: 1-8 apertures of 6 '
        'pixel shapes + sky apertures, positions inside / on the edge / off the image / on fully masked regions, '
        'error, mask, NaN, units, wcs, sigma_clip, 3 sum methods, scalar or per-aperture local_bkg. '
        'non-trivial = the parent had >= 1 cached property at indexing time and >= 1 property was first evaluated on '
        'the child (both history kinds present), or an independence sequence of >= 3 steps ran; distinct by digest '
        'of the inputs + index expression + evaluated subset')
CLASSES = ['sc_plain', 'sc_wcs', 'sc_detcat', 'sc_masked', 'sc_edge', 'sc_units', 'sc_kronmin', 'sc_localbkg',
           'sc_single', 'sc_naninf', 'sc_oversub', 'sc_undetected', 'sc_magnitude',
           'sc_independence', 'sc_independence2',
           'ap_plain', 'ap_wcs_sky', 'ap_sigclip', 'ap_offimage', 'ap_units_localbkg', 'ap_masked']
MUST_REACH = ['photutils.segmentation.catalog:SourceCatalog.__getitem__',
              'photutils.segmentation.catalog:SourceCatalog.get_label',
              'photutils.segmentation.catalog:SourceCatalog.get_labels',
              'photutils.segmentation.catalog:as_scalar.<locals>._as_scalar',
              'photutils.segmentation.catalog:SourceCatalog.add_extra_property',
              'photutils.segmentation.catalog:SourceCatalog.rename_extra_property',
              'photutils.segmentation.catalog:SourceCatalog.remove_extra_properties',
              'photutils.segmentation.catalog:SourceCatalog.kron_photometry',
              'photutils.segmentation.catalog:SourceCatalog.circular_photometry',
              'photutils.segmentation.catalog:SourceCatalog.fluxfrac_radius',
              'photutils.segmentation.catalog:SourceCatalog.cutout_centroid_quad',
              'photutils.segmentation.catalog:SourceCatalog.to_table',
              'photutils.aperture.stats:ApertureStats.__getitem__',
              'photutils.aperture.stats:ApertureStats.get_id',
              'photutils.aperture.stats:ApertureStats.get_ids',
              'photutils.aperture.stats:as_scalar.<locals>._decorator',
              'photutils.aperture.stats:ApertureStats.to_table']
ANCHOR_FILES = ['segmentation/catalog.py', 'aperture/stats.py']
MIN_NONTRIVIAL = {'quick': 150, 'thorough': 3000}
ASSUMPTIONS = ['the oracle value is the property read on a second, never-indexed catalogue built from copies of the '
               'same inputs (order independence on one object is C09)',
               'labels / ids are documented as always 1-D: compared after atleast_1d',
               'list, tuple and object-ndarray containers are considered the same kind of sequence; element values, '
               'shapes, dtype kinds, units, masks, aperture classes/parameters and SkyCoord lon/lat must be identical',
               'empty selections (cat[0:0], all-False masks, []) are only probed and counted (documentation silent), never judged',
               'commutation of the photometry *methods* themselves is not demanded (only properties, per the statement); '
               'their named results are covered as extra properties']

INDEX_FORMS = ['int', 'negint', 'npint', 'slice', 'slice_step', 'slice_neg', 'list', 'list_dup', 'array', 'array_neg',
               'boolarray', 'boollist', 'get_one', 'get_one_np', 'get_many', 'get_many_array', 'get_many_tuple',
               'get_many_desc', 'get_many_dup_narrow', 'array_narrow', 'list_desc']


def plan(tier):
    if tier == 'thorough':
        return dict(shards=16, cases=4000, timeout=1500, budget_s=560)
    return dict(shards=8, cases=220, timeout=400, budget_s=45)


def selftest():
    cmp.selftest()
    # index model: every form resolves to the positions numpy would select on a plain array
    rng = np.random.default_rng(1)
    for n in (1, 2, 5, 8):
        ids = np.arange(10, 10 + n)
        for form in INDEX_FORMS:
            for _ in range(5):
                idx, how = make_index(rng, n, form, ids)
                pos = positions(n, idx, how, ids)
                if isinstance(pos, int):
                    assert 0 <= pos < n
                else:
                    assert pos.ndim == 1 and len(pos) >= 1 and pos.min() >= 0 and pos.max() < n


# ----------------------------------------------------------------------
# index expressions
# ----------------------------------------------------------------------
def make_index(rng, n, form, ids):
    """Return (index expression, how) with how in {'getitem', 'get_one', 'get_many'}; never an empty selection."""
    if form == 'int':
        return int(rng.integers(0, n)), 'getitem'
    if form == 'negint':
        return -int(rng.integers(1, n + 1)), 'getitem'
    if form == 'npint':
        return np.int64(rng.integers(-n, n)), 'getitem'
    if form == 'slice':
        a = int(rng.integers(0, n))
        b = int(rng.integers(a + 1, n + 1))
        return slice(a if rng.random() < 0.7 else None, b if rng.random() < 0.7 or a else None), 'getitem'
    if form == 'slice_step':
        return slice(int(rng.integers(0, max(1, n // 2 + 1))), None, int(rng.integers(1, 4))), 'getitem'
    if form == 'slice_neg':
        return [slice(None, None, -1), slice(None, None, -2), slice(-1, None, -1),
                slice(n - 1, 0, -1) if n > 1 else slice(None, None, -1)][int(rng.integers(0, 4))], 'getitem'
    if form in ('list', 'list_dup', 'array', 'array_neg'):
        k = int(rng.integers(1, n + 2))
        if form == 'list_dup':
            v = rng.integers(0, n, size=k + 1)
            v[-1] = v[0]
        elif form == 'array_neg':
            v = rng.integers(-n, n, size=k)
        else:
            v = rng.permutation(n)[:max(1, min(k, n))]
        if form in ('list', 'list_dup'):
            return [int(x) for x in v], 'getitem'
        return np.asarray(v, dtype=[np.int64, np.int32, np.intp][int(rng.integers(0, 3))]), 'getitem'
    if form in ('boolarray', 'boollist'):
        m = rng.random(n) < 0.5
        if not m.any():
            m[int(rng.integers(0, n))] = True
        return (m if form == 'boolarray' else [bool(x) for x in m]), 'getitem'
    if form == 'get_one':
        return int(ids[int(rng.integers(0, n))]), 'get_one'
    if form == 'get_one_np':
        return np.int64(ids[int(rng.integers(0, n))]), 'get_one'
    if form == 'get_many_desc':                       # descending order
        k = int(rng.integers(1, n + 1))
        return sorted((int(x) for x in rng.choice(ids, size=k, replace=False)), reverse=True), 'get_many'
    if form == 'get_many_dup_narrow':                 # duplicates, narrow / unsigned integer dtype
        k = int(rng.integers(2, n + 3))
        v = rng.choice(ids, size=k, replace=True)
        dts = [d for d in ('uint8', 'int16', 'uint16', 'uint32', 'uint64') if int(np.max(ids)) <= np.iinfo(d).max]
        return np.asarray(v, dtype=dts[int(rng.integers(0, len(dts)))]), 'get_many'
    if form == 'array_narrow':                        # positions as int8 / uint8 / int16 / uint64 arrays
        k = int(rng.integers(1, n + 2))
        dt = ['int8', 'uint8', 'int16', 'uint64'][int(rng.integers(0, 4))]
        v = rng.integers(0 if dt.startswith('u') else -n, n, size=k)
        return np.asarray(v, dtype=dt), 'getitem'
    if form == 'list_desc':
        k = int(rng.integers(1, n + 1))
        return sorted((int(x) for x in rng.permutation(n)[:k]), reverse=True), 'getitem'
    if form == 'get_many_tuple':
        k = int(rng.integers(1, n + 1))
        return tuple(int(x) for x in rng.choice(ids, size=k, replace=False)), 'get_many'
    if form == 'get_many':
        k = int(rng.integers(1, n + 1))
        return [int(x) for x in rng.choice(ids, size=k, replace=rng.random() < 0.3)], 'get_many'
    if form == 'get_many_array':
        k = int(rng.integers(1, n + 1))
        return np.asarray(rng.choice(ids, size=k, replace=False)), 'get_many'
    raise ValueError(form)


def positions(n, idx, how, ids):
    if how == 'getitem':
        if isinstance(idx, list) and len(idx) and isinstance(idx[0], bool):
            idx = np.array(idx, dtype=bool)
        return cmp.resolve_positions(n, idx)
    lut = {int(v): i for i, v in enumerate(ids)}
    if how == 'get_one':
        return lut[int(idx)]
    return np.array([lut[int(v)] for v in np.atleast_1d(idx)], dtype=int)


def apply_index(cat, idx, how, kind):
    if how == 'getitem':
        return cat[idx]
    if kind == 'sc':
        return cat.get_label(idx) if how == 'get_one' else cat.get_labels(idx)
    return cat.get_id(idx) if how == 'get_one' else cat.get_ids(idx)


def compose(pos1, pos2):
    """Positions in the grandparent selected by pos2 applied to the child selected by pos1."""
    p1 = np.asarray(pos1)
    r = p1[pos2]
    return int(r) if np.ndim(r) == 0 else np.asarray(r, dtype=int)


# ----------------------------------------------------------------------
# reading properties
# ----------------------------------------------------------------------
def read(case, obj, name, what, mech):
    """getattr with the library's exceptions turned into recorded violations (mechanism = exception site)."""
    try:
        return True, getattr(obj, name)
    except core.Skip:
        raise
    except Exception as exc:  # noqa: BLE001
        loc = core.exc_location(exc)
        if loc is None and not isinstance(exc, AttributeError):
            raise
        # the names read are exactly those the object itself lists (properties / extra_properties):
        # a missing attribute is the library's fault, not the harness'
        case.check(False, what, dict(mech, exc=type(exc).__name__, at=loc), msg=str(exc)[:200])
        return False, None


def _column_value(col):
    from astropy.table import Column
    if isinstance(col, Column):
        return np.asarray(col)
    return col


def compare_child(case, child, parent_b, pos, props, mech0, cached_names, order_rng, kind):
    """Every property: child value == index(parent value, pos)."""
    scalar = isinstance(pos, int)
    nfirst = 0
    for name in [props[i] for i in order_rng.permutation(len(props))]:
        cached = name in cached_names
        nfirst += not cached
        mech = dict(mech0, prop=name, cached=bool(cached))
        okb, vb = read(case, parent_b, name, 'parent_property_raised', mech)
        okc, vc = read(case, child, name, 'child_property_raised', mech)
        if not (okb and okc):
            continue
        try:
            exp = cmp.index_value(vb, pos)
        except (TypeError, IndexError) as exc:
            case.check(False, 'parent_value_not_per_source', mech, why=str(exc)[:200], type=type(vb).__name__)
            continue
        if name in ('labels', 'ids'):
            vc, exp = np.atleast_1d(vc), np.atleast_1d(exp)
        ok, why = cmp.struct_same(vc, exp, name)
        case.check(ok, 'child_equals_indexed_parent', mech, why=why)
    return nfirst


def compare_parent_after(case, parent_a, parent_b, props, mech0, rng, k=12):
    """cat.p read on the *indexed* parent after the child was created and read equals the value of a catalogue
    that was never indexed (the parent keeps reporting the same thing, evaluated before or after the indexing)."""
    pick = [props[i] for i in rng.permutation(len(props))[:k]]
    for name in pick:
        mech = dict(mech0, prop=name)
        oka, va = read(case, parent_a, name, 'parent_property_raised', mech)
        okb, vb = read(case, parent_b, name, 'parent_property_raised', mech)
        if oka and okb:
            ok, why = cmp.struct_same(va, vb, name)
            case.check(ok, 'indexed_parent_equals_unindexed_parent', mech, why=why)


def probe_empty_selection(case, cat, n, names, rng):
    """Degenerate axis: an empty selection.  The documentation is silent about empty catalogues, so the
    outcome is only counted (evidence), never judged."""
    idx = [slice(0, 0), np.zeros(n, dtype=bool), []][int(rng.integers(0, 3))]
    try:
        child = cat[idx]
        for nm in names:
            getattr(child, nm)
        case.note('empty_selection_readable')
    except Exception as exc:  # noqa: BLE001
        case.note('empty_selection_raised_' + type(exc).__name__)


def compare_tables(case, child, parent_b, pos, mech0, columns=None):
    mech = dict(mech0, prop='to_table', cached=None)
    try:
        tc = child.to_table(columns=columns)
        tb = parent_b.to_table(columns=columns)
    except Exception as exc:  # noqa: BLE001
        loc = core.exc_location(exc)
        if loc is None:
            raise
        case.check(False, 'to_table_raised', dict(mech, exc=type(exc).__name__, at=loc), msg=str(exc)[:200])
        return
    ok = tc.colnames == tb.colnames and len(tc) == (1 if isinstance(pos, int) else len(pos))
    why = '' if ok else f'colnames/len: {tc.colnames} {len(tc)} vs {tb.colnames}'
    if ok:
        p = np.atleast_1d(pos)
        for col in tc.colnames:
            ok, why = cmp.struct_same(_column_value(tc[col]), cmp.index_value(_column_value(tb[col]), p), 'table.' + col)
            if not ok:
                mech = dict(mech, column=col)
                break
    case.check(ok, 'child_table_equals_indexed_parent_table', mech, why=why)
    # 'date' is the construction time of each catalogue (A and B are built a moment apart)
    ma = {k: v for k, v in tc.meta.items() if k != 'date'}
    mb = {k: v for k, v in tb.meta.items() if k != 'date'}
    case.check(ma == mb, 'child_table_meta', mech, obs=repr(ma)[:300], exp=repr(mb)[:300])


# ----------------------------------------------------------------------
# SourceCatalog legs
# ----------------------------------------------------------------------
SC_CLASS_MAP = {'sc_plain': ['touching', 'nested', 'single_pixel', 'convolved', 'errbkg', 'negative', 'ties'],
                'sc_wcs': ['wcs'], 'sc_detcat': ['detcat'], 'sc_masked': ['fully_masked', 'masked_cut'],
                'sc_edge': ['edge'], 'sc_units': ['units'], 'sc_kronmin': ['single_pixel', 'touching', 'errbkg'],
                'sc_localbkg': ['localbkg'], 'sc_single': ['errbkg', 'edge', 'fully_masked', 'wcs'],
                'sc_naninf': ['naninf'], 'sc_oversub': ['oversub'], 'sc_undetected': ['undetected'],
                'sc_magnitude': ['magnitude'], 'sc_independence': ['errbkg', 'units', 'fully_masked', 'wcs', 'touching', 'oversub'],
                'sc_independence2': ['errbkg', 'single_pixel', 'edge', 'detcat', 'undetected', 'magnitude']}


def sc_scene(case):
    rng, cls = case.rng, case.cls
    sub = SC_CLASS_MAP[cls]
    sub = sub[int(rng.integers(0, len(sub)))]
    nmax = 1 if cls == 'sc_single' else 8
    sc = c07mod.build_scene(rng, sub, nmax=nmax)
    if cls == 'sc_single':
        keep = sc.labels[int(rng.integers(0, len(sc.labels)))]
        sc.seg = np.where(sc.seg == keep, sc.seg, 0)
        sc.labels = np.array([keep])
    sc.apermask_method = ['correct', 'mask', 'none'][int(rng.integers(0, 3))]
    if cls == 'sc_kronmin':
        sc.kron_params = [(2.5, 1.4, 3.0), (2.5, 0.1, 6.0), (1.0, 0.5, 2.0)][int(rng.integers(0, 3))]
    else:
        sc.kron_params = [(2.5, 1.4, 0.0), (2.5, 1.4), (2.0, 1.0, 0.0), (2.5, 1.4, 1.0)][int(rng.integers(0, 4))]
    det_sc = None
    if cls == 'sc_detcat' or sub == 'detcat' or rng.random() < 0.08 or (sub == 'undetected' and sc.conv is None):
        det_sc = c07mod.build_detection_scene(rng, sc)
        det_sc.apermask_method = ['correct', 'mask', 'none'][int(rng.integers(0, 3))]
        det_sc.kron_params = sc.kron_params
        if rng.random() < 0.5:
            det_sc.wcs = gen.simple_wcs(rng, sc.shape)
    return sc, det_sc, sub


def sc_extras(rng, cat, sc, n, tag):
    """Deterministic list of (name, value-factory) extras; the factory is applied to A and B alike."""
    import astropy.units as u
    out = []
    kinds = ['float', 'int', 'quantity', 'list', 'twod', 'sky', 'ragged', 'circ', 'kron', 'fluxfrac']
    if sc.info.get('data_mode') in ('oversub', 'undetected', 'negative'):
        kinds += ['fluxfrac', 'fluxfrac', 'fluxfrac', 'kron']      # per-row fallbacks (no solution, zero radius)
    k = int(rng.integers(0, 4))
    if tag == 'post':
        kinds = ['circ', 'kron', 'fluxfrac', 'fluxfrac']
        k = int(rng.integers(1, 3))
    for j in range(k):
        kind = kinds[int(rng.integers(0, len(kinds)))]
        nm = f'{tag}{j}'
        if kind == 'float':
            v = rng.normal(size=n)
        elif kind == 'int':
            v = rng.integers(0, 100, size=n)
        elif kind == 'quantity':
            v = rng.normal(size=n) * u.mJy
        elif kind == 'list':
            v = [float(x) for x in rng.normal(size=n)]
        elif kind == 'twod':
            v = rng.normal(size=(n, 3))
        elif kind == 'ragged':
            v = [np.arange(i + 1, dtype=float) for i in range(n)]
        elif kind == 'sky':
            from astropy.coordinates import SkyCoord
            v = SkyCoord(rng.uniform(0, 360, n), rng.uniform(-80, 80, n), unit='deg')
        else:
            v = None
        if kind == 'circ':
            r = [float(rng.uniform(1.0, 6.0)), int(rng.integers(1, 6)), np.float64(rng.uniform(1.0, 6.0)),
                 np.float32(2.5)][int(rng.integers(0, 4))]           # call forms of a scalar argument
            out.append((nm, 'circ', lambda c, nm=nm, r=r: c.circular_photometry(r, name=nm), [nm + '_flux', nm + '_fluxerr']))
        elif kind == 'kron':
            # kron_photometry(kron_params) reads the minimum circular radius from the *catalogue's own*
            # kron_params[2] whenever the passed parameters select the circular fallback (IndexError for a
            # 2-element catalogue, r=0 ValueError when the catalogue's value is 0): an incidental defect outside
            # C08, so a minimum circular radius is only passed when it equals the catalogue's own positive one
            kps = [(2.0, 1.0), (1.5, 0.7)]
            if len(sc.kron_params) == 3 and sc.kron_params[2] > 0:
                kps.append((3.0, 1.4, sc.kron_params[2]))
            kp = kps[int(rng.integers(0, len(kps)))]
            out.append((nm, 'kron', lambda c, nm=nm, kp=kp: c.kron_photometry(kp, name=nm), [nm + '_flux', nm + '_fluxerr']))
        elif kind == 'fluxfrac':
            f = [float(rng.choice([0.3, 0.5, 0.9, 1.0])), np.float64(0.9), 1, np.float32(0.5)][int(rng.integers(0, 4))]
            out.append((nm, 'fluxfrac', lambda c, nm=nm, f=f: c.fluxfrac_radius(f, name=nm), [nm]))
        else:
            out.append((nm, kind, lambda c, nm=nm, v=v: c.add_extra_property(nm, _cp(v)), [nm]))
    return out


def _cp(v):
    import copy
    return copy.deepcopy(v)


def run_sc_commute(case):
    rng = case.rng
    sc, det_sc, sub = sc_scene(case)
    labels = [int(x) for x in sc.labels]
    n = len(labels)
    skip_if_huge_kron(case, gen.make_catalog(sc, gen.make_catalog(det_sc) if det_sc is not None else None))
    A = gen.make_catalog(sc, gen.make_catalog(det_sc) if det_sc is not None else None)
    B = gen.make_catalog(sc, gen.make_catalog(det_sc) if det_sc is not None else None)
    props = list(A.properties)
    case.check(len(props) >= 80 and props == list(B.properties), 'properties_list', {'cat': 'SourceCatalog'}, n=len(props))

    # extras before slicing (same on A and B)
    extras = sc_extras(rng, A, sc, n, 'xp')
    extra_names = []
    for nm, kind, fn, names in extras:
        for c in (A, B):
            try:
                fn(c)
            except Exception as exc:  # noqa: BLE001
                loc = core.exc_location(exc)
                if loc is None:
                    raise
                case.check(False, 'extra_property_setup_raised',
                           {'cat': 'SourceCatalog', 'op': kind, 'exc': type(exc).__name__, 'at': loc}, msg=str(exc)[:200])
                return
        extra_names += names
    case.check(list(A.extra_properties) == extra_names, 'extra_properties_registry', {'cat': 'SourceCatalog'},
               obs=list(A.extra_properties), exp=extra_names)

    # random subset E evaluated on the parent before indexing
    frac = float(rng.choice([0.0, 0.1, 0.3, 0.6, 1.0]))
    E = [p for p in props if rng.random() < frac]
    for name in [E[i] for i in rng.permutation(len(E))]:
        ok, _ = read(case, A, name, 'parent_property_raised', {'cat': 'SourceCatalog', 'prop': name, 'phase': 'pre'})
        if not ok:
            return

    form = INDEX_FORMS[int(rng.integers(0, len(INDEX_FORMS)))]
    idx, how = make_index(rng, n, form, np.array(labels))
    pos = positions(n, idx, how, np.array(labels))
    cached = set(A.__dict__.keys())
    child = apply_index(A, idx, how, 'sc')
    scalar = isinstance(pos, int)
    chain = 1
    forms = [form]
    # optional second indexing after reading a few properties on the child
    if not scalar and rng.random() < 0.3:
        E2 = [p for p in props if rng.random() < 0.2]
        for name in E2:
            ok, _ = read(case, child, name, 'child_property_raised',
                         {'cat': 'SourceCatalog', 'prop': name, 'index': form, 'scalar': False, 'phase': 'between'})
            if not ok:
                return
        n2 = len(pos)
        form2 = INDEX_FORMS[int(rng.integers(0, len(INDEX_FORMS)))]
        ids2 = np.array(labels)[pos]
        if len(set(ids2.tolist())) < len(ids2) and form2.startswith('get'):
            form2 = 'list'                # get_labels on duplicated labels is ambiguous by construction
        idx2, how2 = make_index(rng, n2, form2, ids2)
        pos2 = positions(n2, idx2, how2, ids2)
        cached = set(child.__dict__.keys())
        child = apply_index(child, idx2, how2, 'sc')
        pos = compose(pos, pos2)
        scalar = isinstance(pos, int)
        chain = 2
        forms.append(form2)

    mech0 = {'cat': 'SourceCatalog', 'index': forms[-1], 'scalar': scalar, 'chain': chain, 'detcat': det_sc is not None}
    if str(sc.layout.get('error', '')).startswith('dtype:float'):
        mech0['error_dtype'] = sc.layout['error'][6:]      # structural fact for the mechanism key only
    case.params = dict(sc.describe(), sub=sub, index=[repr(idx)] + ([repr(idx2)] if chain == 2 else []), forms=forms,
                       n_pre_evaluated=len(E), extras=[k for _, k, _, _ in extras], detcat=det_sc is not None,
                       apermask=sc.apermask_method, kron_params=list(sc.kron_params))
    case.digest = core.arr_digest(*sc.arrays()) + core.digest([case.params['index'], sorted(E), case.params['extras']])[:8]

    case.check(bool(child.isscalar) == scalar, 'child_isscalar', mech0, obs=bool(child.isscalar))
    nexp = 1 if scalar else len(pos)
    case.check(int(child.nlabels) == nexp, 'child_nlabels', mech0, obs=int(child.nlabels), exp=nexp)
    if not scalar:
        case.check(len(child) == nexp, 'child_len', mech0)
    else:
        try:
            child[0]
            case.check(False, 'scalar_catalog_not_indexable', mech0)
        except TypeError:
            case.check(True, 'scalar_catalog_not_indexable', mech0)
    case.check(list(child.extra_properties) == extra_names, 'child_extra_properties_registry', mech0,
               obs=list(child.extra_properties), exp=extra_names)
    pre_names = props + list(extra_names)
    # extras created by the photometry methods AFTER the indexing: on the child and on the never-indexed B
    post = sc_extras(rng, A, sc, n, 'post') if rng.random() < 0.6 else []
    for nm, kind, fn, names in post:
        okp = True
        for c, whoc in ((child, 'child'), (B, 'parent')):
            try:
                fn(c)
            except Exception as exc:  # noqa: BLE001
                loc = core.exc_location(exc)
                if loc is None:
                    raise
                case.check(False, whoc + '_property_raised',
                           dict(mech0, prop=kind + '(name=)', cached=False, exc=type(exc).__name__, at=loc), msg=str(exc)[:200])
                okp = False
                break
        if not okp:
            break
        extra_names += names
        case.note('extras_created_after_indexing', len(names))
    _note_axes(case, sc, det_sc)
    _count_fallback_rows(case, B)
    allnames = props + extra_names
    nfirst = compare_child(case, child, B, pos, allnames, mech0, cached, rng, 'sc')
    ncached = len([p for p in allnames if p in cached])
    compare_parent_after(case, A, B, pre_names, mech0, rng)
    if (sc.wcs if det_sc is None else det_sc.wcs) is not None:
        # sky / WCS outputs requested twice from the same objects (child and never-indexed parent)
        for obj, whoc in ((child, 'child'), (B, 'parent')):
            for nm in ('sky_centroid', 'sky_centroid_icrs', 'sky_bbox_ll', 'sky_bbox_ur', 'sky_centroid_win'):
                ok1, v1 = read(case, obj, nm, whoc + '_property_raised', dict(mech0, prop=nm))
                t = obj.to_table(columns=[nm])[nm] if ok1 else None
                if ok1:
                    exp = v1 if not obj.isscalar else (v1.reshape((1,)) if hasattr(v1, 'reshape') else [v1])
                    ok, why = cmp.struct_same(_column_value(t), exp, nm)
                    case.check(ok, 'second_request_equals_first', dict(mech0, prop=nm, on=whoc), why=why)
        case.note('axis2_sky_outputs_requested_twice')
    if rng.random() < 0.35:
        cols = None if rng.random() < 0.5 else list(A.default_columns) + extra_names_scalar(B, extra_names)
        compare_tables(case, child, B, pos, mech0, columns=cols)
    if rng.random() < 0.05:
        probe_empty_selection(case, A, n, ['labels', 'nlabels', 'xcentroid', 'segment_flux', 'bbox'], rng)
    case.nontrivial = ncached >= 1 and nfirst >= 1
    case.note('sc_children_scalar' if scalar else 'sc_children_nonscalar')
    case.note('properties_compared_cached', ncached)
    case.note('properties_compared_first_evaluated_on_child', nfirst)


def skip_if_huge_kron(case, cat, limit=120.0):
    """Cost bound only: near-zero Kron denominators (undetected / over-subtracted sources) give Kron apertures of
    thousands of pixels whose exact masks take seconds each.  Such scenes are skipped and counted."""
    try:
        size = (np.atleast_1d(cat.kron_radius.value) * np.atleast_1d(cat.semimajor_sigma.value)
                * float(cat.kron_params[0]))
    except Exception:  # noqa: BLE001
        return
    size = size[np.isfinite(size)]
    if size.size and float(size.max()) > limit:
        case.skip('kron aperture larger than 120 px (cost bound)')


def _note_axes(case, sc, det_sc=None):
    for ax in sc.axes:
        case.note('axis2_' + ax[2:] if ax.startswith('2_') else 'axis_' + ax)
    if not sc.axes:
        case.note('axis_plain_scene')
    if det_sc is not None and det_sc.provenance.get('as_child'):
        case.note('axis2_provenance_detection_cat_is_indexed_child')


def _count_fallback_rows(case, cat):
    """Evidence only: how often the per-row fallback branches occur at rows other than the first."""
    def vals(v):
        return np.atleast_1d(np.asarray(getattr(v, 'value', v), dtype=float))
    try:
        r50 = vals(cat.fluxfrac_radius(0.5))
        kr = vals(cat.kron_radius)
        kf = vals(cat.kron_flux)
        sf = vals(cat.segment_flux)
    except Exception:  # noqa: BLE001
        return
    if len(r50) > 1:
        if np.isnan(r50[1:]).any() and np.isfinite(r50).any():
            case.note('catalogues_with_nan_fluxfrac_radius_at_nonfirst_row')
            first_fin = int(np.argmax(np.isfinite(r50)))
            if np.isnan(r50[first_fin + 1:]).any():
                case.note('catalogues_with_nan_fluxfrac_radius_after_a_solved_row')
        if (kr[1:] == 0).any():
            case.note('catalogues_with_zero_kron_radius_at_nonfirst_row')
        if (kf[1:] < 0).any() or (sf[1:] < 0).any():
            case.note('catalogues_with_negative_flux_at_nonfirst_row')


def extra_names_scalar(cat, names):
    """Extras that can be table columns (1 value or fixed-length row per source)."""
    out = []
    for nm in names:
        v = getattr(cat, nm)
        if isinstance(v, list) and len(v) and isinstance(v[0], np.ndarray):
            continue
        out.append(nm)
    return out


# ---------------------------- independence ----------------------------
class Registry:
    def __init__(self, names=(), values=None):
        self.names = list(names)
        self.values = dict(values or {})

    def copy(self):
        return Registry(self.names, {k: _cp(v) for k, v in self.values.items()})


def _observe_extras(case, obj, model, what, mech):
    names = list(obj.extra_properties)
    ok = names == model.names
    case.check(ok, what, dict(mech, aspect='names'), obs=names, exp=model.names)
    allok = ok
    for nm in model.names:
        if not hasattr(obj, nm):
            case.check(False, what, dict(mech, aspect='attribute_missing'), name=nm)
            allok = False
            continue
        ok, why = cmp.struct_same(getattr(obj, nm), model.values[nm], nm)
        case.check(ok, what, dict(mech, aspect='value'), why=why)
        allok &= ok
    # to_table over the object's own extra_properties must work and carry those values
    cols = [nm for nm in names if not (isinstance(model.values.get(nm), list) and len(model.values[nm])
                                        and isinstance(model.values[nm][0], np.ndarray))]
    if cols:
        try:
            tbl = obj.to_table(columns=cols)
            ok = tbl.colnames == cols
            case.check(ok, what, dict(mech, aspect='to_table'), colnames=tbl.colnames, exp=cols)
        except Exception as exc:  # noqa: BLE001
            loc = core.exc_location(exc)
            if loc is None and not isinstance(exc, AttributeError):
                raise
            case.check(False, what, dict(mech, aspect='to_table_raised', exc=type(exc).__name__), msg=str(exc)[:200])
            allok = False
    return allok


VIEW_FORMS = ('int', 'negint', 'npint', 'slice', 'slice_step', 'slice_neg')   # numpy basic indexing: child arrays
#                                                                               are views of the parent's caches
KRON_LAZY = ('kron_radius', 'kron_flux', 'kron_fluxerr', 'kron_aperture')


def _family_recomputed(obj):
    """Kron / aperture quantities that are recomputed from the cached intermediates on every call."""
    kp = tuple(obj.kron_params)
    return {'kron_photometry(default)': obj.kron_photometry(kp),
            'make_kron_apertures(default)': obj.make_kron_apertures(kp),
            'fluxfrac_radius(0.5)': obj.fluxfrac_radius(0.5),
            'circular_photometry(2.5)': obj.circular_photometry(2.5),
            'make_circular_apertures(2.5)': obj.make_circular_apertures(2.5)}


def _cutouts(obj):
    # fill_value=0: NaN is documented to raise ValueError for integer images
    return obj.make_cutouts((5, 7), mode='partial', fill_value=0)


def _compare_family(case, obj, twin_snap, what, mech, rng, lazy_prob):
    """What `obj` reports now for the Kron family vs the never-touched twin's snapshot (exact, structural)."""
    allok = True

    def one(item, fn):
        nonlocal allok
        try:
            v = fn()
        except Exception as exc:  # noqa: BLE001
            loc = core.exc_location(exc)
            if loc is None:
                raise
            case.check(False, what, dict(mech, aspect='kron_family_raised', item=item, exc=type(exc).__name__, at=loc),
                       msg=str(exc)[:200])
            allok = False
            return
        ok, why = cmp.struct_same(v, twin_snap[item], item)
        case.check(ok, what, dict(mech, aspect='kron_family', item=item), why=why)
        allok &= ok
    kp = tuple(obj.kron_params)
    one('kron_photometry(default)', lambda: obj.kron_photometry(kp))
    one('make_kron_apertures(default)', lambda: obj.make_kron_apertures(kp))
    one('fluxfrac_radius(0.5)', lambda: obj.fluxfrac_radius(0.5))
    one('circular_photometry(2.5)', lambda: obj.circular_photometry(2.5))
    one('make_circular_apertures(2.5)', lambda: obj.make_circular_apertures(2.5))
    # cached (lazy) members are read only now and then, so that their *first* evaluation may also happen late
    for nm in KRON_LAZY:
        if rng.random() < lazy_prob:
            one(nm, lambda nm=nm: getattr(obj, nm))
    if rng.random() < lazy_prob:
        one('make_cutouts((5,7))', lambda: _cutouts(obj))
    return allok


def _twin_snapshot(obj):
    snap = {k: _cp(v) for k, v in _family_recomputed(obj).items()}
    for nm in KRON_LAZY:
        snap[nm] = _cp(getattr(obj, nm))
    snap['make_cutouts((5,7))'] = _cutouts(obj)
    return snap


def run_sc_independence(case):
    import astropy.units as u
    rng = case.rng
    sc, det_sc, sub = sc_scene(case)
    labels = [int(x) for x in sc.labels]
    n = len(labels)

    def fresh():
        return gen.make_catalog(sc, gen.make_catalog(det_sc) if det_sc is not None else None)
    skip_if_huge_kron(case, fresh())
    P = fresh()
    _note_axes(case, sc, det_sc)
    props = list(P.properties)
    cheap = ['xcentroid', 'segment_flux', 'area', 'bbox_xmin', 'semimajor_sigma', 'min_value', 'label']

    def newvalue(isscalar, m, kind):
        if isscalar:
            return float(rng.normal()) if kind != 'quantity' else float(rng.normal()) * u.mJy
        if kind == 'quantity':
            return rng.normal(size=m) * u.mJy
        if kind == 'list':
            return [float(x) for x in rng.normal(size=m)]
        return rng.normal(size=m)

    mp = Registry()
    for j in range(int(rng.integers(0, 3))):
        nm = f'pre{j}'
        v = newvalue(False, n, ['float', 'quantity', 'list'][int(rng.integers(0, 3))])
        P.add_extra_property(nm, _cp(v))
        mp.names.append(nm)
        mp.values[nm] = v
    for name in [p for p in props if rng.random() < 0.15]:
        read(case, P, name, 'parent_property_raised', {'cat': 'SourceCatalog', 'prop': name, 'phase': 'pre'})
    # in most histories the parent has its Kron quantities cached *before* it is indexed, so that the child
    # receives slices (views, for int / slice indices) of the parent's cached arrays
    pre_kron = rng.random() < 0.75
    if pre_kron:
        for name in [('kron_radius',), ('kron_flux',), ('kron_radius', 'kron_flux', 'kron_aperture'),
                     ('kron_fluxerr', 'centroid_win')][int(rng.integers(0, 4))]:
            getattr(P, name)
        if rng.random() < 0.4:
            P.fluxfrac_radius(0.5)
        case.note('parent_cached_kron_before_indexing')

    if rng.random() < 0.6:
        form = VIEW_FORMS[int(rng.integers(0, len(VIEW_FORMS)))]
    else:
        form = INDEX_FORMS[int(rng.integers(0, len(INDEX_FORMS)))]
    idx, how = make_index(rng, n, form, np.array(labels))
    pos = positions(n, idx, how, np.array(labels))
    C = apply_index(P, idx, how, 'sc')
    cscalar = isinstance(pos, int)
    is_view = form in VIEW_FORMS
    if is_view:
        case.note('child_indexed_by_int_or_slice')
    mc = Registry(mp.names, {k: cmp.index_value(v, pos) for k, v in mp.values.items()})
    objs = {'parent': (P, mp, False, n), 'child': (C, mc, cscalar, 1 if cscalar else len(pos))}
    base = {'cat': 'SourceCatalog', 'index': form, 'child_scalar': cscalar, 'index_is_basic': is_view,
            'parent_cached_kron': bool(pre_kron)}
    case.params = dict(sc.describe(), sub=sub, index=repr(idx), form=form, pre_extras=list(mp.names),
                       parent_cached_kron=bool(pre_kron), kron_params=list(sc.kron_params), steps=[])

    # never-touched twins: a second catalogue from copies of the same inputs, and a child of a third one
    twin = {'parent': _twin_snapshot(fresh()), 'child': _twin_snapshot(apply_index(fresh(), idx, how, 'sc'))}
    tw_kr = np.atleast_1d(np.asarray(getattr(twin['parent']['kron_radius'], 'value', twin['parent']['kron_radius']),
                                     dtype=float))
    own_min = float(sc.kron_params[1]) if det_sc is None else float(det_sc.kron_params[1])

    # what each object reports before the sequence
    snap = {}
    for who, (obj, model, isscalar, m) in objs.items():
        _observe_extras(case, obj, model, 'own_extra_properties_match_model', dict(base, on=who, op='slice'))
        snap[who] = {nm: _cp(getattr(obj, nm)) for nm in cheap}

    nsteps = int(rng.integers(3, 10))
    counter = 0
    first_noop = rng.random() < 0.3
    for step in range(nsteps):
        who = 'parent' if rng.random() < 0.5 else 'child'
        other = 'child' if who == 'parent' else 'parent'
        X, mx, xscalar, m = objs[who]
        Y, my, _, _ = objs[other]
        ops = ['add', 'circ', 'kron', 'kron', 'fluxfrac', 'kron_noname', 'kron_noname', 'make_kron_apertures',
               'make_kron_apertures', 'circ_noname', 'make_circular_apertures', 'fluxfrac_noname', 'make_cutouts']
        if mx.names:
            ops += ['overwrite', 'rename', 'remove', 'remove_many']
        op = ops[int(rng.integers(0, len(ops)))]
        if step == 0 and first_noop:
            op = 'remove_none'
        shared = X._extra_properties is Y._extra_properties        # label of the mechanism only, never a verdict
        appends = op in ('add', 'rename', 'circ', 'kron', 'fluxfrac')   # operations that append a name to the registry
        mech = dict(base, op=op, on=who, registry_shared_by_reference=bool(shared), op_appends_name=appends)
        # alternative Kron parameters: 2 elements, minimum unscaled radius below, at and above the catalogue's own
        kp = (float(rng.uniform(1.0, 4.0)), float(rng.choice([0.3, 1.0, 1.4, 2.0, 3.0, 6.0])))
        if op in ('kron', 'kron_noname', 'make_kron_apertures'):
            above = kp[1] > own_min
            mech['alt_min_radius_above_own'] = bool(above)
            case.note('steps_kron_min_radius_above_own' if above else 'steps_kron_min_radius_not_above_own')
            if np.any(np.isfinite(tw_kr) & (tw_kr < kp[1])):
                case.note('steps_kron_min_radius_clip_active')
            case.note('kron_steps_on_' + who)
        case.params['steps'].append(f'{who}.{op}' + (f'{kp}' if 'kron' in op else ''))
        counter += 1
        nm = f's{counter}'
        try:
            if op == 'add':
                v = newvalue(xscalar, m, ['float', 'quantity', 'list'][int(rng.integers(0, 3))])
                X.add_extra_property(nm, _cp(v))
                mx.names.append(nm)
                mx.values[nm] = v
            elif op == 'overwrite':
                tgt = mx.names[int(rng.integers(0, len(mx.names)))]
                v = newvalue(xscalar, m, 'float')
                X.add_extra_property(tgt, _cp(v), overwrite=True)
                mx.values[tgt] = v
            elif op == 'rename':
                tgt = mx.names[int(rng.integers(0, len(mx.names)))]
                X.rename_extra_property(tgt, nm)
                mx.names[mx.names.index(tgt)] = nm
                mx.values[nm] = mx.values.pop(tgt)
            elif op == 'remove':
                tgt = mx.names[int(rng.integers(0, len(mx.names)))]
                X.remove_extra_property(tgt)
                mx.names.remove(tgt)
                mx.values.pop(tgt)
            elif op == 'remove_many':
                k = int(rng.integers(1, len(mx.names) + 1))
                tg = [str(x) for x in rng.choice(mx.names, size=k, replace=False)]
                X.remove_extra_properties(tg if rng.random() < 0.7 or k > 1 else tg[0])
                for t_ in tg:
                    mx.names.remove(t_)
                    mx.values.pop(t_)
            elif op == 'remove_none':
                X.remove_extra_properties([])
            elif op == 'circ':
                f, fe = X.circular_photometry(float(rng.uniform(1, 5)), name=nm)
                mx.names += [nm + '_flux', nm + '_fluxerr']
                mx.values[nm + '_flux'], mx.values[nm + '_fluxerr'] = _cp(f), _cp(fe)
            elif op == 'circ_noname':
                X.circular_photometry(float(rng.uniform(0.5, 8)))
            elif op == 'make_circular_apertures':
                X.make_circular_apertures(float(rng.uniform(0.5, 8)))
            elif op == 'kron':
                f, fe = X.kron_photometry(kp, name=nm)
                mx.names += [nm + '_flux', nm + '_fluxerr']
                mx.values[nm + '_flux'], mx.values[nm + '_fluxerr'] = _cp(f), _cp(fe)
            elif op == 'kron_noname':
                X.kron_photometry(kp)
            elif op == 'make_kron_apertures':
                X.make_kron_apertures(kp)
            elif op == 'fluxfrac':
                r = X.fluxfrac_radius(float(rng.choice([0.2, 0.5, 0.8])), name=nm)
                mx.names.append(nm)
                mx.values[nm] = _cp(r)
            elif op == 'fluxfrac_noname':
                X.fluxfrac_radius(float(rng.choice([0.1, 0.35, 0.9, 1.0])))
            elif op == 'make_cutouts':
                X.make_cutouts((int(rng.integers(1, 12)), int(rng.integers(1, 12))),
                               mode=['partial', 'trim'][int(rng.integers(0, 2))], fill_value=0)
        except ValueError as exc:
            loc = core.exc_location(exc)
            if loc is None:
                raise
            # every generated operation is valid for the object it is applied to
            case.check(False, 'valid_extra_property_operation_rejected', dict(mech, at=loc), msg=str(exc)[:200])
            break
        except Exception as exc:  # noqa: BLE001
            loc = core.exc_location(exc)
            if loc is None:
                raise
            case.check(False, 'extra_property_operation_raised', dict(mech, exc=type(exc).__name__, at=loc),
                       msg=str(exc)[:200])
            break
        case.note('op_' + op)
        # the OTHER object: extras, built-ins and the whole Kron family against its never-touched twin
        ok_other = _observe_extras(case, Y, my, 'other_catalog_reports_unchanged', mech)
        for nm_ in cheap:
            ok, why = cmp.struct_same(getattr(Y, nm_), snap[other][nm_], nm_)
            case.check(ok, 'other_catalog_reports_unchanged', dict(mech, aspect='builtin_property'), why=why)
            ok_other &= ok
        ok_other &= _compare_family(case, Y, twin[other], 'other_catalog_reports_unchanged', mech, rng, 0.35)
        case.note('kron_family_observations_on_other')
        ok_self = _observe_extras(case, X, mx, 'own_extra_properties_match_model', mech)
        if not (ok_other and ok_self):
            break           # later steps would only report consequences of the same interference
    # at the end both objects, including everything lazy, still report what their never-touched twins report
    for who, (obj, model, isscalar, m) in objs.items():
        _compare_family(case, obj, twin[who], 'photometry_unchanged_by_history', dict(base, on=who), rng, 1.0)
    case.digest = core.arr_digest(*sc.arrays()) + core.digest([repr(idx), case.params['steps']])[:8]
    case.nontrivial = len(case.params['steps']) >= 3
    case.note('independence_steps', len(case.params['steps']))


# ----------------------------------------------------------------------
# ApertureStats leg
# ----------------------------------------------------------------------
def ap_scene(case):
    import astropy.units as u
    from astropy.stats import SigmaClip
    from photutils.aperture import (CircularAnnulus, CircularAperture, EllipticalAnnulus, EllipticalAperture,
                                    RectangularAnnulus, RectangularAperture, SkyCircularAperture,
                                    SkyEllipticalAperture)
    rng, cls = case.rng, case.cls
    axes = []
    ny, nx = int(rng.integers(20, 41)), int(rng.integers(20, 41))
    r_ = rng.random()
    if r_ < 0.15:
        ny, nx = int(rng.integers(13, 17)), int(rng.integers(45, 71))
        if rng.random() < 0.5:
            ny, nx = nx, ny
        axes.append('shape_elongated')
    yy, xx = np.indices((ny, nx))
    data = rng.normal(3.0, 2.0, (ny, nx))
    for _ in range(int(rng.integers(1, 5))):
        data += rng.uniform(5, 80) * np.exp(-0.5 * (((xx - rng.uniform(0, nx)) / rng.uniform(1, 4)) ** 2
                                                     + ((yy - rng.uniform(0, ny)) / rng.uniform(1, 4)) ** 2))
    error = rng.uniform(0.5, 3.0, (ny, nx)) if rng.random() < 0.6 else None
    mask = None
    if cls == 'ap_masked' or rng.random() < 0.25:
        mask = rng.random((ny, nx)) < 0.15
        y0, x0 = int(rng.integers(0, ny - 8)), int(rng.integers(0, nx - 8))
        mask[y0:y0 + 12, x0:x0 + 12] = True               # a fully masked region
    if rng.random() < 0.25:
        sel = rng.random((ny, nx)) < 0.05
        data[sel] = rng.choice(np.array([np.nan, np.inf, -np.inf]), size=int(sel.sum()))
    n = int(rng.integers(1, 9))
    pos = np.column_stack([rng.uniform(0, nx - 1, n), rng.uniform(0, ny - 1, n)])
    if cls == 'ap_offimage' or rng.random() < 0.2:
        for i in range(n):
            r = rng.random()
            if r < 0.3:
                pos[i] = [rng.choice([-40.0, nx + 40.0]), rng.uniform(0, ny)]          # no overlap at all
            elif r < 0.7:
                pos[i] = [rng.choice([-1.5, 0.0, nx - 1.0, nx + 1.0]), rng.uniform(-2, ny + 1)]  # straddles the edge
    if mask is not None and rng.random() < 0.6:
        pos[int(rng.integers(0, n))] = [x0 + 6, y0 + 6]   # aperture entirely on masked pixels (r small)
    shape = int(rng.integers(0, 6))
    a, b = float(rng.uniform(1.5, 6)), float(rng.uniform(1.0, 4))
    th = float(rng.uniform(0, np.pi))
    if mask is not None:
        a, b = min(a, 4.5), min(b, 4.0)
    unit = None
    wcs = None
    if cls == 'ap_units_localbkg' or rng.random() < 0.15:
        unit = [u.Jy, u.adu][int(rng.integers(0, 2))]
    wide = False
    if cls == 'ap_wcs_sky' or rng.random() < 0.2:
        wide = rng.random() < 0.5
        wcs = gen.simple_wcs(rng, (ny, nx), wide=wide)
        if wide:
            axes.append('wcs_wide_field')
    sky = cls == 'ap_wcs_sky' and rng.random() < 0.6
    pixscale = 1.0
    if wcs is not None:
        from astropy.wcs.utils import proj_plane_pixel_scales
        pixscale = float(np.mean(proj_plane_pixel_scales(wcs))) * 3600.0      # arcsec / pixel
    angform = int(rng.integers(0, 3))               # sky radii as arcsec / arcmin / deg quantities
    # generic axes: magnitude of every value-like input, memory layout, call forms
    mag = 1.0
    if rng.random() < 0.35:
        mag = c07mod.draw_magnitude(rng, tiny=rng.random() < 0.3)
        with np.errstate(all='ignore'):
            data = data * mag
            error = None if error is None else error * mag
        axes.append('magnitude_nonunit')
        if mag <= 1e-9:
            axes.append('magnitude_below_1e-9')
    layout = {}
    if rng.random() < 0.35:
        for name in ('data', 'error', 'mask'):
            if rng.random() < 0.6:
                layout[name] = ['F', 'strided', 'bigendian'][int(rng.integers(0, 2 if name == 'mask' else 3))]
                axes.append('layout_' + layout[name])
    # second list: dtype kind of the image / error, provenance of the aperture object
    if rng.random() < 0.25:
        if np.all(np.isfinite(data)) and rng.random() < 0.7:
            name = ['uint8', 'uint16', 'int16', 'uint32', 'int64_beyond_2**31', 'uint64'][int(rng.integers(0, 6))]
            data = c07mod._to_int_dtype(data, name)
            layout.pop('data', None)
            axes.append('2_dtype_data_' + name)
        elif np.all(np.isfinite(data)):
            with np.errstate(all='ignore'):
                d32 = data.astype(np.float32)
            if np.all(np.isfinite(d32)):
                data = d32
                axes.append('2_dtype_data_float32')
        if error is not None and rng.random() < 0.5:
            name = ['float32', 'uint16', 'uint8'][int(rng.integers(0, 3))]
            with np.errstate(all='ignore'):
                e2 = error.astype(np.float32) if name == 'float32' else c07mod._to_int_dtype(error, name, positive=True)
            if np.all(np.isfinite(e2.astype(float))):
                error = e2
                axes.append('2_dtype_error_' + name)
    aprov = None
    if rng.random() < 0.3:
        aprov = ['indexed_slice', 'indexed_list', 'roundtrip_sky'][int(rng.integers(0, 3))]
        if aprov == 'roundtrip_sky' and wcs is None:
            aprov = 'indexed_list'
        axes.append('2_provenance_aperture_' + aprov)
    posform = int(rng.integers(0, 3))               # positions as ndarray / list of tuples / list of lists
    if rng.random() < 0.04:
        data = np.full((ny, nx), 2.5 * mag)          # degenerate: constant image
        axes.append('degenerate_constant_image')
    if mask is not None and rng.random() < 0.04:
        mask[...] = True
        axes.append('degenerate_everything_masked')

    def ang(v):
        q = v * pixscale * u.arcsec
        return [q, q.to(u.arcmin), q.to(u.deg)][angform]

    def make_ap():
        ap = make_ap0(pos.copy() if aprov not in ('indexed_slice', 'indexed_list')
                      else np.vstack([pos, pos[:2][::-1] + 3.25]))
        if aprov == 'indexed_slice':                 # an aperture that is itself the result of indexing
            ap = ap[:len(pos)]
        elif aprov == 'indexed_list':
            ap = ap[list(range(len(pos)))]
        elif aprov == 'roundtrip_sky' and not sky:   # pixel -> sky -> pixel through the WCS
            ap = ap.to_sky(wcs).to_pixel(wcs)
        return ap

    def make_ap0(p):
        if sky:
            sp = wcs.pixel_to_world(p[:, 0], p[:, 1])
            if shape % 2 == 0:
                return SkyCircularAperture(sp, r=ang(a))
            return SkyEllipticalAperture(sp, a=ang(max(a, b)), b=ang(min(a, b)),
                                         theta=[th * u.rad, np.degrees(th) * u.deg][angform % 2])
        if posform == 1:
            p = [tuple(map(float, t)) for t in p]
        elif posform == 2:
            p = [list(map(float, t)) for t in p]
        if shape == 0:
            return CircularAperture(p, a)
        if shape == 1:
            return CircularAnnulus(p, a, a + b)
        if shape == 2:
            return EllipticalAperture(p, max(a, b), min(a, b), theta=th)
        if shape == 3:
            return EllipticalAnnulus(p, max(a, b), max(a, b) + 2.0, min(a, b) + 1.0, theta=th)
        if shape == 4:
            return RectangularAperture(p, a * 1.5, b * 1.5, theta=th)
        return RectangularAnnulus(p, a, a + 3.0, b + 2.0, theta=th)
    sigclip = None
    if cls == 'ap_sigclip' or rng.random() < 0.15:
        sg = float(rng.choice([1.5, 2.0, 3.0]))
        mi = int(rng.choice([1, 5, 10]))
        sigclip = (sg, mi)
    sum_method = ['exact', 'center', 'subpixel'][int(rng.integers(0, 3))]
    subpixels = int(rng.choice([1, 3, 5]))
    local_bkg = None
    if cls == 'ap_units_localbkg' or rng.random() < 0.2:
        local_bkg = float(rng.normal(3, 1)) if rng.random() < 0.4 else rng.normal(3, 1, n)
        local_bkg = local_bkg * mag
        if np.ndim(local_bkg) == 1 and rng.random() < 0.3:
            local_bkg = [float(x) for x in local_bkg]          # call form: list instead of ndarray

    def build():
        d = gen.relayout(data, layout.get('data'))
        e = gen.relayout(error, layout.get('error'))
        lb = _cp(local_bkg)
        if unit is not None:
            d = d << unit
            e = None if e is None else e << unit
            lb = None if lb is None else lb * unit
        from photutils.aperture import ApertureStats
        return ApertureStats(d, make_ap(), error=e, mask=gen.relayout(mask, layout.get('mask')), wcs=wcs,
                             sigma_clip=None if sigclip is None else SigmaClip(sigma=sigclip[0], maxiters=sigclip[1]),
                             sum_method=sum_method, subpixels=subpixels, local_bkg=lb)
    desc = dict(shape=[ny, nx], n=n, aperture=type(make_ap()).__name__, error=error is not None, mask=mask is not None,
                unit=None if unit is None else str(unit), wcs=wcs is not None, sigclip=sigclip, sum_method=sum_method,
                local_bkg=None if local_bkg is None else ('scalar' if np.ndim(local_bkg) == 0 else 'array'),
                magnitude=mag, layout=layout, sky=bool(sky), wide=bool(wide), axes=axes)
    dig = core.arr_digest(data, error, mask, pos, np.asarray(0.0 if local_bkg is None else local_bkg))
    return build, n, desc, dig


def run_ap(case):
    rng = case.rng
    build, n, desc, dig = ap_scene(case)
    A, B = build(), build()
    props = [p for p in A.properties if p not in ('isscalar', 'n_apertures')] + ['id', 'ids']
    case.check(len(props) >= 45, 'properties_list', {'cat': 'ApertureStats'}, n=len(props))
    for ax in desc['axes']:
        case.note('axis_ap_' + ax)
    if not desc['axes']:
        case.note('axis_ap_plain_scene')
    frac = float(rng.choice([0.0, 0.0, 0.1, 0.3, 0.6, 1.0]))
    if frac == 0.0:
        case.note('ap_parent_indexed_before_any_read')
    E = [p for p in props if rng.random() < frac]
    for name in [E[i] for i in rng.permutation(len(E))]:
        ok, _ = read(case, A, name, 'parent_property_raised', {'cat': 'ApertureStats', 'prop': name, 'phase': 'pre'})
        if not ok:
            return
    ids = np.arange(1, n + 1)
    form = INDEX_FORMS[int(rng.integers(0, len(INDEX_FORMS)))]
    idx, how = make_index(rng, n, form, ids)
    pos = positions(n, idx, how, ids)
    cached = set(A.__dict__.keys())
    child = apply_index(A, idx, how, 'ap')
    scalar = isinstance(pos, int)
    chain, forms = 1, [form]
    if not scalar and rng.random() < 0.3:
        for name in [p for p in props if rng.random() < 0.2]:
            ok, _ = read(case, child, name, 'child_property_raised',
                         {'cat': 'ApertureStats', 'prop': name, 'index': form, 'scalar': False, 'phase': 'between'})
            if not ok:
                return
        n2 = len(pos)
        ids2 = ids[pos]
        form2 = INDEX_FORMS[int(rng.integers(0, len(INDEX_FORMS)))]
        if len(set(ids2.tolist())) < len(ids2) and form2.startswith('get'):
            form2 = 'array'
        idx2, how2 = make_index(rng, n2, form2, ids2)
        pos2 = positions(n2, idx2, how2, ids2)
        cached = set(child.__dict__.keys())
        child = apply_index(child, idx2, how2, 'ap')
        pos = compose(pos, pos2)
        scalar = isinstance(pos, int)
        chain = 2
        forms.append(form2)
    mech0 = {'cat': 'ApertureStats', 'index': forms[-1], 'scalar': scalar, 'chain': chain}
    case.params = dict(desc, forms=forms, index=repr(idx), n_pre_evaluated=len(E))
    case.digest = dig + core.digest([forms, repr(idx), sorted(E)])[:8]
    case.check(bool(child.isscalar) == scalar, 'child_isscalar', mech0, obs=bool(child.isscalar))
    nexp = 1 if scalar else len(pos)
    case.check(int(child.n_apertures) == nexp, 'child_nlabels', mech0, obs=int(child.n_apertures), exp=nexp)
    if scalar:
        try:
            child[0]
            case.check(False, 'scalar_catalog_not_indexable', mech0)
        except TypeError:
            case.check(True, 'scalar_catalog_not_indexable', mech0)
    else:
        case.check(len(child) == nexp, 'child_len', mech0)
    nfirst = compare_child(case, child, B, pos, props, mech0, cached, rng, 'ap')
    ncached = len([p for p in props if p in cached])
    compare_parent_after(case, A, B, props, mech0, rng)
    if rng.random() < 0.35:
        compare_tables(case, child, B, pos, mech0, columns=None)
    if rng.random() < 0.05:
        probe_empty_selection(case, A, n, ['ids', 'n_apertures', 'xcentroid', 'sum', 'bbox'], rng)
    case.nontrivial = ncached >= 1 and nfirst >= 1
    case.note('ap_children_scalar' if scalar else 'ap_children_nonscalar')
    case.note('properties_compared_cached', ncached)
    case.note('properties_compared_first_evaluated_on_child', nfirst)


def run_case(case):
    if case.cls.startswith('ap_'):
        run_ap(case)
    elif case.cls.startswith('sc_independence'):
        run_sc_independence(case)
    else:
        run_sc_commute(case)
