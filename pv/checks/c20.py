"""C20 Isophote fitting recovers the geometry of elliptical light distributions.

M1 reference-model monitors on noise-free analytic galaxies (pv.gen.c20_galaxy,
pv.ref.c20_ellipse): the real ``Ellipse.fit_image`` / ``fit_isophote`` /
``EllipseSample`` / ``EllipseGeometry.to_polar`` / ``build_ellipse_model`` are
driven and compared, at the API boundary, with the analytic truth.

Tolerance bands were measured on the unchanged tree (see /verif/trials/C20.md,
section "calibration") and are deliberately several times the measured maxima
yet far below what a sign / quadrant / half-pixel error produces.
"""
from __future__ import annotations

import glob
import json
import math
import os

import numpy as np

from pv import core
from pv.gen import c20_galaxy as gen
from pv.ref import c20_ellipse as ref

ID = 'C20'
RULE = ('noise-free images I(x,y)=f(elliptical radius), f in {Sersic n 0.7-4, Gaussian} (+ optional constant '
        'background), non-integer centre, eps 0.05-0.8, PA in [0,pi) incl. the range ends/axes, frames 71-131 px; '
        'fit_image from a perturbed geometry (centre +-1.5 px, eps +-0.1, PA +-20 deg, sma0 5-15) with geometric '
        'step 0.1-0.3 or linear step 1-3 px, minsma/maxsma, integrmode bilinear/mean/median/nearest_neighbor, '
        'fix_* flags (via the call or the geometry object, pinned at truth or at the perturbed start); '
        'class fix_noniter = fix_* flags (single/pairs, via call or geometry) with maxrit below sma0 / between sma0 '
        'and maxsma / maxsma beyond the frame so that the outward pass ends in non-iterative mode (stop codes 4, 5); '
        'class controls = random sclip/nclip, fflag, maxgerr, conver, minit/maxit, maxrit, far maxsma (structural '
        'monitors only); class truth_start = start at the true geometry (an empty list is a violation there); '
        'class single = Ellipse.fit_isophote at one sma; class sample = EllipseSample at the true geometry; '
        'class polar = EllipseGeometry.to_polar/radius on random + degenerate points (centre, axes, integer pixels). '
        'non-trivial = fit with >=5 isophotes judged against truth or fixed values / >=3 converged single fits / '
        '>=3 samples / >=500 to_polar points; distinct by digest of image + start geometry + keywords')
# order: the 8 quick shards start at classes 0..7 (expensive ones), the cheap classes come last, so that every class
# is reached within ~10 cases per shard even on a heavily loaded machine
CLASSES = ['area', 'free', 'corner', 'offcentre', 'nearest', 'linear', 'repr', 'fixed',
           'truth_start', 'geo_step', 'fix_noniter', 'eps_edge', 'controls', 'pa_edge', 'single', 'degenerate', 'sample',
           'polar']
assert sorted(CLASSES) == sorted(gen.FIT_CLASSES + ['polar', 'sample', 'single', 'repr', 'degenerate'])
MUST_REACH = ['photutils.isophote.ellipse:Ellipse.fit_image',
              'photutils.isophote.ellipse:Ellipse.fit_isophote',
              'photutils.isophote.fitter:EllipseFitter.fit',
              'photutils.isophote.fitter:_PositionCorrector0.correct',
              'photutils.isophote.fitter:_PositionCorrector1.correct',
              'photutils.isophote.fitter:_AngleCorrector.correct',
              'photutils.isophote.fitter:_EllipticityCorrector.correct',
              'photutils.isophote.fitter:CentralEllipseFitter.fit',
              'photutils.isophote.harmonics:fit_first_and_second_harmonics',
              'photutils.isophote.sample:EllipseSample._extract',
              'photutils.isophote.sample:EllipseSample.update',
              'photutils.isophote.sample:EllipseSample.coordinates',
              'photutils.isophote.geometry:EllipseGeometry._to_polar_scalar',
              'photutils.isophote.geometry:EllipseGeometry._to_polar_vectorized',
              'photutils.isophote.geometry:EllipseGeometry.radius',
              'photutils.isophote.geometry:EllipseGeometry.update_sma',
              'photutils.isophote.geometry:EllipseGeometry.reset_sma',
              'photutils.isophote.integrator:_BiLinearIntegrator.integrate',
              'photutils.isophote.integrator:_MeanIntegrator.compute_sample_value',
              'photutils.isophote.integrator:_MedianIntegrator.compute_sample_value',
              'photutils.isophote.integrator:_NearestNeighborIntegrator.integrate',
              'photutils.isophote.isophote:IsophoteList.get_closest',
              'photutils.isophote.model:build_ellipse_model']
ANCHOR_FILES = ['isophote/ellipse.py', 'isophote/fitter.py', 'isophote/sample.py', 'isophote/geometry.py',
                'isophote/harmonics.py', 'isophote/integrator.py', 'isophote/isophote.py', 'isophote/model.py']
MIN_NONTRIVIAL = {'quick': 50, 'thorough': 1500}
ASSUMPTIONS = ['numpy/scipy (map_coordinates order=1, gammaincinv, lstsq) are trusted',
               'truth = point-sampled analytic law at pixel centres (integer coordinates), the convention of the '
               'bilinear integrator',
               'an empty IsophoteList ("No meaningful fit was possible") is skipped and counted; a run with fewer '
               'than 70 % usable fits is inconclusive',
               'recovery bands are max(3 x reported error, absolute term); the absolute terms were calibrated on '
               'the unchanged tree (trials/C20.md)']

# ---- tolerance bands (absolute terms; see trials/C20.md for the measured maxima) ----------------
CEN_ABS = 0.35          # px          (measured max 0.118 over ~100 000 well-sampled isophotes, at eps ~0.8)
EPS_ABS = 0.05          #             (measured max 0.0157)
INT_REL = 0.15          # of f(sma)   (measured max 0.049)


def pa_abs_deg(eps):    # degrees     (measured max 2.46 deg = 0.31 of this band)
    return 1.0 + 0.4 / eps


MODEL_K_SMALL = 2.5     # pointwise model band = K * (0.06 + 0.8 |grad ln I|)   (measured max 0.93 / 0.70 of the
MODEL_K_BIG = 3.5       # unit band for small / big steps over ~8000 models; typical 0.03-0.25)
MODEL_SHIFT = 0.15      # px, least-squares registration offset of model vs image (measured max 0.057)
MODEL_BIAS = 0.08       # mean relative residual (measured max 0.032)
POLAR_TOL = 1e-12       # scalar vs array form
USABLE_MIN = 0.70
MAG_CEN, MAG_EPS, MAG_INT = 1e-3, 1e-4, 1e-5   # fit_isophote on a rescaled image vs the original (measured max
                                            # 6.4e-6 px, 1.6e-6, 1.3e-7; float32 pixels: 1.1e-6 px, 8.1e-8, 2.6e-8)


def plan(tier):
    if tier == 'thorough':
        return dict(shards=16, cases=18 * 20, timeout=3000, budget_s=840)
    # PV_C20_BUDGET: wall budget override for verification runs on an oversubscribed machine (never a verdict)
    return dict(shards=8, cases=45, timeout=900, budget_s=float(os.environ.get('PV_C20_BUDGET', 65)))


# ================================================================================================
# oracle self-test (facts independent of photutils)
# ================================================================================================
def _bilinear(img, x, y):
    """Value of the piecewise-bilinear interpolant of img (pixel centres at integer coordinates)."""
    from scipy.ndimage import map_coordinates
    return map_coordinates(img, [np.atleast_1d(y), np.atleast_1d(x)], order=1, mode='nearest')


def selftest():
    ref.selftest()
    # bilinear reference: exact on a plane, exact at pixel centres
    yy, xx = np.mgrid[0:9, 0:11]
    plane = 2.0 + 0.5 * xx - 0.25 * yy
    assert abs(float(_bilinear(plane, 3.3, 4.7)[0]) - (2.0 + 0.5 * 3.3 - 0.25 * 4.7)) < 1e-12
    rng = np.random.default_rng(3)
    a = rng.random((7, 8))
    assert float(_bilinear(a, 5.0, 2.0)[0]) == a[2, 5]
    assert abs(float(_bilinear(a, 5.5, 2.0)[0]) - 0.5 * (a[2, 5] + a[2, 6])) < 1e-15
    # the bands separate truth from convention errors: a mirrored PA, a 90 deg quadrant slip,
    # b/a instead of 1-b/a, and a half-pixel registration error are all far outside
    for eps in (0.05, 0.3, 0.8):
        band = math.radians(pa_abs_deg(eps))
        assert float(ref.pa_diff(math.radians(100.0), math.radians(100.0) + math.pi / 2)) > band
    assert float(ref.pa_diff(math.radians(30.0), math.radians(-30.0))) > math.radians(pa_abs_deg(0.05))
    assert abs(0.3 - (1 - 0.3)) > EPS_ABS and 0.5 > CEN_ABS
    # the analytic image has its isophote through (x0 + a cos pa, y0 + a sin pa) at level f(a)
    spec = dict(shape=[61, 61], x0=30.4, y0=29.7, eps=0.4, pa=1.0, kind='sersic', amp=5.0, scale=8.0, n=2.0,
                background=0.5)
    img = gen.image_of(spec)
    f = gen.law_of(spec)
    xa, ya = ref.from_polar_ref(12.0, 0.0, 30.4, 29.7, 1.0)
    assert abs(float(_bilinear(img, xa, ya)[0]) / float(f(12.0)) - 1) < 0.02
    xb, yb = ref.from_polar_ref(12.0 * 0.6, math.pi / 2, 30.4, 29.7, 1.0)
    assert abs(float(_bilinear(img, xb, yb)[0]) / float(f(12.0)) - 1) < 0.02


# ================================================================================================
# helpers
# ================================================================================================
def _crc(a):
    import zlib
    if isinstance(a, np.ma.MaskedArray):
        return (_crc(np.ma.getdata(a)), zlib.crc32(np.ascontiguousarray(np.ma.getmaskarray(a)).tobytes()))
    return zlib.crc32(np.ascontiguousarray(a).tobytes()), a.shape, str(a.dtype)


def _lib(case, mech, fn, *a, **k):
    """Call library code; a raise is recorded as violation 'raised' with the innermost photutils frame
    plus the structural facts in `mech` (so that known findings can be keyed by mechanism)."""
    ok, res = case.lib(fn, *a, **k)
    if ok:
        return True, res
    if core.exc_location(res) is None:
        raise res                                  # harness error -> inconclusive
    m = dict(mech)
    m.update(core.exc_mech(res))
    case.check(False, 'raised', m, msg=str(res)[:300])
    return False, res


def _fix_name(fix):
    on = [k for k in ('fix_center', 'fix_pa', 'fix_eps') if fix.get(k)]
    return '+'.join(on) if on else 'none'


def _well(iso, m):
    return (iso.stop_code == 0 and iso.sma > 0 and 4.0 <= iso.sma <= 0.35 * m and iso.ndata >= 30)


def _worst(case, items, what, mech, unit=''):
    """items: list of (ratio, detail-dict). One recorded check per parameter; tracks max ratio."""
    if not items:
        return
    r, d = max(items, key=lambda t: t[0])
    if not mech.get('astep_px_in_geometry'):      # (known broken configuration: keep the measured maxima clean)
        case.dev(what + '_over_band' + ('_nearest' if mech.get('integrmode') == 'nearest_neighbor' else ''), r)
    case.check(r <= 1.0, what, mech, worst_ratio_to_band=r, **d)


# ================================================================================================
# recovery / exactness of one isophote list against the truth
# ================================================================================================
def _recovery(case, spec, isos, mech, m):
    """Well-sampled isophotes vs truth within max(3 err, abs band)."""
    f = gen.law_of(spec)
    xT, yT, eT, pT = spec['x0'], spec['y0'], spec['eps'], spec['pa']
    fix = spec.get('fix', {})
    off_truth = any(fix.values()) and not spec.get('fixed_at_truth', True)
    items = {k: [] for k in ('x0', 'y0', 'eps', 'pa', 'intens')}
    n = 0
    free = {'c': not fix.get('fix_center'), 'e': not fix.get('fix_eps'), 'p': not fix.get('fix_pa')}
    for iso in isos:
        if not _well(iso, m):
            continue
        n += 1
        d = dict(sma=iso.sma, ndata=iso.ndata, niter=iso.niter)
        tol = max(3.0 * float(iso.x0_err or 0.0), CEN_ABS)
        items['x0'].append((abs(iso.x0 - xT) / tol, dict(d, obs=iso.x0, exp=xT, tol=tol, err=iso.x0_err)))
        tol = max(3.0 * float(iso.y0_err or 0.0), CEN_ABS)
        items['y0'].append((abs(iso.y0 - yT) / tol, dict(d, obs=iso.y0, exp=yT, tol=tol, err=iso.y0_err)))
        tol = max(3.0 * float(iso.ellip_err or 0.0), EPS_ABS)
        items['eps'].append((abs(iso.eps - eT) / tol, dict(d, obs=iso.eps, exp=eT, tol=tol, err=iso.ellip_err)))
        tol = max(3.0 * float(iso.pa_err or 0.0), math.radians(pa_abs_deg(eT)))
        dp = float(ref.pa_diff(iso.pa, pT))
        items['pa'].append((dp / tol, dict(d, obs=iso.pa, exp=pT, diff_deg=math.degrees(dp),
                                           tol_deg=math.degrees(tol), err=iso.pa_err)))
        ft = float(f(iso.sma))
        tol = max(3.0 * float(iso.int_err or 0.0), INT_REL * ft)
        items['intens'].append((abs(iso.intens - ft) / tol, dict(d, obs=iso.intens, exp=ft, tol=tol,
                                                                err=iso.int_err)))
        if not off_truth and not mech.get('astep_px_in_geometry') and not spec.get('no_recovery'):
            mode = mech.get('integrmode', 'bilinear')
            sfx = '_nearest' if mode == 'nearest_neighbor' else ''
            if free['c']:
                case.dev('abs_dev_centre_px' + sfx, max(abs(iso.x0 - xT), abs(iso.y0 - yT)))
            if free['e']:
                case.dev('abs_dev_eps' + sfx, abs(iso.eps - eT))
            if free['p']:
                case.dev('abs_dev_pa_deg' + sfx, math.degrees(dp))
            case.dev('rel_dev_intens' + sfx, abs(iso.intens / ft - 1.0))
    case.note('isophotes_well_sampled', n)
    if spec.get('no_recovery'):
        case.note('recovery_not_judged_control_keywords', 1)
        return 0
    if off_truth:
        # a parameter pinned away from the truth biases the free ones: only intensity-free structure is judged
        case.note('recovery_not_judged_fixed_off_truth', 1)
        return 0
    names = {'x0': 'centre_vs_truth', 'y0': 'centre_vs_truth', 'eps': 'eps_vs_truth', 'pa': 'pa_vs_truth',
             'intens': 'intens_vs_law'}
    for k, lst in items.items():
        if fix.get('fix_center') and k in ('x0', 'y0'):
            continue
        if fix.get('fix_pa') and k == 'pa':
            continue
        if fix.get('fix_eps') and k == 'eps':
            continue
        _worst(case, lst, names[k], dict(mech, param=k))
    return n


def _fixed_exact(case, spec, isos, init, mech):
    fix = spec['fix']
    if not any(fix.values()):
        return 0
    n = 0
    bad = {k: None for k in ('x0', 'y0', 'pa', 'eps')}
    for iso in isos:
        central = iso.sma == 0
        n += 1
        if iso.stop_code in (4, 5):
            case.note('isophotes_checked_fixed_stop_code_4_5', 1)
        if fix['fix_center']:
            if iso.x0 != init['x0'] and bad['x0'] is None:
                bad['x0'] = dict(sma=iso.sma, obs=iso.x0, exp=init['x0'], stop_code=iso.stop_code)
            if iso.y0 != init['y0'] and bad['y0'] is None:
                bad['y0'] = dict(sma=iso.sma, obs=iso.y0, exp=init['y0'], stop_code=iso.stop_code)
        if central:
            continue      # the central pixel is documented as "not really a true isophote" (eps = pa = 0)
        if fix['fix_pa'] and iso.pa != init['pa'] and bad['pa'] is None:
            bad['pa'] = dict(sma=iso.sma, obs=iso.pa, exp=init['pa'], stop_code=iso.stop_code,
                             eps=iso.eps)
        if fix['fix_eps'] and iso.eps != init['eps'] and bad['eps'] is None:
            bad['eps'] = dict(sma=iso.sma, obs=iso.eps, exp=init['eps'], stop_code=iso.stop_code)
    for k, flag in (('x0', 'fix_center'), ('y0', 'fix_center'), ('pa', 'fix_pa'), ('eps', 'fix_eps')):
        if fix[flag]:
            mk = dict(mech, param=k, via=spec['flags_via'])
            if bad[k] is not None:
                d = abs(bad[k]['obs'] - bad[k]['exp'])
                mk['delta'] = ('rounding' if d < 1e-12 else
                               'quarter_turn' if (k == 'pa' and abs(d - math.pi / 2) < 1e-9) else
                               'half_turn' if (k == 'pa' and abs(d - math.pi) < 1e-9) else
                               'three_quarter_turn' if (k == 'pa' and abs(d - 1.5 * math.pi) < 1e-9) else 'other')
            case.check(bad[k] is None, 'fixed_parameter_exact', mk, first_bad=bad[k])
    case.note('isophotes_checked_fixed', n)
    return n


# ================================================================================================
# sampling invariants of one isophote / sample
# ================================================================================================
def _frame_accounting(case, shape, sample, mode, mech, complete):
    """Sample points outside the frame are never counted as data (bilinear / nearest_neighbor walks).

    The walk (phi_0 = initial_polar_angle, phi += min(1/r, 0.5) up to 2 pi + 0.05) is replayed; every walk point is
    classified by its image coordinates: clearly inside (1 <= x <= nx-2, same in y), clearly outside (beyond the
    pixel footprint of the border pixels: x < -1 or x > nx), or in the border band where the integrators differ.
    Stored samples must be walk points, none of them clearly outside; `complete` (no mask, no sigma clipping):
    every clearly-inside walk point must be stored, total_points must be the length of the walk."""
    g = sample.geometry
    ang = np.asarray(sample.values[0], float)
    ny, nx = shape
    phis, rads = [], []
    phi, r = g.initial_polar_angle, g.initial_polar_radius
    while phi <= 2.0 * math.pi + 0.05:
        phis.append(phi)
        rads.append(r)
        phi += min(1.0 / r, 0.5)
        r = float(ref.ellipse_polar_radius(g.sma, g.eps, phi))
    phis, rads = np.array(phis), np.array(rads)
    xs, ys = ref.from_polar_ref(rads, phis, g.x0, g.y0, g.pa)
    inside = (xs >= 1) & (xs <= nx - 2) & (ys >= 1) & (ys <= ny - 2)
    outside = (xs < -1) | (xs > nx) | (ys < -1) | (ys > ny)
    idx = np.searchsorted(phis, ang - 1e-12)
    idx = np.clip(idx, 0, len(phis) - 1)
    on_walk = bool(len(ang) == 0 or np.all(np.abs(phis[idx] - ang) <= 1e-12))
    case.check(on_walk, 'sample_points_on_walk', mech, n=len(ang), walk=len(phis))
    if not on_walk:
        return
    stored = np.zeros(len(phis), bool)
    stored[idx] = True
    side = []
    if np.any(outside & (xs < -1)):
        side.append('left')
    if np.any(outside & (ys < -1)):
        side.append('bottom')
    if np.any(outside & (xs > nx)):
        side.append('right')
    if np.any(outside & (ys > ny)):
        side.append('top')
    mk = dict(mech, leaves_frame='+'.join(side) if side else 'no')
    nbad = int(np.sum(stored & outside))
    case.check(nbad == 0, 'outside_points_not_data', mk, n_outside_counted=nbad, n_outside=int(outside.sum()),
               ndata=len(ang), sma=g.sma)
    if side:
        case.note('axis2_path_leaves_frame_' + mk['leaves_frame'], 1)
        case.note('walk_points_outside_frame_checked', int(outside.sum()))
    if complete:
        nmiss = int(np.sum(inside & ~stored))
        case.check(nmiss == 0, 'inside_points_are_data', mk, n_inside_missing=nmiss, n_inside=int(inside.sum()))
        case.check(sample.total_points == len(phis), 'total_points_is_walk_length', mk, obs=sample.total_points,
                   exp=len(phis))


def _sample_checks(case, img, sample, mode, mech, spec=None, judge_values=True, astep=None, linear=False,
                   other_smas=(), val_rtol=1e-10, complete=True):
    """Invariants of an extracted EllipseSample.  `other_smas`: semimajor axes of the geometries this
    sample's geometry may have been inherited from (neighbouring isophotes / the geometry object)."""
    g = sample.geometry
    vals = sample.values
    ang, rad, inten = np.asarray(vals[0], float), np.asarray(vals[1], float), np.asarray(vals[2], float)
    case.check(len(ang) == len(rad) == len(inten) == sample.actual_points, 'sample_lengths', mech,
               n=[len(ang), len(rad), len(inten), sample.actual_points])
    case.check(sample.total_points >= sample.actual_points >= 0, 'sample_counts', mech)
    if len(ang) == 0:
        return
    exp_r = ref.ellipse_polar_radius(g.sma, g.eps, ang)
    # the walk starts at geometry.initial_polar_radius; every later radius comes from geometry.radius(phi)
    first_ok = abs(rad[0] - exp_r[0]) <= 1e-12 * exp_r[0]
    # structural fact for the mechanism key: the first radius is the value cached by EllipseGeometry.__init__
    # (public attribute initial_polar_radius), which no longer matches the geometry's current sma/eps
    stale = bool((not first_ok) and rad[0] == getattr(g, 'initial_polar_radius', None))
    case.check(first_ok, 'sample_first_point_on_ellipse', dict(mech, cached_initial_radius_stale=stale),
               obs=float(rad[0]), exp=float(exp_r[0]), sma=g.sma, angle=float(ang[0]))
    case.note('sample_first_point_stale' if not first_ok else 'sample_first_point_ok', 1)
    rest_ok = core.same(rad[1:], exp_r[1:], rtol=1e-12)[0]
    if not rest_ok and len(rad) > 2:
        # structural fact for the mechanism key: the stored path is the ellipse of the geometry *before*
        # EllipseFitter._check_conditions edited it in place (eps -> -eps with pa -+ pi/2, or eps 0 -> 0.05)
        # (solve the axis ratio q of the stored path from one point; before a flip q = 1 - eps_old >= 1)
        pre = False
        c2, s2 = math.cos(ang[1]) ** 2, math.sin(ang[1]) ** 2
        den = g.sma ** 2 - rad[1] ** 2 * c2
        if den > 0 and s2 > 0:
            q = math.sqrt(rad[1] ** 2 * s2 / den)
            if q >= 1.0 - 1e-9 and core.same(rad[1:], ref.ellipse_polar_radius(g.sma, 1.0 - q, ang[1:]),
                                             rtol=1e-8)[0]:
                pre = True
        case.check(False, 'sample_radius_on_ellipse', dict(mech, path_of_geometry_before_eps_flip=pre),
                   obs=rad[1:6], exp=exp_r[1:6], sma=g.sma, eps=g.eps, pa=g.pa)
        case.note('sample_path_inconsistent', 1)
        return
    case.close(rad[1:], exp_r[1:], 'sample_radius_on_ellipse', rtol=1e-12, mech=mech)
    case.check(bool(np.all(np.diff(ang) > 0)) and ang[0] >= 0 and ang[-1] <= 2 * math.pi + 0.56,
               'sample_angles_monotone', mech, first=ang[0], last=ang[-1])
    xs, ys = ref.from_polar_ref(rad, ang, g.x0, g.y0, g.pa)
    cx, cy = sample.coordinates()
    case.close(cx, xs, 'sample_coordinates', atol=1e-10, mech=dict(mech, axis='x'))
    case.close(cy, ys, 'sample_coordinates', atol=1e-10, mech=dict(mech, axis='y'))
    ny, nx = img.shape
    # (the integrators truncate with int(): coordinates in (-1, 0) are still treated as inside)
    case.check(bool(np.all((xs > -1) & (xs < nx) & (ys > -1) & (ys < ny))), 'sample_inside_frame', mech,
               xr=[float(xs.min()), float(xs.max())], yr=[float(ys.min()), float(ys.max())])
    case.close(sample.mean, float(np.mean(inten)), 'sample_mean_is_mean', rtol=1e-12, mech=mech)
    if mode in ('bilinear', 'nearest_neighbor'):
        _frame_accounting(case, img.shape, sample, mode, mech, complete)
    if not judge_values:
        return
    inside = (xs >= 0) & (xs <= nx - 1) & (ys >= 0) & (ys <= ny - 1)
    if mode == 'bilinear':
        case.close(inten[inside], _bilinear(img, xs[inside], ys[inside]), 'sample_value_bilinear', rtol=val_rtol,
                   atol=1e-300, mech=mech)
    elif mode == 'nearest_neighbor':
        # the value must be one of the four pixels around the sample point
        xi, yi, vi = xs[inside], ys[inside], inten[inside]
        i0, j0 = np.floor(xi).astype(int), np.floor(yi).astype(int)
        i1, j1 = np.minimum(i0 + 1, nx - 1), np.minimum(j0 + 1, ny - 1)
        four = np.stack([img[j0, i0], img[j0, i1], img[j1, i0], img[j1, i1]])
        case.check(bool(np.all(np.any(four == vi[None, :], axis=0))), 'sample_value_is_neighbour_pixel', mech)
        # the nearest pixel (pixel centres at integer coordinates); exact .5 ties: either neighbour
        tie = (np.abs(xi - np.floor(xi) - 0.5) < 1e-9) | (np.abs(yi - np.floor(yi) - 0.5) < 1e-9)
        ii = np.clip(np.floor(xi + 0.5).astype(int), 0, nx - 1)
        jj = np.clip(np.floor(yi + 0.5).astype(int), 0, ny - 1)
        case.check(bool(np.all((img[jj, ii] == vi) | tie)), 'sample_value_nearest_pixel', mech,
                   n_bad=int(np.sum((img[jj, ii] != vi) & ~tie)))
    elif spec is not None:
        # area modes: mean/median of pixels of a sector between the bounding ellipses (or the bilinear
        # fallback): the value lies between the law at the outer and inner bounding ellipse (+- margin)
        f = gen.law_of(spec)
        if linear:
            a1, a2 = g.sma - astep / 2.0, g.sma + astep / 2.0
        else:
            a1, a2 = g.sma * (1 - astep / 2.0), g.sma * (1 + astep / 2.0)
        marg = 1.5 / (1.0 - spec['eps']) + 0.5
        lo_v, hi_v = float(f(a2 + marg)), float(f(max(a1 - marg, 0.0)))
        vv = inten if first_ok else inten[1:]
        if len(vv):
            case.check(bool(np.all((vv >= lo_v * (1 - 1e-9)) & (vv <= hi_v * (1 + 1e-9)))),
                       'sample_value_within_sector_law', mech, lo=lo_v, hi=hi_v, mn=float(vv.min()),
                       mx=float(vv.max()), sma=g.sma)


def _area_replay(case, img, g0, sample, mode, mech):
    """Area integration modes (mean / median) on a sample that the harness constructed itself.

    The sector bookkeeping (angular limits, bounding ellipses; public EllipseGeometry methods) is replayed
    on `g0`, a copy of the sample's geometry taken *before* the extraction; the pixel membership of every
    sector and the statistic are the harness's own (atan2-based polar coordinates, numpy mean / order
    statistics).  Comparison is robust against one boundary pixel more or less: mean within 1.5 (max-min)/n,
    median within +-1 rank; sectors with < 5 pixels must carry the bilinear value (documented fallback for
    "too small" sectors), 5..8 pixels: either.
    """
    vals = sample.values
    ang, rad, inten = np.asarray(vals[0], float), np.asarray(vals[1], float), np.asarray(vals[2], float)
    ny, nx = img.shape
    phi = g0.initial_polar_angle
    g0.initialize_sector_geometry(phi)                 # the "area hint" call made before the walk
    if g0.sector_area < 1.0:
        case.note('area_replay_bilinear_fallback_sample', 1)
        xs, ys = ref.from_polar_ref(rad, ang, g0.x0, g0.y0, g0.pa)
        case.close(inten, _bilinear(img, xs, ys), 'area_small_sector_is_bilinear', rtol=1e-10, atol=1e-300, mech=mech)
        return
    secs = []
    while phi <= 2.0 * math.pi + 0.05:
        vx, vy = g0.initialize_sector_geometry(phi)
        phi1, phi2 = g0.polar_angle_sector_limits()
        a1, a2 = g0.bounding_ellipses()
        secs.append((phi, phi1, phi2, a1, a2, vx.copy(), vy.copy()))
        phi += min(g0.sector_angular_width / 2.0 + phi2 - phi, 0.5)
    if len(secs) != len(ang) or not core.same(np.array([t[0] for t in secs]), ang, atol=1e-9)[0]:
        case.note('area_replay_walk_differs_not_judged', 1)      # (sectors dropped at the frame border, ...)
        return
    q = 1.0 - g0.eps
    nex = nar = nbil = nlost = 0
    bad = None
    bbox_subset = False
    for k, (phi, phi1, phi2, a1, a2, vx, vy) in enumerate(secs):
        i1, i2 = max(int(vx.min()) - 3, 0), min(int(vx.max()) + 4, nx)
        j1, j2 = max(int(vy.min()) - 3, 0), min(int(vy.max()) + 4, ny)
        yy, xx = np.mgrid[j1:j2, i1:i2]
        rp, pp = ref.to_polar_ref(xx, yy, g0.x0, g0.y0, g0.pa)
        aux = q / np.sqrt((q * np.cos(pp)) ** 2 + np.sin(pp) ** 2)
        sel = (pp >= phi1) & (pp < phi2) & (rp >= a1 * aux) & (rp < a2 * aux)
        v = np.sort(img[j1:j2, i1:i2][sel])
        n = len(v)
        # subset inside the bounding box of the four sector vertices as the library scans it
        # (range(int(min) - 1, int(max) + 1)): pixels of the outer arc beyond the vertices on the +x/+y side
        # are outside that box
        inbox = ((xx >= int(vx.min()) - 1) & (xx < int(vx.max()) + 1)
                 & (yy >= int(vy.min()) - 1) & (yy < int(vy.max()) + 1))
        vb = np.sort(img[j1:j2, i1:i2][sel & inbox])
        nlost += int(n - len(vb))
        obs = inten[k]
        xb, yb = ref.from_polar_ref(rad[k], ang[k], g0.x0, g0.y0, g0.pa)
        bil = float(_bilinear(img, xb, yb)[0])
        is_bil = abs(obs - bil) <= 1e-10 * abs(bil)
        if n >= 5:
            if mode == 'mean':
                mref = float(v.mean())
                ok_area = abs(obs - mref) <= 1.5 * float(v[-1] - v[0]) / n + 1e-12 * abs(mref)
                exact = abs(obs - mref) <= 1e-12 * abs(mref)
            else:
                ok_area = v[max(n // 2 - 1, 0)] <= obs <= v[min(n // 2 + 1, n - 1)]
                exact = obs == v[n // 2]
        else:
            ok_area = exact = False
        if n > 8:
            ok = ok_area
        elif n < 5:
            ok = is_bil
        else:
            ok = ok_area or is_bil
        nex += bool(exact)
        nar += bool(ok_area and not is_bil)
        nbil += bool(is_bil)
        if not ok:
            nb = len(vb)
            if 6 < nb < n:
                sub = (abs(obs - float(vb.mean())) <= 1e-12 * abs(obs)) if mode == 'mean' else (obs == vb[nb // 2])
                bbox_subset = bbox_subset or bool(sub)
            elif nb <= 6 and nb < n:
                # the box subset is "6 or less pixels": the library's documented fallback is the bilinear value
                bbox_subset = bbox_subset or bool(is_bil)
        if not ok and bad is None:
            bad = dict(k=k, phi=phi, npix=n, npix_in_vertex_box=len(vb), obs=float(obs), bilinear=bil,
                       ref_mean=float(v.mean()) if n else None, ref_median=float(v[n // 2]) if n else None,
                       ref_min=float(v[0]) if n else None, ref_max=float(v[-1]) if n else None)
    case.check(bad is None, 'area_value_vs_sector_pixels', dict(mech, equals_vertex_box_subset=bbox_subset),
               first_bad=bad, sectors=len(secs))
    case.note('area_sectors_judged', len(secs))
    case.note('area_sector_pixels_outside_vertex_box', nlost)
    case.note('area_sectors_exact', nex)
    case.note('area_sectors_area_path', nar)
    case.note('area_sectors_bilinear_path', nbil)


def _isophote_invariants(case, iso, mech):
    s = iso.sample
    inten = np.asarray(s.values[2], float)
    if len(inten) == 0:          # ellipse without a valid sample point (maxsma beyond the frame): nothing defined
        case.note('isophote_invariants_skipped_no_data', 1)
        return
    case.close(iso.intens, float(np.mean(inten)), 'intens_is_sample_mean', rtol=1e-12, mech=mech)
    case.check(iso.ndata == len(inten) and iso.nflag == s.total_points - s.actual_points and iso.nflag >= 0,
               'ndata_nflag', mech, ndata=iso.ndata, nflag=iso.nflag, n=len(inten))
    case.close(iso.rms, float(np.std(inten)), 'rms_is_std', rtol=1e-12, atol=1e-300, mech=mech)
    case.close(iso.int_err, float(np.std(inten)) / math.sqrt(len(inten)), 'int_err_def', rtol=1e-12, atol=1e-300,
               mech=mech)


# ================================================================================================
# structure of the isophote list
# ================================================================================================
def _structure(case, spec, isolist, init, mech):
    kw = spec['fit_kw']
    step, linear = kw['step'], spec['linear']
    minsma, maxsma = kw['minsma'], kw['maxsma']
    sma0 = kw.get('sma0', init['sma'])
    smas = np.array([iso.sma for iso in isolist], float)
    case.check(bool(np.all(np.diff(smas) > 0)), 'sma_strictly_increasing', mech, sma=smas)
    case.close(isolist.sma, smas, 'isolist_sma_array', mech=mech)
    nz = smas[smas > 0]
    has_central = bool(np.any(smas == 0))
    case.check(has_central == (minsma == 0.0), 'central_pixel_iff_minsma_zero', mech, minsma=minsma,
               has_central=has_central)
    first_in = (sma0 - step) if linear else sma0 / (1.0 + step)
    if len(nz):
        case.check(bool(nz.min() >= minsma), 'sma_within_bounds',
                   dict(mech, bound='minsma', minsma_above_first_inward_sma=bool(minsma > first_in)),
                   minsma=minsma, smallest=float(nz.min()), sma0=sma0, step=step)
        case.check(bool(nz.max() <= maxsma), 'sma_within_bounds', dict(mech, bound='maxsma'),
                   maxsma=maxsma, largest=float(nz.max()))
        # growth rule: consecutive values follow sma*(1+step) / sma+step, anchored at sma0
        k0 = int(np.argmin(np.abs(nz - sma0)))
        case.close(nz[k0], sma0, 'sma0_in_list', rtol=1e-12, mech=mech)
        if len(nz) > 1:
            if linear:
                case.close(np.diff(nz), np.full(len(nz) - 1, step), 'sma_growth_rule', rtol=1e-9, atol=1e-9,
                           mech=mech)
            else:
                case.close(nz[1:] / nz[:-1], np.full(len(nz) - 1, 1.0 + step), 'sma_growth_rule', rtol=1e-11,
                           mech=mech)
    fin = all(np.all(np.isfinite(np.asarray(getattr(isolist, a), float))) for a in ('x0', 'y0', 'eps', 'pa'))
    # (an ellipse with no valid sample point - requested maxsma beyond the frame - has no intensity: docs silent)
    fin = fin and all(np.isfinite(iso.intens) for iso in isolist if iso.ndata > 0)
    empty = [iso for iso in isolist if iso.ndata == 0]
    case.note('isophotes_without_data', len(empty))
    codes_e = sorted({int(iso.stop_code) for iso in empty})
    case.check(not any(iso.valid for iso in empty), 'valid_isophotes_have_data',
               dict(mech, empty_isophote_stop_code=codes_e[0] if len(codes_e) == 1 else 'mixed'),
               sma=[iso.sma for iso in empty][:5], stop_codes=codes_e)
    case.check(fin, 'isolist_values_finite', mech)
    codes = [int(iso.stop_code) for iso in isolist]
    case.check(all(c in (0, 1, 2, 3, 4, 5) for c in codes), 'stop_code_documented', mech, codes=codes)
    case.check(all(bool(iso.valid) for iso in isolist), 'all_valid', mech)
    for c in set(codes):
        case.note(f'stop_code_{c}', codes.count(c))
    # list container behaviour that follows from "sorted list of Isophote"
    rng = case.rng
    for _ in range(3):
        s = float(rng.uniform(0.0, smas.max() * 1.2))
        got = isolist.get_closest(s)
        d = np.abs(smas - s)
        case.check(abs(got.sma - s) <= d.min() * (1 + 1e-12) + 1e-300, 'get_closest', mech, asked=s, got=got.sma,
                   best=float(smas[np.argmin(d)]))
    a, b = sorted(int(v) for v in rng.integers(0, len(isolist) + 1, 2))
    sub = isolist[a:b]
    case.check(len(sub) == b - a and all(x is y for x, y in zip(sub, list(isolist)[a:b])), 'slice_is_sublist', mech)
    for name in ('x0', 'y0', 'eps', 'pa', 'intens', 'stop_code', 'ndata'):
        exp = np.array([getattr(iso, name) for iso in isolist], float)
        case.close(getattr(isolist, name), exp, 'isolist_attr_arrays', mech=dict(mech, attr=name))
    tab = isolist.to_table()
    case.check(len(tab) == len(isolist), 'table_rows', mech)
    case.close(np.asarray(tab['sma'], float), smas, 'table_sma', mech=mech)
    case.close(np.asarray(tab['pa'].value, float), np.degrees(isolist.pa), 'table_pa_degrees', rtol=1e-13, mech=mech)


# ================================================================================================
# model reconstruction
# ================================================================================================
def _model(case, spec, img, isolist, mech, recover_ok):
    from photutils.isophote import build_ellipse_model
    smas = isolist.sma
    nz = smas[smas > 0]
    if len(nz) < 10:
        case.note('model_not_built_short_list', 1)
        return
    if not recover_ok:
        # a list fitted with parameters pinned away from the truth (or with whole-pixel sampling) describes
        # other ellipses than the image's: nothing to compare the model with
        case.note('model_not_judged', 1)
        return
    pas = np.array([iso.pa for iso in isolist if iso.sma > 0])
    pa_wraps = bool(np.any(np.abs(np.diff(pas)) > math.pi / 2))
    step, linear = spec['fit_kw']['step'], spec['linear']
    big = (step > 1.5) if linear else (step > 0.2)
    hh = False        # default arguments only: the statement is about build_ellipse_model(shape, isolist)
    mm = dict(mech, pa_wraps=pa_wraps, step='big' if big else 'small')
    if any(iso.ndata == 0 for iso in isolist):
        mm['list_has_isophote_without_data'] = True      # (NaN intensity in the list: recorded separately)
    ok, model = _lib(case, dict(mm, op='build_ellipse_model'), build_ellipse_model, img.shape, isolist,
                     high_harmonics=hh)
    if not ok:
        return
    case.note('models_built', 1)
    case.check(model.shape == img.shape and bool(np.all(np.isfinite(model))), 'model_shape_finite', mm)
    if spec.get('axes', {}).get('model_from_slice'):
        # (x) a list with a history (sliced and re-joined) gives the same model
        a_ = len(isolist) // 2
        ok2, model2 = _lib(case, dict(mm, op='build_ellipse_model', list='recombined'), build_ellipse_model,
                           img.shape, isolist[:a_] + isolist[a_:])
        if ok2:
            case.close(model2, model, 'model_from_recombined_list', mech=mm)
            case.note('axis2_model_from_recombined_list', 1)
    ny, nx = img.shape
    yy, xx = np.mgrid[0:ny, 0:nx]
    rr = ref.elliptical_radius(xx, yy, spec['x0'], spec['y0'], spec['eps'], spec['pa'])
    edge = (xx < 2) | (yy < 2) | (xx > nx - 3) | (yy > ny - 3)
    rin = float(rr[edge].min())              # largest true ellipse that stays >= 2 px inside the frame
    smax = float(nz.max())
    # "fitted region": the radial range covered by the longest run of consecutive converged (stop_code 0)
    # isophotes, one isophote in from each end of the run (the spline knots couple neighbours); lists without
    # such a run (>= 8 isophotes) are not judged - stop_code 2/4/5 isophotes carry best-effort geometry
    nzi = [iso for iso in isolist if iso.sma > 0]
    best, cur = (0, 0), None
    for k, iso in enumerate(nzi + [None]):
        okk = iso is not None and iso.stop_code == 0
        if okk and cur is None:
            cur = k
        if not okk and cur is not None:
            if k - cur > best[1] - best[0]:
                best = (cur, k)
            cur = None
    if best[1] - best[0] < 8:
        case.note('model_not_judged_no_converged_run', 1)
        return
    # margins: one isophote at the ends of the list; five where the run is bounded by non-converged isophotes
    # (e.g. the unfitted start geometry beyond maxrit): the cubic interpolation splines of build_ellipse_model
    # ring for ~5 knots next to such a jump in x0/y0/eps/pa (measured: 0.78, 0.72, 0.23, 0.10, 0.015 px)
    m_lo = 5 if best[0] > 0 else 1
    m_hi = 5 if best[1] < len(nzi) else 1
    if best[1] - 1 - m_hi <= best[0] + m_lo:
        case.note('model_not_judged_no_converged_run', 1)
        return
    run_lo, run_hi = float(nzi[best[0] + m_lo].sma), float(nzi[best[1] - 1 - m_hi].sma)
    # (inner bound: also semi-minor axis >= 2.5 px - thinner ellipses are not resolved by the pixel grid, same
    #  criterion as for the sample means)
    lo = max(run_lo + 1.0, 3.0, 2.5 / (1.0 - spec['eps']))
    hi = min(run_hi, rin) - 1.0
    inner = (rr > lo) & (rr < hi)
    if inner.sum() >= 50:
        case.check(bool(np.all(model[inner] != 0.0)), 'model_covers_fitted_region', dict(mm, region='inside_frame'),
                   holes=int((model[inner] == 0.0).sum()), npix=int(inner.sum()))
        if True:
            gy, gx = np.gradient(np.log(img))
            g = np.hypot(gx, gy)
            res = model / img - 1.0
            s2 = inner & (g < 0.2)
            if s2.sum() >= 50:
                K = MODEL_K_BIG if big else MODEL_K_SMALL
                ratio = np.abs(res[s2]) / (0.06 + 0.8 * g[s2])
                k = int(np.argmax(ratio))
                clean = not pa_wraps and not mech.get('astep_px_in_geometry')   # (known mechanisms: keep the
                if clean:                                                      #  calibration numbers clean)
                    case.dev('model_pointwise_over_unit_band_' + ('big' if big else 'small'), float(ratio[k]))
                case.check(float(ratio[k]) <= K, 'model_vs_image_pointwise', dict(mm, region='inside_frame'),
                           worst_ratio=float(ratio[k]), K=K, rel=float(res[s2][k]), grad=float(g[s2][k]),
                           pix=[int(xx[s2][k]), int(yy[s2][k])], npix=int(s2.sum()), high_harmonics=hh)
                A = np.stack([-gx[s2], -gy[s2], np.ones(int(s2.sum()))], axis=1)
                dx, dy, c = np.linalg.lstsq(A, res[s2], rcond=None)[0]
                if clean:
                    case.dev('model_shift_px', max(abs(dx), abs(dy)))
                    case.dev('model_bias', abs(c))
                case.check(abs(dx) <= MODEL_SHIFT and abs(dy) <= MODEL_SHIFT, 'model_registration',
                           dict(mm, region='inside_frame'), dx=float(dx), dy=float(dy))
                case.check(abs(c) <= MODEL_BIAS, 'model_bias', dict(mm, region='inside_frame'), bias=float(c))
                case.note('model_pixels_judged', int(s2.sum()))
    # ellipses that cross the frame border: the pixels inside the frame are still part of the fitted region
    inside = ~((xx < 3) | (yy < 3) | (xx > nx - 4) | (yy > ny - 4))
    outer = (rr > max(rin, lo) + 1.5) & (rr < min(smax, run_hi) - 1.5) & inside
    if outer.sum() >= 30:
        case.check(bool(np.all(model[outer] != 0.0)), 'model_covers_fitted_region',
                   dict(mm, region='ellipses_crossing_frame'),
                   holes=int((model[outer] == 0.0).sum()), npix=int(outer.sum()), rin=rin, smax=smax)


# ================================================================================================
# class: full fit_image
# ================================================================================================
def _corner_samples(case, spec, img):
    """(viii) every corner case: EllipseSample (bilinear and nearest_neighbor) at the true geometry with an sma
    whose path leaves the frame on the near sides, for the image and its three mirror images (views with negative
    strides), i.e. with the galaxy nearer each of the four corners in turn."""
    from photutils.isophote import EllipseSample
    rng = case.rng
    ny, nx = img.shape
    m = min(nx, ny)
    for flipx in (False, True):
        for flipy in (False, True):
            view = img[::-1 if flipy else 1, ::-1 if flipx else 1]
            mon = np.ascontiguousarray(view)
            x0 = nx - 1 - spec['x0'] if flipx else spec['x0']
            y0 = ny - 1 - spec['y0'] if flipy else spec['y0']
            pa = spec['pa']
            if flipx:
                pa = math.pi - pa
            if flipy:
                pa = -pa
            pa = pa % math.pi
            near = ('left' if x0 < nx / 2 else 'right') + '+' + ('bottom' if y0 < ny / 2 else 'top')
            for mode in ('nearest_neighbor', 'bilinear'):
                sma = float(rng.uniform(0.45, 0.62) * m)
                mech = dict(integrmode=mode, op='EllipseSample', galaxy_near=near)
                s_ = EllipseSample(view, sma, x0=x0, y0=y0, eps=spec['eps'], position_angle=pa, integrmode=mode)
                ok, _ = _lib(case, mech, s_.extract)
                if not ok:
                    continue
                s_.mean = float(np.mean(s_.values[2])) if len(s_.values[2]) else float('nan')
                _sample_checks(case, mon, s_, mode, mech, judge_values=True)
                case.note('axis2_corner_samples_' + near, 1)


def _fit_case(case):
    from photutils.isophote import Ellipse, EllipseGeometry
    spec = gen.draw(case.rng, case.cls, case.tier)
    axes = spec['axes']
    init = spec['init']
    kw = dict(spec['fit_kw'])
    mode = kw.get('integrmode', 'bilinear')
    # generic axis: dtype / layout / container of the image (monitors use `img`, a float64 C array holding
    # exactly the values the library sees in `lib_img`)
    kind = axes['image_repr']
    if kind and not gen.int_repr_ok(spec, kind, kw['maxsma']):
        kind = 'float32'
    lib_img, img, sc = gen.apply_repr(gen.image_of(spec), kind, spec, axes['peak_frac'])
    spec['law_scale'] = sc
    snap = _crc(lib_img)
    val_rtol = 5e-6 if kind == 'float32' else 1e-10
    # generic axis: call forms of the geometry arguments
    if axes['pa_form'] == 'negative':
        init['pa'] = init['pa'] - math.pi
    elif axes['pa_form'] == 'above_pi':
        init['pa'] = init['pa'] + math.pi
    g_pa = np.float64(init['pa']) if axes['pa_form'] == 'numpy_float64' else init['pa']
    g_x0, g_y0 = (np.float64(init['x0']), np.float64(init['y0'])) if axes['centre_np'] else (init['x0'], init['y0'])
    g_sma = int(init['sma']) if axes['sma_int'] else init['sma']
    if axes['sma_int'] and 'sma0' in kw:
        kw['sma0'] = int(kw['sma0'])
    for name, on in (('axis_plain', axes['plain']), ('axis_frame_elongated', axes['frame'] is not None),
                     ('axis_magnitude', axes['magnitude'] is not None), ('axis_image_repr_' + str(kind), kind),
                     ('axis_pa_form_' + str(axes['pa_form']), axes['pa_form']), ('axis_centre_numpy', axes['centre_np']),
                     ('axis_sma_python_int', axes['sma_int']),
                     ('axis2_centre_on_grid_' + str(axes.get('centre_grid')), axes.get('centre_grid')),
                     ('axis2_corner_' + str(axes.get('corner')), axes.get('corner')),
                     ('axis2_geometry_with_history', axes.get('geometry_history')),
                     ('axis2_frame_parity_%s_%s' % (spec['shape'][0] % 2, spec['shape'][1] % 2), True)):
        if on:
            case.note(name, 1)
    gkw = {}
    fixkw = {k: True for k, v in spec['fix'].items() if v}
    if spec['flags_via'] == 'geometry':
        gkw.update(fixkw)
    else:
        kw.update(fixkw)
    if spec['linear_via'] == 'geometry':
        gkw.update(astep=kw['step'], linear_growth=True)
    case.params = dict(shape=spec['shape'], x0=round(spec['x0'], 3), y0=round(spec['y0'], 3),
                       eps=round(spec['eps'], 4), pa_deg=round(math.degrees(spec['pa']), 4), law=spec['kind'],
                       n=spec['n'] and round(spec['n'], 2), scale=round(spec['scale'], 2),
                       init={k: round(v, 4) for k, v in init.items()}, fit_kw=kw, geometry_kw=gkw,
                       fixed_at_truth=spec['fixed_at_truth'], regime=spec.get('regime'), amp=spec['amp'],
                       axes={k: v for k, v in axes.items() if v and k != 'peak_frac'}, image_repr=kind,
                       subclass=spec['subclass'])
    case.digest = core.arr_digest(img, np.array([init[k] for k in ('x0', 'y0', 'sma', 'eps', 'pa')])) \
        + core.digest([kw, gkw])
    mech = dict(integrmode=mode, growth='linear' if spec['linear'] else 'geometric', fix=_fix_name(spec['fix']))
    if spec['linear']:
        # structural fact: the pixel step was (also) stored in the geometry object (EllipseGeometry.astep)
        mech['astep_px_in_geometry'] = spec['linear_via'] == 'geometry'

    if kind:
        mech['image_repr'] = kind
    if float(np.max(img)) >= 1.0e7:
        case.note('axis_magnitude_big_values', 1)      # (judged like any other case since /repo 9396a95)
    if axes['pa_form'] in ('negative', 'above_pi'):
        mech['pa_form'] = axes['pa_form']
    if case.cls == 'corner':
        _corner_samples(case, spec, img)
    geom = EllipseGeometry(g_x0, g_y0, g_sma, init['eps'], g_pa, **gkw)
    if axes.get('geometry_history'):
        # (x) a geometry object that was used before: sector bookkeeping mutated, polar transforms evaluated, copied
        import copy
        geom.initialize_sector_geometry(0.3)
        geom.initialize_sector_geometry(4.0)
        geom.to_polar(3.0, 4.0)
        geom.to_polar(np.arange(5.0), np.arange(5.0))
        geom.bounding_ellipses()
        geom = copy.deepcopy(geom)
    if axes.get('corner'):
        mech['corner'] = axes['corner']
    ell = Ellipse(lib_img, geom)
    ok, isolist = _lib(case, dict(mech, op='fit_image'), ell.fit_image, **kw)
    case.check(_crc(lib_img) == snap, 'image_unchanged', dict(mech, op='fit_image'))
    if not ok:
        return
    if len(isolist) == 0:
        case.note('empty_isolist', 1)
        if case.cls == 'truth_start':
            # the basin-of-convergence caveat cannot apply to a start at the true geometry itself
            case.check(False, 'fit_from_truth_not_empty', mech, init=init)
        if case.violations:
            return
        case.skip('empty_isolist_no_meaningful_fit')
    if case.cls == 'truth_start':
        case.check(True, 'fit_from_truth_not_empty', mech)
    case.note('usable_fit', 1)
    case.note('isophotes', len(isolist))
    m = min(spec['shape'])

    _structure(case, spec, isolist, init, mech)
    nonc0 = [iso for iso in isolist if iso.sma > 0]
    sma0_ = kw.get('sma0', init['sma'])
    if nonc0 and nonc0[-1].stop_code == 4:
        case.note('fits_outward_pass_ended_non_iterative', 1)
        ninw = sum(1 for iso in nonc0 if iso.sma < sma0_ * (1 - 1e-9))
        case.note('inward_isophotes_after_non_iterative_end', ninw)
        if any(spec['fix'].values()):
            case.note('inward_isophotes_after_non_iterative_end_under_fix', ninw)
    if spec.get('regime'):
        mech = dict(mech, regime=spec['regime'])
    nfix = _fixed_exact(case, spec, isolist, init, mech)
    nrec = _recovery(case, spec, isolist, mech, m)
    off_truth = any(spec['fix'].values()) and not spec['fixed_at_truth']

    # sampling invariants on a few isophotes (always incl. the first-fitted one)
    nonc = [iso for iso in isolist if iso.sma > 0]
    pick = list(case.rng.choice(len(nonc), size=min(5, len(nonc)), replace=False)) if nonc else []
    if case.cls == 'corner':
        pick = list(range(len(nonc)))           # every isophote: the outer ones leave the frame on the near sides
    complete = not str(kind).startswith('masked') and not kw.get('nclip')
    for k in pick:
        iso = nonc[int(k)]
        mk = dict(mech, stop_code=int(iso.stop_code))
        _isophote_invariants(case, iso, mk)
        _sample_checks(case, img, iso.sample, mode, mk, spec=spec,
                       judge_values=(mode in ('bilinear', 'nearest_neighbor')) or
                                    (not off_truth and iso.stop_code == 0 and iso.sma >= 4.0),
                       astep=kw['step'], linear=spec['linear'],
                       other_smas=[o.sma for o in nonc if o is not iso] + [init['sma']], val_rtol=val_rtol,
                       complete=complete)
    _model(case, spec, img, isolist, mech,
           recover_ok=not off_truth and mode != 'nearest_neighbor' and not spec.get('no_recovery'))
    case.check(_crc(lib_img) == snap, 'image_unchanged', dict(mech, op='build_ellipse_model'))
    case.nontrivial = (nrec >= 5) or (nfix >= 5)


# ================================================================================================
# class: single isophote fits
# ================================================================================================
def _single_case(case):
    from photutils.isophote import Ellipse, EllipseGeometry
    rng = case.rng
    spec = gen.draw_truth(rng, 'single', case.tier, small=True)
    img = gen.image_of(spec)
    snap = _crc(img)
    m = min(spec['shape'])
    case.params = dict(shape=spec['shape'], x0=round(spec['x0'], 3), y0=round(spec['y0'], 3),
                       eps=round(spec['eps'], 4), pa_deg=round(math.degrees(spec['pa']), 4), law=spec['kind'],
                       n=spec['n'] and round(spec['n'], 2), scale=round(spec['scale'], 2), fits=[])
    dig = [core.arr_digest(img)]
    nconv = 0
    for _ in range(6):
        sma = float(rng.uniform(5.0, 0.33 * m))
        init = gen.draw_init(rng, spec, sma0=sma)
        mode = ['bilinear', 'bilinear', 'bilinear', 'mean', 'median'][int(rng.integers(0, 5))]
        fixsel = [None, None, None, 'fix_center', 'fix_pa', 'fix_eps'][int(rng.integers(0, 6))]
        sub = dict(spec, fix=dict(fix_center=False, fix_pa=False, fix_eps=False), fixed_at_truth=True,
                   flags_via='geometry')
        gkw = {}
        if fixsel:
            sub['fix'][fixsel] = True
            gkw[fixsel] = True
            if fixsel == 'fix_center':
                init['x0'], init['y0'] = spec['x0'], spec['y0']
            elif fixsel == 'fix_pa':
                init['pa'] = spec['pa']
            else:
                init['eps'] = spec['eps']
        kw = dict(step=float(rng.choice([0.1, 0.1, 0.2])), minit=int(rng.choice([10, 20])), integrmode=mode)
        case.params['fits'].append(dict(sma=round(sma, 3), init={k: round(v, 4) for k, v in init.items()},
                                        fix=fixsel, **kw))
        dig.append(core.digest([init, kw, fixsel]))
        mech = dict(integrmode=mode, growth='geometric', fix=_fix_name(sub['fix']), op='fit_isophote')
        geom = EllipseGeometry(init['x0'], init['y0'], init['sma'], init['eps'], init['pa'], **gkw)
        ok, iso = _lib(case, mech, Ellipse(img, geom).fit_isophote, sma, **kw)
        if not ok:
            continue
        case.note(f'single_stop_code_{int(iso.stop_code)}', 1)
        case.close(iso.sma, sma, 'single_sma_as_requested', mech=mech)
        if not iso.valid:
            continue
        _fixed_exact(case, sub, [iso], init, mech)
        if _well(iso, m):
            nconv += 1
            _recovery(case, sub, [iso], mech, m)
            _isophote_invariants(case, iso, mech)
            _sample_checks(case, img, iso.sample, mode, mech, spec=spec, judge_values=True, astep=kw['step'],
                           other_smas=[init['sma']])
            # the local radial gradient of a decreasing profile is negative
            case.check(iso.grad is not None and iso.grad < 0, 'gradient_negative', mech, grad=iso.grad)
    case.check(_crc(img) == snap, 'image_unchanged', dict(op='fit_isophote'))
    case.digest = core.digest(dig)
    case.note('single_fits_converged', nconv)
    case.nontrivial = nconv >= 3


# ================================================================================================
# class: EllipseSample at the true geometry
# ================================================================================================
def _sample_case(case):
    from photutils.isophote import EllipseSample, EllipseGeometry
    rng = case.rng
    spec = gen.draw_truth(rng, 'sample', case.tier, small=True)
    img = gen.image_of(spec)
    snap = _crc(img)
    m = min(spec['shape'])
    f = gen.law_of(spec)
    case.params = dict(shape=spec['shape'], x0=round(spec['x0'], 3), y0=round(spec['y0'], 3),
                       eps=round(spec['eps'], 4), pa_deg=round(math.degrees(spec['pa']), 4), law=spec['kind'],
                       n=spec['n'] and round(spec['n'], 2), scale=round(spec['scale'], 2), samples=[])
    dig = [core.arr_digest(img)]
    n = 0
    for _ in range(6):
        sma = float(rng.uniform(4.0, 0.35 * m))
        mode = ['bilinear', 'bilinear', 'nearest_neighbor', 'mean', 'median'][int(rng.integers(0, 5))]
        linear = bool(rng.random() < 0.3)
        astep = float(rng.uniform(1.0, 3.0)) if linear else float(rng.uniform(0.1, 0.3))
        via_geometry = bool(rng.random() < 0.5)
        case.params['samples'].append(dict(sma=round(sma, 3), integrmode=mode, linear=linear, astep=round(astep, 3),
                                           via_geometry=via_geometry))
        dig.append(core.digest([sma, mode, linear, astep, via_geometry]))
        mech = dict(integrmode=mode, growth='linear' if linear else 'geometric', op='EllipseSample')
        if via_geometry:
            g = EllipseGeometry(spec['x0'], spec['y0'], sma * 0.5, spec['eps'], spec['pa'], astep=astep,
                                linear_growth=linear)
            s = EllipseSample(img, sma, integrmode=mode, geometry=g)
        else:
            s = EllipseSample(img, sma, x0=spec['x0'], y0=spec['y0'], astep=astep, eps=spec['eps'],
                              position_angle=spec['pa'], linear_growth=linear, integrmode=mode)
        case.check(s.geometry.sma == sma and s.geometry.x0 == spec['x0'] and s.geometry.y0 == spec['y0']
                   and s.geometry.eps == spec['eps'] and s.geometry.pa == spec['pa'], 'sample_geometry_as_given',
                   dict(mech, via_geometry=via_geometry))
        import copy
        g_before = copy.deepcopy(s.geometry)
        ok, _ = _lib(case, mech, s.update)
        if not ok:
            continue
        n += 1
        if mode in ('mean', 'median') and not via_geometry:
            _area_replay(case, img, g_before, s, mode, mech)
        _sample_checks(case, img, s, mode, dict(mech, via_geometry=via_geometry), spec=spec, judge_values=True,
                       astep=astep, linear=linear, other_smas=[sma * 0.5])
        if s.total_points == s.actual_points and s.actual_points >= 30 and sma * (1.0 - spec['eps']) >= 2.5:
            ft = float(f(sma))
            r0 = float(ref.ellipse_polar_radius(sma, spec['eps'], s.values[0][0]))
            first_ok = abs(float(s.values[1][0]) - r0) <= 1e-12 * r0
            if mode != 'nearest_neighbor' and first_ok:
                # (nearest_neighbor picks whole pixels: no calibrated band for its mean on steep profiles;
                #  a first point off the path - stale cached radius, reported separately - spoils the mean)
                case.dev('sample_mean_rel_dev_' + mode, abs(s.mean / ft - 1))
                case.check(abs(s.mean / ft - 1) <= INT_REL, 'sample_mean_vs_law', mech, obs=s.mean, exp=ft,
                           sma=sma)
            if not linear:
                # (with linear growth the library measures the gradient at (1 + astep[px]) * sma, which may
                #  lie outside the frame: not judged here)
                case.check(s.gradient is not None and s.gradient < 0, 'gradient_negative', mech, grad=s.gradient)
            # second extraction is cached and identical
            v1 = s.extract()
            case.check(v1 is s.values, 'extract_cached', mech)
    case.check(_crc(img) == snap, 'image_unchanged', dict(op='EllipseSample'))
    case.digest = core.digest(dig)
    case.nontrivial = n >= 3


# ================================================================================================
# class: EllipseGeometry.to_polar / radius
# ================================================================================================
def _polar_case(case):
    from photutils.isophote import EllipseGeometry
    rng = case.rng
    intc = bool(rng.random() < 0.3)
    x0 = float(rng.integers(20, 80)) if intc else float(rng.uniform(20, 80))
    y0 = float(rng.integers(20, 80)) if intc else float(rng.uniform(20, 80))
    pa = float(rng.uniform(-math.pi, math.pi))
    r = rng.random()
    if r < 0.35:
        pa = float([0.0, math.pi / 2, -math.pi / 2, math.pi, math.pi / 4, -3 * math.pi / 4, 1e-9, -1e-9,
                    math.pi - 1e-9][int(rng.integers(0, 9))])
    eps = float(rng.uniform(0.0, 0.9))
    sma = float(rng.uniform(0.5, 60.0))
    g = EllipseGeometry(x0, y0, sma, eps, pa)
    case.params = dict(x0=x0, y0=y0, pa=pa, eps=round(eps, 4), sma=round(sma, 3), integer_centre=intc)
    mech = dict(op='to_polar', pa_negative=pa < 0)
    N = 2400
    xs = x0 + rng.uniform(-60, 60, N)
    ys = y0 + rng.uniform(-60, 60, N)
    k = N // 8
    xs[:k] = x0                                             # on the axis through the centre (x1 == 0)
    ys[k:2 * k] = y0                                        # (y1 == 0)
    xs[2 * k:3 * k] = np.round(xs[2 * k:3 * k])            # integer pixel coordinates
    ys[2 * k:3 * k] = np.round(ys[2 * k:3 * k])
    t = rng.uniform(-30, 30, k)                            # along the major / minor axis directions
    xs[3 * k:4 * k] = x0 + t * math.cos(pa)
    ys[3 * k:4 * k] = y0 + t * math.sin(pa)
    xs[4 * k:4 * k + 40] = x0 + rng.choice([-1, 1], 40) * 10.0 ** rng.uniform(-12, -3, 40)   # next to the centre
    ys[4 * k:4 * k + 40] = y0 + rng.choice([-1, 1], 40) * 10.0 ** rng.uniform(-12, -3, 40)
    xs[-1], ys[-1] = x0, y0                                 # the centre itself
    xs[-2], ys[-2] = x0, y0 - 3.0
    xs[-3], ys[-3] = x0 - 3.0, y0
    case.digest = core.arr_digest(xs, ys, np.array([x0, y0, pa, eps, sma]))

    rv, av = g.to_polar(xs, ys)
    rv1, av1 = np.ravel(rv), np.ravel(av)
    case.check(rv1.shape == (N,) and av1.shape == (N,), 'polar_vector_size', mech, shape=list(np.shape(rv)))
    # 2-D input (the form used for flux integration): same values, shape kept
    r2, a2 = g.to_polar(xs.reshape(40, 60), ys.reshape(40, 60))
    case.check(np.shape(r2) == (40, 60) and np.shape(a2) == (40, 60), 'polar_2d_shape', mech)
    case.close(np.ravel(r2), rv1, 'polar_2d_equals_1d', mech=dict(mech, out='radius'))
    case.close(np.ravel(a2), av1, 'polar_2d_equals_1d', mech=dict(mech, out='angle'))
    # scalar form, python floats (and python ints for the integer points)
    idx = np.concatenate([np.arange(0, N, 3), np.arange(2 * k, 3 * k), np.arange(4 * k, 4 * k + 40),
                          [N - 3, N - 2, N - 1]])
    rs = np.empty(len(idx))
    as_ = np.empty(len(idx))
    for j, i in enumerate(idx):
        xi, yi = float(xs[i]), float(ys[i])
        if 2 * k <= i < 3 * k and (i % 2):
            xi, yi = int(xi), int(yi)
        elif i % 5 == 0:
            xi, yi = np.float64(xi), np.float64(yi)
        rs[j], as_[j] = g.to_polar(xi, yi)
    dr = np.abs(rs - rv1[idx]) / np.maximum(np.abs(rv1[idx]), 1.0)
    da = ref.ang_diff(as_, av1[idx], ref.TWO_PI)
    case.dev('polar_scalar_vs_array_radius', float(dr.max()))
    case.dev('polar_scalar_vs_array_angle', float(da.max()))
    case.check(float(dr.max()) <= POLAR_TOL, 'polar_scalar_equals_array', dict(mech, out='radius'),
               dev=float(dr.max()))
    # both forms take asin(|y1|/r): next to the line x == x0 the argument is ~1 and one ulp of difference in
    # it (pow vs multiply) is amplified by r/|x1| (at most sqrt(2 ulp) ~ 2e-8): conditioned tolerance there
    x1 = np.abs(xs[idx] - x0)
    rr_ = np.hypot(xs[idx] - x0, ys[idx] - y0)
    with np.errstate(divide='ignore', invalid='ignore'):
        cond = np.where(x1 > 0, rr_ / x1, np.inf)
    tol_a = np.where(cond <= 1e3, POLAR_TOL, POLAR_TOL + np.minimum(1e-15 * cond, 3e-8))
    tol_a = np.where(rr_ > 0, tol_a, 0.0)
    w = int(np.argmax(da - tol_a))
    flat = cond <= 1e3
    if flat.any():
        case.dev('polar_scalar_vs_array_angle_wellconditioned', float(da[flat].max()))
    case.check(bool(np.all(da <= tol_a)), 'polar_scalar_equals_array', dict(mech, out='angle'),
               dev=float(da[w]), tol=float(tol_a[w]), x=float(xs[idx][w]), y=float(ys[idx][w]),
               scalar=float(as_[w]), array=float(av1[idx][w]))
    # ranges and reference
    case.check(bool(np.all((av1 >= 0) & (av1 <= ref.TWO_PI))) and bool(np.all((as_ >= 0) & (as_ <= ref.TWO_PI))),
               'polar_angle_range', mech, mn=float(av1.min()), mx=float(av1.max()))
    rr, aa = ref.to_polar_ref(xs, ys, x0, y0, pa)
    case.close(rv1, rr, 'polar_radius_vs_hypot', rtol=1e-14, atol=1e-300, mech=mech)
    nc = rr > 0
    d = ref.ang_diff(av1[nc], aa[nc], ref.TWO_PI)
    case.dev('polar_angle_vs_atan2', float(d.max()))
    w = int(np.argmax(d))
    case.check(float(d.max()) <= 1e-7, 'polar_angle_vs_atan2', mech, dev=float(d.max()), x=float(xs[nc][w]),
               y=float(ys[nc][w]), obs=float(av1[nc][w]), exp=float(aa[nc][w]))
    xb, yb = ref.from_polar_ref(rv1, av1, x0, y0, pa)
    derr = np.hypot(xb - xs, yb - ys) / (1.0 + rr)
    case.dev('polar_inverse_px', float(derr.max()))
    case.check(float(derr.max()) <= 1e-7, 'polar_inverse_relation', mech, dev=float(derr.max()))
    case.check(rv1[-1] == 0.0 and rs[-1] == 0.0 and as_[-1] == av1[-1], 'polar_centre', mech,
               r=[float(rv1[-1]), float(rs[-1])], a=[float(av1[-1]), float(as_[-1])])
    # radius(): polar equation of the ellipse
    phi = rng.uniform(0, ref.TWO_PI, 200)
    phi[:4] = [0.0, math.pi / 2, math.pi, 1.5 * math.pi]
    rad = g.radius(phi)
    case.close(rad, ref.ellipse_polar_radius(sma, eps, phi), 'radius_polar_equation', rtol=1e-13, mech=mech)
    xe, ye = ref.from_polar_ref(rad, phi, x0, y0, pa)
    case.close(ref.elliptical_radius(xe, ye, x0, y0, eps, pa), np.full(200, sma), 'radius_point_on_ellipse',
               rtol=1e-10, mech=mech)
    case.close(float(g.radius(0.0)), sma, 'radius_major_axis', rtol=1e-15, mech=mech)
    case.close(float(g.radius(math.pi / 2)), sma * (1 - eps), 'radius_minor_axis', rtol=1e-14, mech=mech)
    case.note('to_polar_points', N + len(idx))
    case.nontrivial = True


# ================================================================================================
# class: representation / magnitude independence of the cheap entry points
# ================================================================================================
def _iso_tuple(iso):
    return [float(v) if v is not None else float('nan') for v in
            (iso.x0, iso.y0, iso.eps, iso.pa, iso.intens, iso.grad, iso.stop_code, iso.niter, iso.ndata, iso.nflag)]


def _repr_case(case):
    from photutils.isophote import Ellipse, EllipseGeometry, EllipseSample
    rng = case.rng
    spec = gen.draw_truth(rng, 'repr', case.tier)
    # shallow profile in a square ~105 px frame: bright counts out to sma ~ 35 (integer dtypes), large sectors
    n_ = int(rng.integers(101, 116))
    spec.update(shape=[n_, n_], x0=float(n_ / 2 + rng.uniform(-6, 6)), y0=float(n_ / 2 + rng.uniform(-6, 6)),
                eps=float(rng.uniform(0.05, 0.6)), law_scale=1.0)
    if rng.random() < 0.5:
        spec.update(kind='gauss', n=None, scale=float(rng.uniform(0.30, 0.45) * n_))
    else:
        spec.update(kind='sersic', n=float(rng.uniform(0.7, 1.6)), scale=float(rng.uniform(0.30, 0.45) * n_))
    spec['amp'] = float(10.0 ** rng.uniform(0.0, 3.0))
    spec['background'] = float(rng.choice([0.0, spec['amp'] * rng.uniform(0.01, 0.3)]))
    kind = gen.REPRS_ALL[int(rng.integers(0, len(gen.REPRS_ALL)))]
    mag = [('pow2', float(2.0 ** int(rng.integers(-60, 41)))), ('decimal', float(10.0 ** rng.uniform(-20.0, 10.0)))][
        int(rng.integers(0, 2))]
    img0 = gen.image_of(spec)
    lib_img, img, sc = gen.apply_repr(img0, kind, spec, float(rng.uniform(0.5, 1.0)), far_radius=0.62 * n_)
    snap = _crc(lib_img)
    masked = kind.startswith('masked')
    exact = kind not in ('float32', 'float16')
    vtol = {'float32': 5e-6, 'float16': 4e-3}.get(kind, 0.0)       # a few ulp of the pixel dtype
    case.params = dict(shape=spec['shape'], x0=round(spec['x0'], 3), y0=round(spec['y0'], 3), eps=round(spec['eps'], 4),
                       pa_deg=round(math.degrees(spec['pa']), 4), law=spec['kind'], scale=round(spec['scale'], 2),
                       image_repr=kind, magnitude=list(mag), runs=[])
    case.note('axis_image_repr_' + kind, 1)
    case.note('axis2_dtype_' + kind, 1) if kind in gen.INT_PEAK or kind.startswith('float') else None
    case.note('axis_magnitude_' + mag[0], 1)
    dig = [core.arr_digest(img), kind, mag[1]]
    modes = ['bilinear', 'nearest_neighbor', 'mean', 'median']
    order = list(rng.permutation(4))
    ncmp = 0
    for t in range(4 if not masked else 3):
        mode = modes[int(order[t])]
        large = bool(t % 2)
        if masked and mode in ('mean', 'median'):
            large = False                       # (MaskedArray element access is slow)
        sma = float(rng.uniform(23.0, 0.33 * n_)) if large else float(rng.uniform(5.0, 10.0))
        astep = float(rng.choice([0.1, 0.1, 0.2]))
        init = gen.draw_init(rng, spec, sma0=sma)
        case.params['runs'].append(dict(mode=mode, sma=round(sma, 3), astep=astep,
                                        init={k: round(v, 4) for k, v in init.items()}))
        dig.append(core.digest([mode, sma, astep, init]))
        mech = dict(integrmode=mode, image_repr=kind, sma='large' if large else 'small')

        # A. EllipseSample at the true geometry: representation must not matter
        def sample_of(image):
            s_ = EllipseSample(image, sma, x0=spec['x0'], y0=spec['y0'], astep=astep, eps=spec['eps'],
                               position_angle=spec['pa'], integrmode=mode)
            s_.update()
            return s_
        ok, sv = _lib(case, dict(mech, op='EllipseSample.update'), sample_of, lib_img)
        sb = sample_of(img)
        if ok:
            ncmp += 1
            vv, vb = np.asarray(sv.values, float), np.asarray(sb.values, float)
            case.check(vv.shape == vb.shape and sv.total_points == sb.total_points
                       and sv.actual_points == sb.actual_points, 'repr_sample_points', mech,
                       obs=[list(vv.shape), sv.total_points, sv.actual_points],
                       exp=[list(vb.shape), sb.total_points, sb.actual_points])
            if vv.shape == vb.shape:
                case.close(vv[:2], vb[:2], 'repr_sample_path', mech=mech)
                if exact:
                    case.close(vv[2], vb[2], 'repr_sample_values', mech=mech)
                    case.close([sv.mean, sv.gradient, sv.gradient_error, sv.sector_area],
                               [sb.mean, sb.gradient, sb.gradient_error, sb.sector_area], 'repr_sample_stats',
                               mech=mech)
                else:
                    case.close(vv[2], vb[2], 'repr_sample_values', rtol=vtol, mech=mech)
                    case.close(sv.mean, sb.mean, 'repr_sample_stats', rtol=vtol, mech=mech)
                    case.dev(kind + '_gradient_rel_dev', abs(sv.gradient / sb.gradient - 1.0))
            # B. magnitude: a power of two scales every value exactly, a decimal factor to rounding
            if not masked and kind not in gen.INT_PEAK:
                ss = sample_of(img * mag[1])
                vs = np.asarray(ss.values, float)
                rt = 0.0 if mag[0] == 'pow2' else 1e-12
                okshape = vs.shape == vb.shape
                case.check(okshape, 'magnitude_sample_points', dict(mech, magnitude=mag[0]))
                if okshape:
                    case.close(vs[2], vb[2] * mag[1], 'magnitude_sample_values_scale', rtol=rt,
                               mech=dict(mech, magnitude=mag[0]))
                    case.close([ss.mean, ss.gradient], [sb.mean * mag[1], sb.gradient * mag[1]],
                               'magnitude_sample_stats_scale', rtol=rt if rt else 0.0,
                               mech=dict(mech, magnitude=mag[0]))
                    if sb.gradient_relative_error is not None and ss.gradient_relative_error is not None:
                        case.close(ss.gradient_relative_error, sb.gradient_relative_error,
                                   'magnitude_relative_error_invariant', rtol=1e-9, mech=dict(mech, magnitude=mag[0]))

        # C. fit_isophote from a perturbed start
        def fit_of(image):
            g_ = EllipseGeometry(init['x0'], init['y0'], init['sma'], init['eps'], init['pa'])
            return Ellipse(image, g_).fit_isophote(sma, step=astep, integrmode=mode)
        if masked and mode != 'bilinear' and large:
            continue
        if kind == 'float16':
            # float16 pixels: the whole sample arithmetic runs in half precision; the documentation promises
            # nothing for the fit -> outcome counted, not judged
            okh, ih = case.lib(fit_of, lib_img)
            case.note('float16_fit_' + ('returned' if okh else 'raised_' + type(ih).__name__), 1)
            continue
        ok, iv = _lib(case, dict(mech, op='fit_isophote'), fit_of, lib_img)
        ib = fit_of(img)
        if ok:
            ncmp += 1
            tv, tb = _iso_tuple(iv), _iso_tuple(ib)
            if exact:
                case.close(tv, tb, 'repr_fit_isophote', mech=mech, names='x0 y0 eps pa intens grad stop niter ndata nflag')
            else:
                # float32 pixels: float32 sample arithmetic; iteration counts may differ at the noise-free
                # convergence threshold -> geometry agrees to the fit accuracy only
                same_path = tv[6:8] == tb[6:8]
                case.note('float32_fit_same_iterations' if same_path else 'float32_fit_other_iterations', 1)
                if iv.stop_code == 0 and ib.stop_code == 0:
                    case.dev('float32_fit_centre_dev', max(abs(tv[0] - tb[0]), abs(tv[1] - tb[1])))
                    case.dev('float32_fit_eps_dev', abs(tv[2] - tb[2]))
                    case.dev('float32_fit_intens_rel_dev', abs(tv[4] / tb[4] - 1.0))
                    case.check(max(abs(tv[0] - tb[0]), abs(tv[1] - tb[1])) <= MAG_CEN and abs(tv[2] - tb[2]) <= MAG_EPS
                               and abs(tv[4] / tb[4] - 1.0) <= 1e-5, 'repr_fit_isophote', mech, obs=tv, exp=tb)
            # D. magnitude for the fit (floats only): geometry unchanged, intensity scales
            if not masked and kind not in gen.INT_PEAK and t < 2:
                im = fit_of(img * mag[1])
                tm = _iso_tuple(im)
                mm_ = dict(mech, magnitude=mag[0])
                big = False
                case.note('magnitude_fits_big_values' if float(np.max(img)) * mag[1] >= 1.0e7 else 'magnitude_fits', 1)
                if tm[6:8] == tb[6:8]:
                    case.note('magnitude_fit_same_iterations', 1)
                if im.stop_code == 0 and ib.stop_code == 0:
                  if not big:
                    case.dev('magnitude_fit_centre_dev', max(abs(tm[0] - tb[0]), abs(tm[1] - tb[1])))
                    case.dev('magnitude_fit_eps_dev', abs(tm[2] - tb[2]))
                    case.dev('magnitude_fit_pa_dev', float(ref.pa_diff(tm[3], tb[3])))
                    case.dev('magnitude_fit_intens_rel_dev', abs(tm[4] / (tb[4] * mag[1]) - 1.0))
                  case.check(max(abs(tm[0] - tb[0]), abs(tm[1] - tb[1])) <= MAG_CEN and abs(tm[2] - tb[2]) <= MAG_EPS
                               and abs(tm[4] / (tb[4] * mag[1]) - 1.0) <= MAG_INT, 'magnitude_fit_isophote', mm_,
                               obs=tm, exp=tb, factor=mag[1])
                else:
                    case.check(im.stop_code == ib.stop_code, 'magnitude_fit_stop_code', mm_, obs=im.stop_code,
                               exp=ib.stop_code, factor=mag[1])
    # A'. every case: all four integrmodes at a large sma on an integer-dtype copy holding bright counts
    #     (sample only: cheap), so that each run compares uint16/int16/int32 with float64 for the area modes
    ik = ['uint8', 'int8', 'uint16', 'int16', 'int32', 'uint32', 'int64', 'uint64'][int(rng.integers(0, 8))]
    lib2, mon2, _ = gen.apply_repr(img0, ik, spec, float(rng.uniform(0.6, 1.0)))
    snap2 = _crc(lib2)
    case.note('axis_image_repr_' + ik, 1)
    case.note('axis2_dtype_' + ik, 1)
    for mode in modes:
        sma = float(rng.uniform(23.0, 0.33 * n_))
        mech = dict(integrmode=mode, image_repr=ik, sma='large')

        def sample2(image):
            s_ = EllipseSample(image, sma, x0=spec['x0'], y0=spec['y0'], astep=0.1, eps=spec['eps'],
                               position_angle=spec['pa'], integrmode=mode)
            s_.update()
            return s_
        ok, sv = _lib(case, dict(mech, op='EllipseSample.update'), sample2, lib2)
        if ok:
            sb = sample2(mon2)
            vv, vb = np.asarray(sv.values, float), np.asarray(sb.values, float)
            case.check(vv.shape == vb.shape, 'repr_sample_points', mech, obs=list(vv.shape), exp=list(vb.shape))
            if vv.shape == vb.shape:
                case.close(vv, vb, 'repr_sample_values', mech=mech)
                case.close([sv.mean, sv.gradient, sv.gradient_error], [sb.mean, sb.gradient, sb.gradient_error],
                           'repr_sample_stats', mech=mech)
            ncmp += 1
    case.check(_crc(lib2) == snap2, 'image_unchanged', dict(op='repr', image_repr=ik))
    # E. masked pixels ON the path (bilinear): the surviving samples are a subset of the unmasked run
    if kind == 'masked_far':
        sma = float(rng.uniform(8.0, 20.0))
        sb = EllipseSample(img, sma, x0=spec['x0'], y0=spec['y0'], eps=spec['eps'], position_angle=spec['pa'])
        sb.update()
        xs, ys = ref.from_polar_ref(np.asarray(sb.values[1]), np.asarray(sb.values[0]), spec['x0'], spec['y0'], spec['pa'])
        mk = np.zeros(img.shape, bool)
        for q in rng.choice(len(xs), size=3, replace=False):
            mk[int(ys[q]), int(xs[q])] = True
        sm = EllipseSample(np.ma.MaskedArray(img.copy(), mask=mk), sma, x0=spec['x0'], y0=spec['y0'], eps=spec['eps'],
                           position_angle=spec['pa'])
        okm, _ = _lib(case, dict(op='EllipseSample.extract', image_repr='masked_on_path'), sm.extract)
        if okm:
            am, vm = np.asarray(sm.values[0], float), np.asarray(sm.values[2], float)
            ab, vb_ = np.asarray(sb.values[0], float), np.asarray(sb.values[2], float)
            idx = np.searchsorted(ab, am)
            idx = np.clip(idx, 0, len(ab) - 1)
            sub = bool(np.all(ab[idx] == am) and np.all(vb_[idx] == vm))
            case.check(sub and len(am) < len(ab) and sm.total_points == sb.total_points
                       and sm.actual_points == len(am), 'masked_samples_are_subset',
                       dict(image_repr='masked_on_path'), n_masked=len(am), n_plain=len(ab))
            # every dropped sample touches a masked pixel
            drop = np.setdiff1d(np.arange(len(ab)), idx)
            i0, j0 = xs[drop].astype(int), ys[drop].astype(int)
            touch = mk[j0, i0] | mk[j0 + 1, i0] | mk[j0, i0 + 1] | mk[j0 + 1, i0 + 1]
            case.check(bool(np.all(touch)), 'masked_only_touching_samples_dropped', dict(image_repr='masked_on_path'),
                       dropped=len(drop))
            ncmp += 1
    case.check(_crc(lib_img) == snap, 'image_unchanged', dict(op='repr', image_repr=kind))
    case.digest = core.digest(dig)
    case.note('repr_comparisons', ncmp)
    case.nontrivial = ncmp >= 4


# ================================================================================================
# class: degenerate / out-of-contract inputs (documented behaviour judged, silent behaviour counted)
# ================================================================================================
def _outcome(case, tag, fn, *a, **k):
    """Run library code on an input whose behaviour the documentation does not define: count the outcome."""
    ok, res = case.lib(fn, *a, **k)
    if not ok:
        if core.exc_location(res) is None and not isinstance(res, (ValueError, TypeError, IndexError)):
            raise res
        case.note(f'degenerate_{tag}_raised_{type(res).__name__}', 1)
        return None
    return res


def _basic_list_checks(case, isolist, mech):
    smas = np.array([iso.sma for iso in isolist], float)
    case.check(bool(np.all(np.diff(smas) > 0)), 'sma_strictly_increasing', mech, sma=smas)
    codes = [int(iso.stop_code) for iso in isolist]
    case.check(all(c in (0, 1, 2, 3, 4, 5) for c in codes), 'stop_code_documented', mech, codes=codes)


def _degenerate_case(case):
    import warnings as _w
    from astropy.utils.exceptions import AstropyUserWarning
    from photutils.isophote import Ellipse, EllipseGeometry, build_ellipse_model
    from photutils.isophote.isophote import IsophoteList
    rng = case.rng
    sub = ['constant', 'maxsma_lt_minsma', 'sma0_outside', 'centre_near_edge', 'all_masked', 'everything_fixed',
           'empty_model'][int(rng.integers(0, 7))]
    spec = gen.draw_truth(rng, 'degenerate', case.tier, small=True)
    spec['axes'] = dict(spec['axes'], plain=True)
    ny, nx = spec['shape']
    case.params = dict(sub=sub, shape=spec['shape'])
    case.note('degenerate_' + sub, 1)
    mech = dict(degenerate=sub)
    img = gen.image_of(spec)
    if sub == 'constant':
        c = float(rng.choice([0.0, 1.0, -3.5, 1.0e5]))
        img = np.full((ny, nx), c)
        case.params['value'] = c
    if sub == 'centre_near_edge':
        d = float(rng.uniform(3.0, 9.0))
        side = int(rng.integers(0, 4))
        spec['x0'], spec['y0'] = [(d, spec['y0']), (nx - 1 - d, spec['y0']), (spec['x0'], d),
                                  (spec['x0'], ny - 1 - d)][side]
        img = gen.image_of(spec)
        case.params.update(x0=spec['x0'], y0=spec['y0'])
    lib_img = img
    if sub == 'all_masked':
        lib_img = np.ma.MaskedArray(img.copy(), mask=np.ones(img.shape, bool))
    snap = _crc(lib_img)
    init = gen.draw_init(rng, spec)
    kw = dict(maxsma=float(rng.uniform(20.0, 30.0)), minsma=float(rng.choice([0.0, 2.0])))
    if sub == 'maxsma_lt_minsma':
        kw.update(minsma=float(init['sma'] * 1.2), maxsma=float(init['sma'] * 0.7))
    elif sub == 'sma0_outside':
        if rng.random() < 0.5:
            kw.update(minsma=float(init['sma'] * 1.5), maxsma=float(init['sma'] * 3.0))
        else:
            kw.update(minsma=1.0, maxsma=float(init['sma'] * 0.6))
    elif sub == 'everything_fixed':
        kw.update(fix_center=True, fix_pa=True, fix_eps=True)
    case.params.update(init={k: round(v, 3) for k, v in init.items()}, fit_kw=kw)
    case.digest = core.arr_digest(img, np.array(list(init.values()))) + core.digest([sub, kw])
    geom = EllipseGeometry(init['x0'], init['y0'], init['sma'], init['eps'], init['pa'])
    if sub == 'empty_model':
        # code raises ValueError('isolist must not be empty'); the docstring is silent: counted
        _outcome(case, sub, build_ellipse_model, (ny, nx), IsophoteList([]))
        case.check(True, 'degenerate_exercised', mech)
        case.nontrivial = True
        return
    with _w.catch_warnings(record=True) as wl:
        _w.simplefilter('always')
        if sub in ('centre_near_edge', 'everything_fixed'):
            ok, res = _lib(case, dict(mech, op='fit_image'), Ellipse(lib_img, geom).fit_image, **kw)
            res = res if ok else None
        else:
            res = _outcome(case, sub, Ellipse(lib_img, geom).fit_image, **kw)
    case.check(_crc(lib_img) == snap, 'image_unchanged', dict(mech, op='fit_image'))
    if res is not None:
        case.note(f'degenerate_{sub}_returned_{"empty" if len(res) == 0 else "list"}', 1)
        _basic_list_checks(case, res, mech)
        if sub == 'everything_fixed':
            # explicit in fit_image: warning "Everything is fixed. Fit not possible." and an empty list
            case.check(len(res) == 0 and any(issubclass(w.category, AstropyUserWarning) for w in wl),
                       'everything_fixed_empty_with_warning', mech, n=len(res))
        if sub == 'centre_near_edge' and len(res):
            smas = np.array([iso.sma for iso in res if iso.sma > 0])
            case.check(bool(np.all(smas <= kw['maxsma']) and np.all(smas >= kw['minsma'])), 'sma_within_bounds',
                       dict(mech, bound='both'), smas=smas)
            case.check(all(np.isfinite([iso.x0, iso.y0, iso.eps, iso.pa]).all() for iso in res),
                       'isolist_values_finite', mech)
    case.nontrivial = True


def run_case(case):
    if case.cls == 'polar':
        _polar_case(case)
    elif case.cls == 'repr':
        _repr_case(case)
    elif case.cls == 'degenerate':
        _degenerate_case(case)
    elif case.cls == 'sample':
        _sample_case(case)
    elif case.cls == 'single':
        _single_case(case)
    else:
        _fit_case(case)


# ================================================================================================
# driver leg: the 70 % usable-fit rule (needs all shards)
# ================================================================================================
def driver_legs(tier, seed, tmpdir, only=None):
    if only is not None:
        return [], {}
    fits = usable = empty = raised = 0
    for p in glob.glob(os.path.join(tmpdir, 'shard*.jsonl')):
        with open(p) as f:
            for line in f:
                try:
                    r = json.loads(line)
                except Exception:  # noqa: BLE001
                    continue
                if r.get('kind') != 'case' or r.get('cls') not in gen.FIT_CLASSES or r.get('error'):
                    continue
                fits += 1
                usable += 1 if r['notes'].get('usable_fit') else 0
                empty += 1 if (r['skipped'] or r['notes'].get('empty_isolist')) else 0
                raised += 1 if any(v['what'] == 'raised' for v in r['violations']) else 0
    frac = usable / fits if fits else 0.0
    info = {'coverage': {'fit_cases': fits, 'usable_fits': usable, 'empty_isolist': empty, 'raised': raised,
                         'usable_fraction': round(frac, 4), 'required_fraction': USABLE_MIN},
            'inconclusive': []}
    if fits and frac < USABLE_MIN:
        info['inconclusive'].append(f'usable fits {usable}/{fits} = {frac:.2f} < {USABLE_MIN}')
    return [], {'usable_fits': info}
