"""C18 Rendered model images are the exact superposition of their sources.

M1: the harness's own superposition loop (pv.ref.c18_render) vs make_model_image,
    PSFPhotometry / IterativePSFPhotometry .make_model_image / .make_residual_image and
    make_psf_model_image, compared at the API boundary.
M2: row-order invariance, additivity over table concatenation, removal / insertion of
    off-image rows, unit of the output, residual == data - model.
M4 (ride-along): the input model and table are unchanged.
"""
from __future__ import annotations

import numpy as np

from pv import core
from pv.ref import c18_render as R

ID = 'C18'
RULE = ('random images 5x5..60x60, one model per case (Gaussian2D, Moffat2D, CircularGaussianPRF, GaussianPRF, '
        'other photutils PSFs, ImagePSF, compound sums, unit-ful flux), 0-12 table rows with positions inside / on '
        'edges / corners / partially and fully outside, keyword or per-row model_shape (odd/even, scalar/pair) or '
        'bounding-box windows, local_bkg columns, params_map / x_name remapping with decoy columns, all four '
        'discretisation methods; plus small PSF-photometry scenes (PSFPhotometry, IterativePSFPhotometry, NDData, '
        'units, fixed positions with the first source outside the psf_shape window) and make_psf_model_image; '
        'non-trivial = at least two rows overlap the image, or one overlaps and at least one is skipped as '
        'off-image; distinct by digest of (table values, model parameters, keyword arguments)')
CLASSES = ['analytic', 'prf', 'imagepsf', 'compound', 'unitful', 'first_off', 'edges', 'shape_col',
           'local_bkg', 'remap', 'discretize', 'bbox', 'psfphot', 'iterphot', 'psfimage']
MUST_REACH = ['photutils.datasets.images:make_model_image',
              'photutils.datasets.images:_model_shape_from_bbox',
              'photutils.psf.photometry:ModelImageMixin.make_model_image',
              'photutils.psf.photometry:ModelImageMixin.make_residual_image',
              'photutils.psf.simulation:make_psf_model_image',
              'photutils.datasets.model_params:make_model_params']
ANCHOR_FILES = ['datasets/images.py', 'psf/photometry.py', 'psf/simulation.py', 'datasets/model_params.py',
                'utils/cutouts.py']
MIN_NONTRIVIAL = {'quick': 600, 'thorough': 12000}
ASSUMPTIONS = ['astropy.modeling (model.copy, parameter assignment, evaluation, bounding_box) is trusted',
               "astropy.nddata.utils.overlap_slices(mode='trim') called with tuple shapes is trusted",
               "astropy.convolution.discretize_model(mode='integrate') is trusted; 'interp' and 'oversample' are "
               're-implemented by the harness',
               'the PSF models themselves (value of model(x, y)) are judged by C13, the fits by C12: the photometry '
               'legs take the fitted parameters from the public results table as given',
               "discretize_method='integrate' with a unit-ful model is rejected inside astropy/scipy (quad needs "
               'floats); either that TypeError or the correct image is accepted and counted']

TOL = 1e-12     # summation-order rounding relative to sum |contributions| per pixel


def plan(tier):
    if tier == 'thorough':
        return dict(shards=16, cases=9000, timeout=2400, budget_s=700)
    return dict(shards=6, cases=400, timeout=600, budget_s=58)


def selftest():
    R.selftest()


# ----------------------------------------------------------------------
# model zoo
# ----------------------------------------------------------------------
def _kernel(rng, ny, nx):
    yy, xx = np.mgrid[0:ny, 0:nx]
    cy, cx = (ny - 1) / 2 + rng.uniform(-.3, .3), (nx - 1) / 2 + rng.uniform(-.3, .3)
    s = rng.uniform(1.0, 2.5)
    k = np.exp(-0.5 * ((xx - cx) ** 2 + (yy - cy) ** 2) / s ** 2) + 0.02 * rng.random((ny, nx))
    return k / k.sum()


def make_model(rng, kind):
    """-> (model, x_name, y_name, flux_name, {other param: (lo, hi)}, has_bbox)"""
    from astropy.modeling.models import Const2D, Gaussian2D, Moffat2D
    import photutils.psf as P
    if kind == 'gauss2d':
        m = Gaussian2D(amplitude=rng.uniform(1, 5), x_mean=1.0, y_mean=2.0, x_stddev=rng.uniform(.6, 2.5),
                       y_stddev=rng.uniform(.6, 2.5), theta=rng.uniform(0, np.pi))
        return m, 'x_mean', 'y_mean', 'amplitude', dict(x_stddev=(.5, 3), y_stddev=(.5, 3), theta=(0, 3.1)), True
    if kind == 'moffat2d':
        m = Moffat2D(amplitude=rng.uniform(1, 5), x_0=0, y_0=0, gamma=rng.uniform(1, 3), alpha=rng.uniform(1, 4))
        return m, 'x_0', 'y_0', 'amplitude', dict(gamma=(1, 3), alpha=(1, 4)), False
    if kind == 'cgprf':
        m = P.CircularGaussianPRF(flux=rng.uniform(1, 50), fwhm=rng.uniform(1.2, 4))
        return m, 'x_0', 'y_0', 'flux', dict(fwhm=(1.2, 4.5)), True
    if kind == 'gprf':
        m = P.GaussianPRF(flux=rng.uniform(1, 50), x_fwhm=rng.uniform(1.2, 4), y_fwhm=rng.uniform(1.2, 4),
                          theta=rng.uniform(0, 180))
        return m, 'x_0', 'y_0', 'flux', dict(x_fwhm=(1.2, 4.5), y_fwhm=(1.2, 4.5), theta=(0, 180)), True
    if kind == 'cgpsf':
        m = P.CircularGaussianPSF(flux=rng.uniform(1, 50), fwhm=rng.uniform(1.2, 4))
        return m, 'x_0', 'y_0', 'flux', dict(fwhm=(1.2, 4.5)), True
    if kind == 'gpsf':
        m = P.GaussianPSF(flux=rng.uniform(1, 50), x_fwhm=rng.uniform(1.2, 4), y_fwhm=rng.uniform(1.2, 4),
                          theta=rng.uniform(0, 180))
        return m, 'x_0', 'y_0', 'flux', dict(x_fwhm=(1.2, 4.5), y_fwhm=(1.2, 4.5), theta=(0, 180)), True
    if kind == 'moffatpsf':
        m = P.MoffatPSF(flux=rng.uniform(1, 50), alpha=rng.uniform(1, 3), beta=rng.uniform(1.5, 4))
        return m, 'x_0', 'y_0', 'flux', dict(alpha=(1, 3), beta=(1.5, 4)), True
    if kind == 'airy':
        m = P.AiryDiskPSF(flux=rng.uniform(1, 50), radius=rng.uniform(2, 5))
        return m, 'x_0', 'y_0', 'flux', dict(radius=(2, 5)), True
    if kind == 'imagepsf':
        ovs = int(rng.choice([1, 1, 2, 3]))
        if rng.random() < 0.35:          # axis (viii): unequal oversampling along y and x
            ovs = [(1, 2), (2, 1), (3, 2), (2, 4), (4, 2), (1, 3)][int(rng.integers(0, 6))]
        ny, nx = int(rng.integers(5, 16)), int(rng.integers(5, 16))
        m = P.ImagePSF(_kernel(rng, ny, nx), flux=rng.uniform(1, 50), oversampling=ovs)
        return m, 'x_0', 'y_0', 'flux', {}, True
    if kind == 'gridded':
        from astropy.nddata import NDData
        ovs = [(2, 2), (4, 2), (2, 4), (1, 3), (3, 1), (4, 4)][int(rng.integers(0, 6))]
        ny, nx = int(rng.integers(7, 26)), int(rng.integers(7, 26))
        npsf = int(rng.choice([1, 2, 4]))
        pos = [(0, 0), (40, 0), (0, 40), (40, 40)][:npsf] if npsf != 2 else [(0, 10), (40, 10)]
        data = np.array([_kernel(rng, ny, nx) for _ in range(npsf)])
        m = P.GriddedPSFModel(NDData(data, meta={'grid_xypos': pos, 'oversampling': ovs}),
                              flux=rng.uniform(1, 50))
        return m, 'x_0', 'y_0', 'flux', {}, True
    if kind == 'gauss+gauss':
        a = Gaussian2D(1.0, 0, 0, rng.uniform(.6, 2), rng.uniform(.6, 2), rng.uniform(0, 3))
        b = Gaussian2D(0.3, 0.5, -0.5, rng.uniform(2, 4), rng.uniform(2, 4), 0.0)
        return (a + b, 'x_mean_0', 'y_mean_0', 'amplitude_0',
                dict(x_stddev_0=(.5, 2.5), x_mean_1=None, y_mean_1=None, amplitude_1=(0.1, 2)), False)
    if kind == 'prf+const':
        a = P.CircularGaussianPRF(flux=rng.uniform(1, 50), fwhm=rng.uniform(1.2, 4))
        return (a + Const2D(rng.uniform(-1, 1)), 'x_0_0', 'y_0_0', 'flux_0',
                dict(fwhm_0=(1.2, 4), amplitude_1=(-1, 1)), False)
    raise ValueError(kind)


KINDS = {
    'analytic': ['gauss2d', 'moffat2d'],
    'prf': ['cgprf', 'gprf', 'cgpsf', 'gpsf', 'moffatpsf', 'airy'],
    'imagepsf': ['imagepsf', 'imagepsf', 'gridded'],
    'compound': ['gauss+gauss', 'prf+const'],
    'bbox': ['gauss2d', 'cgprf', 'gprf', 'imagepsf', 'cgpsf', 'gridded', 'gridded'],
}
ALLKINDS = ['gauss2d', 'moffat2d', 'cgprf', 'gprf', 'imagepsf', 'gauss+gauss', 'cgpsf', 'prf+const', 'gridded']


def _positions(rng, n, shape, cls, half):
    """n (x, y) positions; mixture of hostile placements."""
    ny, nx = shape
    xs, ys = np.empty(n), np.empty(n)
    for i in range(n):
        if cls == 'edges':
            mode = rng.choice(['edge', 'corner', 'half', 'partial', 'inside', 'touch0'],
                              p=[.25, .2, .2, .15, .15, .05])
        else:
            mode = rng.choice(['inside', 'edge', 'corner', 'half', 'partial', 'far', 'touch0'],
                              p=[.4, .12, .1, .1, .13, .13, .02])

        def edge(n_):
            return float(rng.choice([-0.5, 0.0, 0.5, n_ - 1.5, n_ - 1.0, n_ - 0.5, -1.0, float(n_)]))
        if mode == 'inside':
            x, y = rng.uniform(-0.5, nx - 0.5), rng.uniform(-0.5, ny - 0.5)
            if rng.random() < 0.3:
                x, y = float(np.round(x)), float(np.round(y))
        elif mode == 'edge':
            if rng.random() < 0.5:
                x, y = edge(nx), rng.uniform(-0.5, ny - 0.5)
            else:
                x, y = rng.uniform(-0.5, nx - 0.5), edge(ny)
        elif mode == 'corner':
            x, y = edge(nx), edge(ny)
        elif mode == 'half':
            x, y = float(rng.integers(-2, nx + 2)) + 0.5, float(rng.integers(-2, ny + 2)) + 0.5
        elif mode == 'partial':
            # centre outside, window may still reach in
            x = rng.choice([-1, 1]) * rng.uniform(0, half + 1.5)
            x = x if x < 0 else nx - 1 + x
            y = rng.uniform(-half - 1, ny + half)
        elif mode == 'touch0':
            # window ending at or next to pixel 0 along x or y
            d = float(rng.choice([half, half + 0.5, half + 1, half - 0.5])) + float(rng.choice([0, 0.1, -0.1, 0.4]))
            if rng.random() < 0.5:
                x, y = -d, rng.uniform(-0.5, ny - 0.5)
            else:
                x, y = rng.uniform(-0.5, nx - 0.5), -d
        else:  # far
            x = rng.choice([-1, 1]) * rng.uniform(half + 40, 500)
            y = rng.uniform(-100, ny + 100)
            if rng.random() < 0.5:
                x, y = y, x
        xs[i], ys[i] = x, y
    return xs, ys


def _snap_table(t):
    out = [tuple(t.colnames), repr(dict(t.meta)), type(t).__name__]
    for name in t.colnames:
        c = t[name]
        unit = getattr(c, 'unit', None)
        v = np.asarray(c.value) if hasattr(c, 'value') else np.asarray(c)
        out.append((name, str(v.dtype), v.shape, v.tobytes(), None if unit is None else str(unit)))
    return out


def _snap_model(m):
    out = [type(m).__name__, tuple(m.param_names), np.asarray(m.parameters).tobytes()]
    for name in m.param_names:
        p = getattr(m, name)
        out.append((name, bool(p.fixed), tuple(p.bounds), None if p.unit is None else str(p.unit)))
    leaves = [m]
    if hasattr(m, '_leaflist'):
        leaves = list(m._leaflist)
    for leaf in leaves:
        d = getattr(leaf, 'data', None)
        if isinstance(d, np.ndarray):
            out.append(('data', d.shape, d.tobytes()))
    return out


def _val_unit(img):
    if hasattr(img, 'unit') and hasattr(img, 'value'):
        return np.asarray(img.value), img.unit
    return np.asarray(img), None


def _touch0(rows_geom):
    """rows_geom: list of (y0, x0, (ny, nx) or None).  True when astropy's overlap test reaches the
    `e_max == 0` branch for some row: on the first axis (y then x) whose window ends at or before pixel 0
    the end is exactly 0."""
    for y0, x0, ms in rows_geom:
        if ms is None:
            continue
        for pos, size in ((y0, ms[0]), (x0, ms[1])):
            emax = int(np.ceil(pos - size / 2.0)) + int(size)
            if emax < 0:
                break
            if emax == 0:
                return True
    return False


def compare(case, obs, ref, what, mech, unit_rule='model', tol=TOL):
    """obs (library image) vs reference dict / (values, unit, scale)."""
    ov, ou = _val_unit(obs)
    ev, eu, sc = ref['values'], ref['unit'], ref['scale']
    if not case.check(ov.shape == ev.shape, what + '_shape', mech, obs=list(ov.shape), exp=list(ev.shape)):
        return False
    nover = int(np.sum(ref['overlap'])) if 'overlap' in ref else 1
    if nover == 0:
        # no row was rendered: the model's unit was never observed by the library; both a unit-less
        # zero image and a zero image in the model's unit are accepted
        case.note('no_row_overlaps_unit_' + ('present' if ou is not None else 'absent'))
    else:
        case.check((ou is None and eu is None) or (ou is not None and eu is not None and ou == eu),
                   what + '_unit', mech, obs=str(ou), exp=str(eu))
    diff = np.abs(ov.astype(float) - ev)
    with np.errstate(all='ignore'):
        bad = ~(diff <= tol * sc)
        rel = np.where(sc > 0, diff / np.where(sc > 0, sc, 1.0), np.where(diff > 0, np.inf, 0.0))
    dev = float(rel.max()) if rel.size else 0.0
    case.dev(what, dev)
    ok = not bad.any()
    det = {}
    if not ok:
        j = np.unravel_index(int(np.argmax(np.where(bad, diff, -1))), diff.shape)
        det = dict(nbad=int(bad.sum()), at=[int(j[0]), int(j[1])], obs=float(ov[j]), exp=float(ev[j]),
                   scale=float(sc[j]), dev=dev)
    return case.check(ok, what, mech, **det)


def _agree(obs, ref, tol=TOL):
    """same rule as compare(), without recording anything."""
    ov, ou = _val_unit(obs)
    if ov.shape != ref['values'].shape:
        return False
    if int(np.sum(ref['overlap'])) and not ((ou is None and ref['unit'] is None) or
                                            (ou is not None and ref['unit'] is not None and ou == ref['unit'])):
        return False
    with np.errstate(all='ignore'):
        return bool(np.all(np.abs(ov.astype(float) - ref['values']) <= tol * ref['scale']))


def lib_bbox_shape(model):
    """the window the expression ceil(high - low) gives in floating point for the model's own bounding box."""
    (ylo, yhi), (xlo, xhi) = model.bounding_box.bounding_box()
    return int(np.ceil(yhi - ylo)), int(np.ceil(xhi - xlo))


def tie_shapes(model, rows, x_name, y_name):
    """For image-based models whose footprint is a whole number of pixels: per row, the (ny, nx) window that
    ceil((c + h) - (c - h)) yields when floating-point rounding pushes the difference above the exact extent 2h
    (one pixel larger than the footprint), else None."""
    foot = R.image_model_footprint(model)
    out = [None] * len(rows)
    if foot is None:
        return out
    exact = (int(np.ceil(foot[0])), int(np.ceil(foot[1])))
    if abs(foot[0] - round(foot[0])) > 1e-9 and abs(foot[1] - round(foot[1])) > 1e-9:
        return out
    for i, r in enumerate(rows):
        if r.get('model_shape') is not None:
            continue
        m = model.copy()
        setattr(m, x_name, r['params'][x_name])
        setattr(m, y_name, r['params'][y_name])
        ls = lib_bbox_shape(m)
        if ls != exact and 0 <= ls[0] - exact[0] <= 1 and 0 <= ls[1] - exact[1] <= 1:
            ok_y = ls[0] == exact[0] or abs(foot[0] - round(foot[0])) <= 1e-9
            ok_x = ls[1] == exact[1] or abs(foot[1] - round(foot[1])) <= 1e-9
            if ok_y and ok_x:
                out[i] = ls
    return out


def compare_tie(case, obs, ref, what, mech, alt_fn=None):
    """compare(); when the strict comparison fails and `alt_fn` supplies the superposition with the rounding-enlarged
    bounding-box windows, a library image equal to *that* is recorded under the mechanism key
    bbox_ceil_rounding_tie=True (a separate, narrowly keyed finding), anything else stays an unkeyed violation."""
    m0 = dict(mech, bbox_ceil_rounding_tie=False)
    if alt_fn is None or _agree(obs, ref):
        return compare(case, obs, ref, what, m0)
    alt = alt_fn()
    if alt is not None and _agree(obs, alt):
        case.note('bbox_ceil_rounding_tie_observed')
        return case.check(False, what, dict(mech, bbox_ceil_rounding_tie=True),
                          note='image equals the superposition with bounding-box windows one pixel larger than the '
                               'footprint (ceil of a rounded floating-point difference)')
    return compare(case, obs, ref, what, m0)


class LibRaised(Exception):
    pass


def lib_call(case, fn, mech, **flags):
    """Call library code; an exception is recorded as a 'raised' violation whose mechanism carries the
    structural flags of *this* call (first row off-image, unit-ful, window ending at pixel 0, ...)."""
    try:
        return fn()
    except (core.Skip, LibRaised):
        raise
    except Exception as exc:  # noqa: BLE001
        loc = core.exc_location(exc)
        if loc is None:
            raise
        m = dict(mech)
        m.update(core.exc_mech(exc))
        m.update(flags)
        case.check(False, 'raised', m, msg=str(exc)[:300])
        raise LibRaised from exc


# ----------------------------------------------------------------------
# make_model_image cases
# ----------------------------------------------------------------------
def draw_magnitude(ax, p_plain=0.5):
    """GENERIC AXIS (i): overall scale of every value-like input.  About half of the cases stay at 1."""
    if ax.random() < p_plain:
        return 1.0
    if ax.random() < 0.5:
        return float(2.0 ** int(ax.integers(-60, 41)))
    return float(10.0 ** int(ax.integers(-20, 11)))


def _gen_mmi(case):
    import astropy.units as u
    from astropy.table import QTable, Table
    rng, cls = case.rng, case.cls
    kind = str(rng.choice(KINDS.get(cls, ALLKINDS)))
    model, x_name, y_name, flux_name, others, has_bbox = make_model(rng, kind)
    big = rng.random() < 0.15
    shape = (int(rng.integers(5, 61 if big else 26)), int(rng.integers(5, 61 if big else 26)))
    # generic axes are drawn from their own stream (seeded from the case rng) independently of the class
    ax = np.random.default_rng(int(rng.integers(0, 2 ** 62)))
    axes = {}
    mag = draw_magnitude(ax, 0.62)
    if mag != 1.0:
        axes['magnitude_not_1'] = 1
        if mag <= 1e-9:
            axes['magnitude_below_1e-9'] = 1
        if mag >= 1e6:
            axes['magnitude_above_1e6'] = 1
    if ax.random() < 0.08:          # axis (iv): strongly elongated / 1xN / Nx1 images
        a, b = int(ax.choice([1, 1, 2, 3])), int(ax.integers(5, 61))
        shape = (a, b) if ax.random() < 0.5 else (b, a)
        axes['shape_elongated'] = 1
    n = int(rng.choice([0, 1, 2, 3, 4, 5, 6, 8, 12], p=[.04, .1, .16, .2, .15, .12, .1, .08, .05]))

    # discretisation
    method = 'center'
    if cls == 'discretize':
        method = str(rng.choice(['center', 'interp', 'oversample', 'integrate'], p=[.08, .4, .4, .12]))
    elif rng.random() < 0.12:
        method = str(rng.choice(['interp', 'oversample']))
    if method == 'integrate' and kind in ('imagepsf', 'airy', 'moffatpsf', 'gridded'):
        method = 'oversample'
    oversample = int(rng.choice([1, 2, 3, 5, 10]))
    if method == 'integrate':
        n = min(n, 2)

    unitful = cls == 'unitful' or (cls in ('first_off', 'local_bkg', 'remap', 'edges', 'discretize') and rng.random() < 0.3)
    unit = [u.Jy, u.electron / u.s, u.adu, u.mJy][int(rng.integers(0, 4))] if unitful else None
    default_unitful = False
    if unitful and rng.random() < 0.2 and kind not in ('gauss+gauss', 'prf+const'):
        # the model itself carries the unit (flux not in the table)
        setattr(model, flux_name, getattr(model, flux_name).value * unit)
        default_unitful = True

    amp_params = [flux_name] + (['amplitude_1'] if kind in ('gauss+gauss', 'prf+const') else [])
    if mag != 1.0:
        for pn in amp_params:
            par = getattr(model, pn)
            setattr(model, pn, par.value * mag * (par.unit if par.unit is not None else 1))

    # window specification
    wmode = rng.choice(['kw_scalar', 'kw_pair', 'col1d', 'col2d', 'bbox'], p=[.3, .2, .15, .15, .2])
    if cls == 'shape_col':
        wmode = rng.choice(['col1d', 'col2d'])
    if cls == 'bbox':
        wmode = 'bbox'
    if wmode == 'bbox' and not has_bbox:
        wmode = 'kw_scalar'
    if method == 'integrate':
        wmode = rng.choice(['kw_scalar', 'kw_pair'])
    smax = 3 if method == 'integrate' else (8 if method == 'oversample' else 14)
    kw_shape, col_shape, bbox_factor = None, None, None
    if wmode == 'kw_scalar':
        kw_shape = int(rng.integers(1, smax))
    elif wmode == 'kw_pair':
        kw_shape = (int(rng.integers(1, smax)), int(rng.integers(1, smax)))
    elif wmode == 'col1d':
        col_shape = rng.integers(1, smax, size=n)
        if rng.random() < 0.3:
            kw_shape = int(rng.integers(1, smax))       # documented: ignored when the column exists
    elif wmode == 'col2d':
        col_shape = rng.integers(1, smax, size=(n, 2))
    else:
        if kind == 'gauss2d' and rng.random() < 0.6:
            bbox_factor = float(rng.choice([1.0, 2.0, 3.5, 5.5]))
        elif rng.random() < 0.2:
            bbox_factor = 2.0                            # documented: ignored by models without `factor`
    half = 0.5 * (np.max(kw_shape) if kw_shape is not None and col_shape is None
                  else (np.max(col_shape) if col_shape is not None and n else 7))

    xs, ys = _positions(rng, n, shape, cls, half)
    if cls == 'first_off' and n:
        # first row (and sometimes the first few) far outside; at least one row inside when n > 1
        k = int(rng.integers(1, max(2, n)))
        for i in range(min(k, n)):
            xs[i] = -rng.uniform(100, 400) if rng.random() < 0.5 else shape[1] + rng.uniform(100, 400)
        if n > k:
            xs[k], ys[k] = rng.uniform(0, shape[1] - 1), rng.uniform(0, shape[0] - 1)
    int_pos = cls == 'edges' and rng.random() < 0.25
    if int_pos:
        xs, ys = np.round(xs), np.round(ys)

    # ---- second list of generic axes -------------------------------------------------------------------
    def row_shape(i):
        if col_shape is not None:
            return (int(col_shape[i]),) * 2 if col_shape.ndim == 1 else (int(col_shape[i, 0]), int(col_shape[i, 1]))
        if kw_shape is not None:
            return (kw_shape, kw_shape) if np.isscalar(kw_shape) else tuple(kw_shape)
        return None
    if n and ax.random() < 0.15:
        # (ix) exact k / k + 0.5 of both parities (the window size parity comes from the even/odd model_shape draw)
        for i in range(n):
            if ax.random() < 0.7:
                xs[i] = float(ax.integers(-1, shape[1] + 1)) + float(ax.choice([0.0, 0.5]))
                ys[i] = float(ax.integers(-1, shape[0] + 1)) + float(ax.choice([0.0, 0.5]))
        axes['2_parity_exact_k_and_half'] = 1
        int_pos = False
    if n and ax.random() < 0.15 and row_shape(0) is not None:
        # (ix)/(viii) the window overlaps the image by exactly its last column / row, at each of the four edges:
        # ceil(pos - s/2) == n - 1 (right / top) or ceil(pos - s/2) + s == 1 (left / bottom)
        for i in range(n):
            if ax.random() < 0.6:
                sy, sx = row_shape(i)
                edge = str(ax.choice(['left', 'right', 'bottom', 'top']))
                jitter = float(ax.choice([0.0, 0.0, -0.25, -0.5]))
                if edge == 'right':
                    xs[i] = shape[1] - 1 + sx / 2.0 + jitter
                elif edge == 'left':
                    xs[i] = 1 - sx / 2.0 + jitter
                elif edge == 'top':
                    ys[i] = shape[0] - 1 + sy / 2.0 + jitter
                else:
                    ys[i] = 1 - sy / 2.0 + jitter
                if edge in ('left', 'right'):
                    ys[i] = float(ax.uniform(0, shape[0] - 1))
                else:
                    xs[i] = float(ax.uniform(0, shape[1] - 1))
                axes['2_window_on_last_pixel_' + edge] = 1
                int_pos = False

    # parameter values per row
    pvals = {x_name: xs, y_name: ys}
    if not default_unitful and (rng.random() < 0.9 or unitful):
        f = rng.uniform(0.5, 100, n)
        if rng.random() < 0.15:
            f = f * rng.choice([-1, 1], n)
        pvals[flux_name] = f
    for p, rngs in others.items():
        if rng.random() < 0.5:
            if rngs is None:      # secondary component position follows the primary one
                base = xs if p.startswith('x') else ys
                pvals[p] = base + rng.uniform(-1.5, 1.5, n)
            else:
                pvals[p] = rng.uniform(rngs[0], rngs[1], n)
    if kind == 'gauss+gauss':
        for p, base in (('x_mean_1', xs), ('y_mean_1', ys)):
            if p not in pvals:
                pvals[p] = base + rng.uniform(-1.5, 1.5, n)

    # parameters that carry the flux unit (every additive component of a compound model)
    unit_params = {flux_name}
    if kind in ('gauss+gauss', 'prf+const'):
        unit_params.add('amplitude_1')
        if unit is not None and 'amplitude_1' not in pvals:
            pvals['amplitude_1'] = rng.uniform(0.1, 2, n)
    if unit is None or default_unitful:
        unit_params = set()

    bkg = None
    if cls == 'local_bkg' or rng.random() < 0.25:
        bkg = rng.uniform(-2, 5, n)
        if rng.random() < 0.3 and n:
            bkg[rng.random(n) < 0.5] = 0.0
        if ax.random() < 0.08:
            bkg[:] = 0.0                      # axis (vi): an all-zero local_bkg column
            axes['degenerate_all_zero_local_bkg'] = 1
        elif ax.random() < 0.25:
            bkg = bkg * float(10.0 ** int(ax.integers(-12, 1)))     # background much fainter than the sources
            axes['local_bkg_much_fainter_than_flux'] = 1
    # axis (i): one overall magnitude for fluxes, amplitudes and backgrounds
    for pn in amp_params:
        if pn in pvals:
            pvals[pn] = pvals[pn] * mag
    if bkg is not None:
        bkg = bkg * mag
    # axis (iii): dtype / byte order of the value columns (values are first rounded to the representation so
    # that the reference sees exactly the numbers the table holds)
    col_dtype = {}
    if ax.random() < 0.08 and mag >= 1.0:
        # (vii) integer / float16 flux columns: values rounded to what the dtype holds
        for pn in amp_params:
            if pn in pvals and n:
                kind_ = str(ax.choice(['i8', 'i4', 'u2', 'f2']))
                with np.errstate(all='ignore'):
                    v_ = np.round(pvals[pn]) if kind_ != 'f2' else pvals[pn]
                    if kind_ == 'u2':
                        v_ = np.abs(v_)
                    cast = v_.astype(kind_)
                if np.all(np.isfinite(cast.astype(float))) and np.array_equal(cast.astype(float), v_.astype(kind_).astype(float)) \
                        and float(np.max(np.abs(v_))) < {'i8': 2.0 ** 62, 'i4': 2.0 ** 31 - 1, 'u2': 65535.0, 'f2': 60000.0}[kind_]:
                    pvals[pn] = cast.astype(float)
                    col_dtype[pn] = kind_
                    axes['2_dtype_flux_column_' + kind_] = 1
    layout_case = ax.random() < 0.12
    for pn in list(pvals):
        r_ = ax.random() if layout_case else 1.0
        if pn in col_dtype:
            continue
        if r_ < 0.3 and pn not in (x_name, y_name):
            with np.errstate(all='ignore'):
                v32 = pvals[pn].astype('f4')
            if np.all(np.isfinite(v32)) and np.all((v32 != 0) | (pvals[pn] == 0)):
                pvals[pn] = v32.astype(float)
                col_dtype[pn] = 'f4'
                axes['layout_float32_column'] = 1
        elif r_ < 0.6:
            col_dtype[pn] = '>f8'
            axes['layout_bigendian_column'] = 1
    bkg_unit = unit
    if bkg is not None and unit is not None and ax.random() < 0.2 and unit in (u.Jy, u.mJy):
        # axis (ii): local_bkg in an equivalent, non-identical unit (documentation: 'must have the same flux units';
        # the correct converted image or the documented ValueError are both accepted)
        bkg_unit = u.mJy if unit == u.Jy else u.Jy
        axes['callform_local_bkg_equivalent_unit'] = 1

    # ---- build the table (column naming independent of the reference rows)
    remap = cls == 'remap' or rng.random() < 0.15
    tcls = QTable if (unitful or rng.random() < 0.5) else Table
    t = tcls()
    pmap = {}
    if rng.random() < 0.5:
        t['id'] = np.arange(n) + 1
    order = list(pvals)
    if rng.random() < 0.5:
        order = [order[i] for i in rng.permutation(len(order))]
    ndecoy = 0
    for p in order:
        v = pvals[p]
        col = v
        if p in col_dtype:
            col = v.astype(col_dtype[p])
        if int_pos and p in (x_name, y_name):
            col = v.astype(int)
        if p in unit_params:
            col = col * unit
        how = 'own'
        if remap:
            how = str(rng.choice(['own', 'alias', 'alias+decoy']))
        if how == 'own':
            t[p] = col
        else:
            alias = {'alias': 'col_' + p, 'alias+decoy': p + '_b'}[how]
            t[alias] = col
            pmap[p] = alias
            if how == 'alias+decoy':
                # a column with the parameter's own name holding other (valid) values: params_map wins
                dec = np.array(v, dtype=float)[::-1].copy() if n > 1 else np.array(v, dtype=float) * 0.5 + 0.25
                if p in unit_params:
                    dec = dec * unit
                t[p] = dec
                ndecoy += 1
    if rng.random() < 0.3:
        t['junk'] = rng.random(n)
    if col_shape is not None:
        t['model_shape'] = col_shape
    if bkg is not None:
        if unit is not None:
            t['local_bkg'] = (bkg * unit).to(bkg_unit) if bkg_unit != unit else bkg * unit
            if bkg_unit != unit:
                bkg = t['local_bkg'].value.copy()       # the numbers the table holds, in bkg_unit
        else:
            t['local_bkg'] = bkg
    if rng.random() < 0.3:
        t.meta['note'] = 'c18'
    if n and ax.random() < 0.1:
        # (x) provenance: the table handed in is a slice of a larger table; the model was copied and evaluated before
        from astropy.table import vstack as _vstack
        pad = t[[0]].copy()
        big_t = _vstack([pad, t, pad])
        if ax.random() < 0.5:
            t = big_t[1:-1]
        else:
            mask_rows = np.zeros(len(big_t), bool)
            mask_rows[1:-1] = True
            t = big_t[mask_rows]
        t.meta.update(big_t.meta)
        model = model.copy()
        model(np.array([1.0, 2.5]), np.array([0.5, 3.0]))
        axes['2_provenance_sliced_table_used_model'] = 1

    rows = []
    for i in range(n):
        params = {}
        for p, v in pvals.items():
            val = float(v[i])
            if p in unit_params:
                val = val * unit
            params[p] = val
        if col_shape is not None:
            ms = (int(col_shape[i]),) * 2 if col_shape.ndim == 1 else (int(col_shape[i, 0]), int(col_shape[i, 1]))
        elif kw_shape is not None:
            ms = (kw_shape, kw_shape) if np.isscalar(kw_shape) else tuple(kw_shape)
        else:
            ms = None
        b = 0.0 if bkg is None else (float(bkg[i]) * bkg_unit if unit is not None else float(bkg[i]))
        rows.append(dict(params=params, model_shape=ms, local_bkg=b))

    kw = dict(x_name=x_name, y_name=y_name, discretize_method=method)
    if method == 'oversample' or rng.random() < 0.2:
        kw['discretize_oversample'] = oversample
    else:
        oversample = 10
    if kw_shape is not None:
        kw['model_shape'] = kw_shape
    if bbox_factor is not None:
        kw['bbox_factor'] = bbox_factor
    # axis (ii): equivalent call forms of the arguments (all accepted by the unchanged library)
    if ax.random() < 0.14:
        if 'model_shape' in kw:
            if np.isscalar(kw_shape):
                kw['model_shape'] = [np.int64(kw_shape), np.array(kw_shape), np.int32(kw_shape)][int(ax.integers(0, 3))]
            else:
                kw['model_shape'] = [list(kw_shape), np.array(kw_shape), (np.int32(kw_shape[0]), np.int64(kw_shape[1]))][
                    int(ax.integers(0, 3))]
            axes['callform_model_shape'] = 1
        if 'discretize_oversample' in kw and ax.random() < 0.5:
            kw['discretize_oversample'] = [np.int64(oversample), float(oversample)][int(ax.integers(0, 2))]
            axes['callform_oversample'] = 1
        if bbox_factor is not None and float(bbox_factor).is_integer() and ax.random() < 0.5:
            kw['bbox_factor'] = int(bbox_factor)
            axes['callform_bbox_factor_int'] = 1
        if ax.random() < 0.5:
            shape = (np.int64(shape[0]), np.int32(shape[1]))
            axes['callform_shape_numpy_ints'] = 1
    if pmap:
        kw['params_map'] = pmap
    info = dict(kind=kind, shape=shape, n=n, method=method, oversample=oversample, unit=unit,
                wmode=str(wmode), bbox_factor=bbox_factor, remap=bool(pmap), ndecoy=ndecoy,
                default_unitful=default_unitful, table=tcls.__name__, bkg=bkg is not None, mag=mag, axes=axes,
                bkg_unit_differs=bool(unit is not None and bkg is not None and bkg_unit != unit))
    return model, t, rows, kw, info


def _pv(v):
    return v.value if hasattr(v, 'value') else v


def _mmi(case):
    from astropy.table import vstack
    from photutils.datasets import make_model_image
    rng = case.rng
    model, t, rows, kw, info = _gen_mmi(case)
    shape, x_name, y_name = info['shape'], kw['x_name'], kw['y_name']
    method, unit = info['method'], info['unit']
    if method == 'integrate' and unit is not None:
        # scipy's quad cannot integrate a Quantity-valued model: the reference integrates the same model
        # with the unit stripped and attaches the unit afterwards
        model_ref = model.copy()
        for pn in model_ref.param_names:
            par = getattr(model_ref, pn)
            if par.unit is not None:
                par._unit = None
        rows_ref = [dict(params={k: _pv(v) for k, v in r['params'].items()}, model_shape=r['model_shape'],
                         local_bkg=(r['local_bkg'].to_value(unit) if hasattr(r['local_bkg'], 'unit')
                                    else r['local_bkg'])) for r in rows]
        ref = R.render(shape, model_ref, rows_ref, x_name, y_name, method=method)
        if ref['overlap'].any():
            ref['unit'] = unit
    else:
        ref = R.render(shape, model, rows, x_name, y_name, method=method, oversample=info['oversample'],
                       bbox_factor=info['bbox_factor'])
    overlap = ref['overlap']
    nover = int(overlap.sum())
    case.params = dict(kind=info['kind'], shape=list(shape), nrows=info['n'], n_overlap=nover,
                       method=method, window=info['wmode'], unit=str(unit), remap=info['remap'],
                       decoys=info['ndecoy'], local_bkg=info['bkg'], table=info['table'],
                       bbox_factor=info['bbox_factor'])
    case.digest = core.arr_digest(*[np.asarray(_pv(t[c])) for c in t.colnames],
                                  np.asarray(model.parameters)) + core.digest([case.params, sorted(kw.items(), key=str)])
    case.nontrivial = nover >= 2 or (nover >= 1 and nover < info['n'])
    case.params['magnitude'] = info['mag']
    case.params['axes'] = sorted(info['axes'])
    for k_ in info['axes']:
        case.note('axis_' + k_)
    if not info['axes']:
        case.note('axis_none_plain_case')
    array_shape = info['wmode'] != 'bbox'     # keyword / column shapes reach overlap_slices as ndarrays
    geom = [(float(_pv(r['params'][y_name])), float(_pv(r['params'][x_name])), r['model_shape']) for r in rows]

    def flags(idx):
        idx = list(idx)
        ov = overlap[idx] if len(idx) else np.zeros(0, bool)
        return dict(first_row_off_image=bool(len(idx) > 0 and not ov[0]),
                    unitful=unit is not None,
                    window_ends_at_0=bool(array_shape and _touch0([geom[i] for i in idx])),
                    shape_is_array=bool(array_shape))

    mech = dict(cls=case.cls, entry='make_model_image', model=info['kind'], method=method,
                window=info['wmode'])
    snap_t, snap_m = _snap_table(t), _snap_model(model)

    def call(table, idx, fl=None):
        fl = flags(idx) if fl is None else fl

        def f():
            try:
                return make_model_image(shape, model, table, **kw)
            except ValueError as exc:
                if info['bkg_unit_differs'] and 'local_bkg column must have the same' in str(exc):
                    case.note('equivalent_unit_local_bkg_rejected_as_documented')
                    raise LibRaised from exc
                raise
            except TypeError as exc:
                if method == 'integrate' and unit is not None:
                    import traceback
                    last = traceback.extract_tb(exc.__traceback__)[-1].filename
                    if '/astropy/' in last or '/scipy/' in last:
                        case.note('integrate_unitful_rejected_by_astropy')
                        raise LibRaised from exc
                raise
        return lib_call(case, f, mech, **fl)

    def sub(idx):
        """reference for a subset / permutation of the rows (same arithmetic, own loop)."""
        if method == 'integrate':
            raise AssertionError('not used for integrate')
        return R.render(shape, model, [rows[i] for i in idx], x_name, y_name, method=method,
                        oversample=info['oversample'], bbox_factor=info['bbox_factor'])

    allidx = list(range(info['n']))
    ties = tie_shapes(model, rows, x_name, y_name) if (info['wmode'] == 'bbox' and method != 'integrate') \
        else [None] * info['n']

    def alt_for(idx):
        """superposition with the rounding-enlarged windows for the rows of this call (None if no such row)."""
        idx = [i for i in idx if i is not None]
        if not any(ties[i] is not None for i in idx):
            return None
        rr = [dict(rows[i], model_shape=ties[i]) if ties[i] is not None else rows[i] for i in idx]
        return lambda: R.render(shape, model, rr, x_name, y_name, method=method, oversample=info['oversample'],
                                bbox_factor=info['bbox_factor'])

    img = None
    try:
        img = call(t, allidx)
        compare_tie(case, img, ref, 'image_vs_superposition', mech, alt_for(allidx))
        case.check(isinstance(img, np.ndarray) and img.dtype.kind == 'f', 'image_is_float_array', mech,
                   type=type(img).__name__)
    except LibRaised:
        pass
    case.check(_snap_table(t) == snap_t, 'table_unchanged', mech)
    case.check(_snap_model(model) == snap_m, 'model_unchanged', mech)

    if info['n'] == 0:
        return
    heavy = method == 'integrate'

    # -- row order
    perm = [int(i) for i in rng.permutation(info['n'])]
    try:
        im2 = call(t[perm], perm)
        compare_tie(case, im2, ref, 'row_order_invariance', mech, alt_for(perm))
    except LibRaised:
        pass
    # -- off-image rows removed: identical arithmetic on the remaining rows
    if nover < info['n'] and not heavy:
        keep = [i for i in allidx if overlap[i]]
        try:
            im3 = call(t[keep], keep)
            compare_tie(case, im3, ref, 'offimage_rows_removed', mech, alt_for(keep))
            if img is not None and nover:
                case.check(core.exact(_val_unit(im3)[0], _val_unit(img)[0]), 'offimage_rows_removed_exact', mech)
        except LibRaised:
            pass
    # -- additivity over concatenation
    if info['n'] >= 2 and not heavy:
        k = int(rng.integers(1, info['n']))
        a_idx, b_idx = allidx[:k], allidx[k:]
        try:
            ia = call(t[a_idx], a_idx)
            ib = call(t[b_idx], b_idx)
            ra, rb = sub(a_idx), sub(b_idx)
            compare_tie(case, ia, ra, 'part_vs_superposition', mech, alt_for(a_idx))
            compare_tie(case, ib, rb, 'part_vs_superposition', mech, alt_for(b_idx))
            tot = _val_unit(ia)[0] + _val_unit(ib)[0]
            units = {str(x) for x in (_val_unit(ia)[1], _val_unit(ib)[1]) if x is not None}
            case.check(len(units) <= 1, 'parts_same_unit', mech, units=sorted(units))
            uq = _val_unit(ia)[1] or _val_unit(ib)[1]
            tot_q = tot * uq if uq is not None else tot
            compare_tie(case, tot_q, ref, 'additivity_parts_sum', mech, alt_for(allidx))
            cat = vstack([t[b_idx], t[a_idx]])
            icat = call(cat, b_idx + a_idx)
            compare_tie(case, icat, ref, 'additivity_vstack', mech, alt_for(allidx))
        except LibRaised:
            pass
    # -- a far-away row inserted (front / middle / end) changes nothing
    if not heavy and rng.random() < 0.6:
        pos = int(rng.choice([0, 0, info['n'] // 2, info['n']]))
        src = int(rng.integers(0, info['n']))
        far = t[[src]].copy()
        xcol = kw.get('params_map', {}).get(x_name, x_name)
        far[xcol] = far[xcol] * 0 + (-1000 if rng.random() < 0.5 else 1000 + shape[1])
        tt = vstack([t[:pos], far, t[pos:]])
        # flags of this call: row `pos` is off-image
        idx = allidx[:pos] + [None] + allidx[pos:]
        ov = np.array([False if i is None else bool(overlap[i]) for i in idx])
        fl = dict(first_row_off_image=bool(not ov[0]), unitful=unit is not None,
                  window_ends_at_0=bool(array_shape and _touch0([geom[i] for i in idx if i is not None])),
                  shape_is_array=bool(array_shape))
        try:
            im5 = call(tt, None, fl)
            compare_tie(case, im5, ref, 'offimage_row_inserted', mech, alt_for(allidx))
        except LibRaised:
            pass
    case.check(_snap_table(t) == snap_t, 'table_unchanged', mech)
    case.check(_snap_model(model) == snap_m, 'model_unchanged', mech)

    # documented error: no bounding box and no model_shape
    if not _has_bbox(model) and rng.random() < 0.2:
        kw2 = {k: v for k, v in kw.items() if k != 'model_shape'}
        t2 = t.copy()
        if 'model_shape' in t2.colnames:
            t2.remove_column('model_shape')
        try:
            make_model_image(shape, model, t2, **kw2)
            case.check(False, 'no_bbox_needs_model_shape', mech)
        except ValueError:
            case.check(True, 'no_bbox_needs_model_shape', mech)


def _has_bbox(model):
    try:
        model.bounding_box
        return True
    except NotImplementedError:
        return False


# ----------------------------------------------------------------------
# PSF photometry legs
# ----------------------------------------------------------------------
def _psf_for_phot(rng):
    import photutils.psf as P
    from astropy.modeling.models import Gaussian2D
    kind = str(rng.choice(['cgprf', 'gprf', 'imagepsf', 'wrapped'], p=[.45, .25, .22, .08]))
    if kind == 'cgprf':
        return kind, P.CircularGaussianPRF(fwhm=rng.uniform(2.0, 3.5))
    if kind == 'gprf':
        return kind, P.GaussianPRF(x_fwhm=rng.uniform(2, 3.5), y_fwhm=rng.uniform(2, 3.5), theta=rng.uniform(0, 90))
    if kind == 'imagepsf':
        s = int(rng.choice([9, 11, 13]))
        yy, xx = np.mgrid[0:s, 0:s]
        sig = rng.uniform(1.0, 1.6)
        k = np.exp(-0.5 * ((xx - s // 2) ** 2 + (yy - s // 2) ** 2) / sig ** 2)
        return kind, P.ImagePSF(k / k.sum())
    sig = rng.uniform(1.0, 1.5)
    return kind, P.make_psf_model(Gaussian2D(x_stddev=sig, y_stddev=sig), x_name='x_mean', y_name='y_mean')


def _names(psf):
    return (getattr(psf, 'x_name', 'x_0'), getattr(psf, 'y_name', 'y_0'), getattr(psf, 'flux_name', 'flux'))


def _scene(rng, psf, shape, n, sep, border):
    """non-overlapping-ish sources rendered by direct evaluation of the model on the whole grid."""
    xn, yn, fn = _names(psf)
    yy, xx = np.mgrid[0:shape[0], 0:shape[1]]
    pos = []
    for _ in range(200):
        if len(pos) >= n:
            break
        x, y = rng.uniform(border, shape[1] - 1 - border), rng.uniform(border, shape[0] - 1 - border)
        if all(np.hypot(x - a, y - b) >= sep for a, b, _f in pos):
            pos.append((x, y, rng.uniform(50, 200)))
    data = np.zeros(shape)
    for x, y, f in pos:
        m = psf.copy()
        setattr(m, xn, x), setattr(m, yn, y), setattr(m, fn, f)
        data += m(xx, yy)
    return data, pos


def _rows_from_results(psf, res, include_bkg, psf_shape, extra=()):
    xn, yn, fn = _names(psf)
    rows = []
    for i in range(len(res)):
        params = {xn: float(res['x_fit'][i]), yn: float(res['y_fit'][i]), fn: res['flux_fit'][i]}
        for pname in extra:
            params[pname] = float(_pv(res[pname + '_fit'][i]))
        if not hasattr(params[fn], 'unit'):
            params[fn] = float(params[fn])
        b = res['local_bkg'][i] if include_bkg else 0.0
        if not hasattr(b, 'unit'):
            b = float(b)
        ms = None
        if psf_shape is not None:
            ms = (psf_shape, psf_shape) if np.isscalar(psf_shape) else tuple(psf_shape)
        rows.append(dict(params=params, model_shape=ms, local_bkg=b))
    return rows


def _phot_images(case, phot, psf, res, data_in, data_q, unit, mech, extra=(), force_shapes=None, resid_in=None):
    """model / residual images of a photometry object vs superposition of its results table."""
    rng = case.rng
    xn, yn, fn = _names(psf)
    shape = data_q.shape
    choices = force_shapes or [None, int(rng.choice([3, 5, 7, 9])), int(rng.choice([4, 6, 8])),
                               (int(rng.integers(1, 10)), int(rng.integers(1, 10)))]
    if not _has_bbox(psf):
        choices = [c for c in choices if c is not None]
    nontriv = False
    for _ in range(2):
        psf_shape = choices[int(rng.integers(0, len(choices)))]
        include_bkg = bool(rng.random() < 0.5)
        out_shape = shape if rng.random() < 0.7 else (shape[0] + int(rng.integers(-4, 5)),
                                                     shape[1] + int(rng.integers(-4, 5)))
        rows = _rows_from_results(psf, res, include_bkg, psf_shape, extra)
        ref = R.render(out_shape, psf, rows, xn, yn)
        ov = ref['overlap']
        geom = [(float(r['params'][yn]), float(r['params'][xn]), r['model_shape']) for r in rows]
        fl = dict(first_row_off_image=bool(len(ov) and not ov[0]), unitful=unit is not None,
                  window_ends_at_0=bool(psf_shape is not None and _touch0(geom)),
                  shape_is_array=psf_shape is not None, no_row_overlaps=bool(not ov.any()))
        m2 = dict(mech, psf_shape=('none' if psf_shape is None else 'scalar' if np.isscalar(psf_shape) else 'pair'),
                  include_localbkg=include_bkg)
        nontriv = nontriv or int(ov.sum()) >= 2 or (int(ov.sum()) >= 1 and not ov.all())
        try:
            mi = lib_call(case, lambda: phot.make_model_image(out_shape, psf_shape=psf_shape,
                                                              include_localbkg=include_bkg), m2, **fl)
            alt_fn = None
            if psf_shape is None:
                tz = tie_shapes(psf, rows, xn, yn)
                if any(z is not None for z in tz):
                    rr_ = [dict(r_, model_shape=z) if z is not None else r_ for r_, z in zip(rows, tz)]
                    alt_fn = (lambda rr_=rr_: R.render(out_shape, psf, rr_, xn, yn))
            compare_tie(case, mi, ref, 'phot_model_image_vs_results', m2, alt_fn)
        except LibRaised:
            continue
        if out_shape != shape:
            continue
        # residual == data - model image (same psf_shape / include_localbkg), exactly
        try:
            rin = data_in if resid_in is None else resid_in
            ri = lib_call(case, lambda: phot.make_residual_image(rin, psf_shape=psf_shape,
                                                                 include_localbkg=include_bkg), m2, **fl)
        except LibRaised:
            continue
        from astropy.nddata import NDData
        if isinstance(rin, NDData):
            ok = isinstance(ri, NDData)
            case.check(ok, 'residual_nddata_type', m2, type=type(ri).__name__)
            if not ok:
                continue
            case.check((ri.unit is None and unit is None) or ri.unit == unit, 'residual_unit', m2,
                       obs=str(ri.unit), exp=str(unit))
            rv = np.asarray(ri.data)
        else:
            rv, ru = _val_unit(ri)
            case.check((ru is None and unit is None) or (ru is not None and unit is not None and ru == unit),
                       'residual_unit', m2, obs=str(ru), exp=str(unit))
        exp = _val_unit(data_q)[0] - _val_unit(mi)[0]
        if resid_in is not None:
            # narrow-dtype image handed to make_residual_image: judged against the float64 computation on the values
            # the dtype holds (data_q holds exactly those values as float64)
            src = resid_in.data if isinstance(resid_in, NDData) else resid_in
            sdt = np.asarray(src).dtype
            m2 = dict(m2, data_dtype=str(sdt.kind) + str(sdt.itemsize),
                      data_kind='integer' if sdt.kind in 'iu' else 'float',
                      container='NDData' if isinstance(resid_in, NDData) else 'ndarray')
            if isinstance(resid_in, NDData) and sdt.kind == 'f' and sdt.itemsize < 8:
                # an NDData residual keeps the float16 / float32 dtype of its data array: judged to the precision
                # of that dtype (eps relative to the larger of |data| and |model| per pixel), nothing looser
                eps = float(np.finfo(sdt).eps)
                sc = np.maximum(np.abs(_val_unit(data_q)[0]), np.abs(_val_unit(mi)[0]))
                with np.errstate(all='ignore'):
                    dev = float(np.max(np.abs(rv.astype(float) - exp) / np.where(sc > 0, sc, 1.0)))
                case.dev('residual_narrow_float_nddata_in_eps', dev / eps)
                case.check(dev <= 2.0 * eps, 'residual_equals_data_minus_model', m2, dev=dev, eps=eps)
                continue
        case.close(rv, exp, 'residual_equals_data_minus_model', mech=m2)
    return nontriv


def _psfphot(case):
    import astropy.units as u
    from astropy.nddata import NDData
    from astropy.table import QTable
    from photutils.background import LocalBackground
    from photutils.psf import PSFPhotometry, SourceGrouper
    rng = case.rng
    kind, psf = _psf_for_phot(rng)
    xn, yn, fn = _names(psf)
    shape = (int(rng.integers(17, 41)), int(rng.integers(17, 41)))
    n = int(rng.integers(1, 6))
    fit_shape = int(rng.choice([5, 7]))
    data, pos = _scene(rng, psf, shape, n, sep=7.0, border=4)
    if not pos:
        case.skip('no source placed')
    bkg_level = float(rng.choice([0.0, 0.0, 0.5, 2.0]))
    data = data + bkg_level + rng.normal(0, 0.02, shape)
    ax = np.random.default_rng(int(rng.integers(0, 2 ** 62)))
    mag = draw_magnitude(ax, 0.55)          # axis (i): data, init fluxes and local backgrounds share one scale
    data = data * mag
    bkg_level *= mag
    pos = [(x_, y_, f_ * mag) for x_, y_, f_ in pos]
    if ax.random() < 0.15:                  # axis (iii): memory layout of the image
        data = np.asfortranarray(data)
        case.note('axis_layout_fortran_image')
    if mag != 1.0:
        case.note('axis_magnitude_not_1')
        if mag <= 1e-9:
            case.note('axis_magnitude_below_1e-9')
    else:
        case.note('axis_none_plain_case')
    unit = u.Jy if rng.random() < 0.35 else None
    variant = str(rng.choice(['free', 'free', 'fixed_first_off', 'extra_param', 'grouped']))
    psf_fit = psf.copy()
    extra = ()
    init = QTable()
    xs = np.array([p[0] for p in pos]) + rng.uniform(-.3, .3, len(pos))
    ys = np.array([p[1] for p in pos]) + rng.uniform(-.3, .3, len(pos))
    force_shapes = None
    if variant == 'fixed_first_off' and kind != 'wrapped':
        # positions held fixed; the first source sits outside the image so that a small psf_shape window
        # does not overlap it (a legal init position: its fit_shape window still overlaps)
        psf_fit.x_0.fixed = True
        psf_fit.y_0.fixed = True
        fit_shape = 7
        d = float(rng.choice([2.6, 2.8, 3.2]))
        if rng.random() < 0.5:
            xs[0] = -d
        else:
            ys[0] = -d
        force_shapes = [1, 3, 3, (3, 3), 5, 7]
    elif variant == 'extra_param' and kind == 'cgprf':
        psf_fit.fwhm.fixed = False
        extra = ('fwhm',)
    init['x'] = xs
    init['y'] = ys
    if rng.random() < 0.5:
        fl = np.array([p[2] for p in pos]) * rng.uniform(0.8, 1.2, len(pos))
        init['flux'] = fl * unit if unit is not None else fl
    lb_mode = str(rng.choice(['none', 'estimator', 'column']))
    lbe = LocalBackground(5, 9) if lb_mode == 'estimator' else None
    if lb_mode == 'column':
        lb = np.full(len(pos), bkg_level) + rng.uniform(-.1, .1, len(pos)) * mag
        init['local_bkg'] = lb * unit if unit is not None else lb
    grouper = SourceGrouper(8.0) if variant == 'grouped' else None
    use_nddata = rng.random() < 0.25
    resid_in = None
    if unit is None and ax.random() < 0.35:
        # axis (vii): a narrow-dtype image.  The fit runs on the float64 copy of exactly the values the dtype holds;
        # make_residual_image is then given the narrow array itself (or an NDData holding it)
        dt = str(ax.choice(['f4', 'f2', 'u1', 'u2', 'i2', 'i4', 'u4']))
        top = {'f4': None, 'f2': 1000.0, 'u1': 200.0, 'u2': 60000.0, 'i2': 30000.0, 'i4': 2.0e9, 'u4': 4.0e9}[dt]
        with np.errstate(all='ignore'):
            if top is None:
                narrow = data.astype('f4')
            else:
                fac = top / float(np.max(np.abs(data)))
                scaled = data * fac
                if dt[0] == 'u':
                    scaled = np.clip(scaled, 0, None)
                narrow = (np.round(scaled) if dt[0] in 'iu' else scaled).astype(dt)
                if 'flux' in init.colnames:
                    init['flux'] = init['flux'] * fac
                if 'local_bkg' in init.colnames:
                    init['local_bkg'] = init['local_bkg'] * fac
        if np.all(np.isfinite(narrow.astype(float))):
            data = narrow.astype(float)
            resid_in = NDData(narrow) if use_nddata else narrow
            case.note('axis2_dtype_image_' + dt)
    if ax.random() < 0.2 and variant != 'fixed_first_off':
        fit_shape = (5, 7) if ax.random() < 0.5 else (7, 5)          # axis (viii): anisotropic fit_shape
        case.note('axis2_anisotropic_fit_shape')
    data_q = data * unit if unit is not None else data
    data_in = NDData(data, unit=unit) if use_nddata else data_q
    case.params = dict(leg='PSFPhotometry', psf=kind, shape=list(shape), nsrc=len(pos), variant=variant,
                       unit=str(unit), local_bkg=lb_mode, nddata=use_nddata, fit_shape=fit_shape, magnitude=mag)
    case.digest = core.arr_digest(data, xs, ys) + core.digest(case.params)
    mech = dict(cls=case.cls, entry='PSFPhotometry', model=kind, variant=variant)
    phot = PSFPhotometry(psf_fit, fit_shape, grouper=grouper, localbkg_estimator=lbe, aperture_radius=4.0)
    snap_m = _snap_model(psf_fit)
    res = phot(data_in, init_params=init)
    if not np.all(np.isfinite(_pv(res['x_fit']))) or not np.all(np.isfinite(_pv(res['flux_fit']))):
        case.skip('non-finite fit result')
    nt = _phot_images(case, phot, psf_fit, res, data_in, data_q, unit, mech, extra, force_shapes, resid_in=resid_in)
    case.check(_snap_model(psf_fit) == snap_m, 'model_unchanged', mech)
    case.nontrivial = nt


def _iterphot(case):
    import astropy.units as u
    from photutils.background import LocalBackground
    from photutils.detection import DAOStarFinder
    from photutils.psf import IterativePSFPhotometry, SourceGrouper
    import photutils.psf as P
    rng = case.rng
    fwhm = rng.uniform(2.2, 3.2)
    psf = P.CircularGaussianPRF(fwhm=fwhm)
    shape = (int(rng.integers(25, 46)), int(rng.integers(25, 46)))
    n = int(rng.integers(2, 6))
    data, pos = _scene(rng, psf, shape, n, sep=9.0, border=5)
    if not pos:
        case.skip('no source placed')
    # a faint close companion, typically found only after subtraction of the primary
    x, y, f = pos[0]
    yy, xx = np.mgrid[0:shape[0], 0:shape[1]]
    ang = rng.uniform(0, 2 * np.pi)
    m = psf.copy()
    m.x_0, m.y_0, m.flux = x + 3.0 * np.cos(ang), y + 3.0 * np.sin(ang), 0.25 * f
    data = data + m(xx, yy) + rng.normal(0, 0.02, shape)
    ax = np.random.default_rng(int(rng.integers(0, 2 ** 62)))
    mag = draw_magnitude(ax, 0.55)
    data = data * mag
    case.note('axis_magnitude_not_1' if mag != 1.0 else 'axis_none_plain_case')
    if mag <= 1e-9:
        case.note('axis_magnitude_below_1e-9')
    unit = u.adu if rng.random() < 0.3 else None
    mode = str(rng.choice(['new', 'all']))
    from photutils.psf import SourceGrouper
    lbe = LocalBackground(6, 10) if rng.random() < 0.4 else None
    finder = DAOStarFinder(threshold=1.0 * mag * unit if unit is not None else 1.0 * mag, fwhm=fwhm)
    grouper = SourceGrouper(6.0) if (mode == 'all' or rng.random() < 0.3) else None
    it = IterativePSFPhotometry(psf, 5, finder, grouper=grouper, mode=mode, maxiters=int(rng.choice([1, 2, 3])),
                                localbkg_estimator=lbe, aperture_radius=4.0)
    data_q = data * unit if unit is not None else data
    case.params = dict(leg='IterativePSFPhotometry', shape=list(shape), nsrc=len(pos) + 1, mode=mode,
                       unit=str(unit), local_bkg=lbe is not None, magnitude=mag)
    case.digest = core.arr_digest(data) + core.digest(case.params)
    mech = dict(cls=case.cls, entry='IterativePSFPhotometry', model='cgprf', variant=mode)
    res = it(data_q)
    if res is None:
        case.skip('finder found nothing')
    if not np.all(np.isfinite(_pv(res['x_fit']))) or not np.all(np.isfinite(_pv(res['flux_fit']))):
        case.skip('non-finite fit result')
    case.note('iter_results_rows', len(res))
    case.note('iter_iterations', len(it.fit_results))
    case.nontrivial = _phot_images(case, it, psf, res, data_q, data_q, unit, mech)


def _psfimage(case):
    from photutils.psf import make_psf_model_image
    rng = case.rng
    kind = str(rng.choice(['cgprf', 'gprf', 'imagepsf', 'cgpsf', 'wrapped'], p=[.3, .25, .2, .2, .05]))
    if kind == 'wrapped':
        _, psf = 'wrapped', None
        from astropy.modeling.models import Gaussian2D
        import photutils.psf as P
        sig = rng.uniform(1.0, 1.5)
        psf = P.make_psf_model(Gaussian2D(x_stddev=sig, y_stddev=sig), x_name='x_mean', y_name='y_mean')
        others = {}
    else:
        psf, _x, _y, _f, others, _bb = make_model(rng, kind)
    xn, yn, fn = _names(psf)
    shape = (int(rng.integers(12, 61)), int(rng.integers(12, 61)))
    nreq = int(rng.integers(1, 13))
    kw = dict(seed=int(rng.integers(0, 2 ** 31)), min_separation=float(rng.choice([1, 3, 8])))
    model_shape = None
    if kind == 'wrapped' or rng.random() < 0.6:
        model_shape = int(rng.integers(1, 12)) if rng.random() < 0.6 else (int(rng.integers(1, 12)),
                                                                            int(rng.integers(1, 12)))
        kw['model_shape'] = model_shape
    if rng.random() < 0.5:
        kw['border_size'] = int(rng.integers(0, 4)) if rng.random() < 0.5 else (int(rng.integers(0, 4)),
                                                                                 int(rng.integers(0, 4)))
    ax = np.random.default_rng(int(rng.integers(0, 2 ** 62)))
    mag = draw_magnitude(ax)
    case.note('axis_magnitude_not_1' if mag != 1.0 else 'axis_none_plain_case')
    extra = {fn: (10.0 * mag, 100.0 * mag)} if rng.random() < 0.8 else {}
    for p, r in others.items():
        if r is not None and rng.random() < 0.5:
            extra[p] = r
    if rng.random() < 0.3:
        extra['not_a_parameter'] = (0.0, 1.0)      # documented: ignored
    case.params = dict(leg='make_psf_model_image', psf=kind, shape=list(shape), n_sources=nreq,
                       model_shape=repr(model_shape), kwargs=sorted(extra), border=repr(kw.get('border_size')))
    mech = dict(cls=case.cls, entry='make_psf_model_image', model=kind,
                window='bbox' if model_shape is None else 'keyword')
    snap_m = _snap_model(psf)
    try:
        data, params = make_psf_model_image(shape, psf, nreq, **kw, **extra)
    except ValueError as exc:
        if 'border_size is too large' in str(exc):
            case.skip('border_size too large for the shape (documented ValueError)')
        raise
    case.digest = core.arr_digest(*[np.asarray(_pv(params[c])) for c in params.colnames]) + core.digest(case.params)
    ms = None
    if model_shape is not None:
        ms = (model_shape, model_shape) if np.isscalar(model_shape) else tuple(model_shape)
    else:
        ms = R.shape_from_bbox(psf)        # documented: fixed shape from the input model's bounding box
    rows = []
    pnames = [c for c in params.colnames if c in psf.param_names]
    case.check(xn in pnames and yn in pnames, 'params_table_has_xy', mech, cols=params.colnames)
    for i in range(len(params)):
        rows.append(dict(params={p: float(params[p][i]) for p in pnames}, model_shape=ms, local_bkg=0.0))
    ref = R.render(shape, psf, rows, xn, yn)
    compare(case, data, ref, 'psf_model_image_vs_params_table', mech)
    case.check(len(params) <= nreq, 'n_sources_at_most_requested', mech, n=len(params), req=nreq)
    case.check(_snap_model(psf) == snap_m, 'model_unchanged', mech)
    case.nontrivial = int(ref['overlap'].sum()) >= 2


def run_case(case):
    if case.cls == 'psfphot':
        _psfphot(case)
    elif case.cls == 'iterphot':
        _iterphot(case)
    elif case.cls == 'psfimage':
        _psfimage(case)
    else:
        _mmi(case)
