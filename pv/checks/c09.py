"""C09 Results never depend on access order or on earlier calls.

M3 history monitor with a fresh-object oracle.  One live object per case, a
random finite sequence of public reads / setter assignments / mutator calls /
calls on it; after every step the value just returned is compared with what a
*freshly constructed* object (built from copies of the same constructor
arguments, or from the current parameters for apertures) returns for that single
request.  Exceptions are values: an exception the fresh object does not raise is
a violation.  Families live in pv/gen/c09_*.py, the comparer in pv/ref/c09_oracle.py.
"""
from __future__ import annotations

from pv.ref import c09_oracle as O

ID = 'C09'
RULE = ('one history per case on ONE live object of the family named by the generator class: Background2D '
        '(random read orders of all public map/mesh/median/npixels attributes; filter_threshold none/below/'
        'inside/above the mesh range x Zoom/IDW interpolator x mask/coverage_mask/exclude_percentile/units/dtype), '
        'pixel apertures (a pool of parent / indexed / sliced / iterated / copied apertures; reads with varying method '
        'arguments interleaved with plain and augmented in-place (+=, -=, *=) updates of every parameter, every other pool '
        'member re-judged after each update), RadialProfile/CurveOfGrowth '
        '(first reads interleaved with normalize/unnormalize), PSFPhotometry/IterativePSFPhotometry (repeated calls '
        'with different data/init_params columns, each followed by a sequence of make_model_image/make_residual_image '
        'requests with varying shape/psf_shape/include_localbkg judged one by one), star finders (repeated calls), Ellipse (fit_image sequences), '
        'GriddedPSFModel (evaluation order/copy/deepcopy; grids nx, ny in 1..7 incl. strongly non-square and single row/column, cell sweeps). '
        'Independently of the class the generic axes magnitude / call form / memory layout / image shape / degenerate input are drawn '
        '(pv/gen/c09_axes.py, counted as axis:* notes), identically for the live object and its fresh twins. Every returned value is compared exactly with the same '
        'single request on a freshly constructed object. non-trivial = the history contains >= 2 requests of which '
        'at least one follows a state-changing step (a first read of a lazy attribute, an assignment, a mutator or '
        'a call); distinct by digest of (constructor inputs, request sequence)')
CLASSES = ['bkg_none', 'bkg_below', 'bkg_inside', 'bkg_above', 'radial_profile', 'curve_of_growth',
           'aper_circle', 'aper_ellipse', 'aper_rect', 'aper_annulus',
           'psfphot', 'psfphot_grouped', 'psfphot_finder', 'iterpsf',
           'daofinder', 'iraffinder', 'starfinder', 'ellipse', 'gridded', 'sky_aperture']
MUST_REACH = ['photutils.background.background_2d:Background2D.background_mesh',
              'photutils.background.background_2d:Background2D.background_rms_mesh',
              'photutils.background.background_2d:Background2D._selective_filter',
              'photutils.background.background_2d:Background2D._filter_grid',
              'photutils.profiles.core:ProfileBase.normalize',
              'photutils.profiles.core:ProfileBase.unnormalize',
              'photutils.profiles.radial_profile:RadialProfile.data_profile',
              'photutils.profiles.radial_profile:RadialProfile.gaussian_fit',
              'photutils.profiles.curve_of_growth:CurveOfGrowth.profile',
              'photutils.psf.photometry:PSFPhotometry._reset_results',
              'photutils.psf.photometry:PSFPhotometry._prepare_init_params',
              'photutils.psf.photometry:PSFPhotometry.__call__',
              'photutils.psf.photometry:IterativePSFPhotometry.__call__',
              'photutils.psf.photometry:ModelImageMixin.make_model_image',
              'photutils.aperture.attributes:ApertureAttribute.__set__',
              'photutils.aperture.attributes:ApertureAttribute._reset_lazyproperties',
              'photutils.aperture.attributes:PixelPositions.__set__',
              'photutils.aperture.attributes:ScalarAngleOrValue.__set__',
              'photutils.aperture.core:PixelAperture.bbox',
              'photutils.aperture.core:PixelAperture._centered_edges',
              'photutils.psf.gridded_models:GriddedPSFModel._calc_interpolator',
              'photutils.psf.gridded_models:GriddedPSFModel.copy',
              'photutils.detection.starfinder:StarFinder._get_raw_catalog',
              'photutils.detection.daofinder:DAOStarFinder._get_raw_catalog',
              'photutils.detection.irafstarfinder:IRAFStarFinder._get_raw_catalog',
              'photutils.isophote.ellipse:Ellipse.fit_image',
              'photutils.isophote.ellipse:Ellipse.fit_isophote',
              'photutils.aperture.core:SkyAperture._to_pixel_params',
              'photutils.aperture.core:PixelAperture._to_sky_params']
ANCHOR_FILES = ['background/background_2d.py', 'profiles/core.py', 'profiles/radial_profile.py',
                'profiles/curve_of_growth.py', 'psf/photometry.py', 'aperture/attributes.py', 'aperture/core.py',
                'psf/gridded_models.py', 'detection/starfinder.py', 'detection/daofinder.py',
                'detection/irafstarfinder.py', 'isophote/ellipse.py']
MIN_NONTRIVIAL = {'quick': 100, 'thorough': 2000}
ASSUMPTIONS = ['a freshly constructed object given copies of the same constructor arguments is the oracle '
               '(its own correctness is the business of the other properties)',
               'numpy/scipy/astropy (fitters, tables, units) are deterministic for identical inputs in one process']


def plan(tier):
    if tier == 'thorough':
        return dict(shards=16, cases=100000, timeout=1500, budget_s=600)
    return dict(shards=8, cases=100000, timeout=400, budget_s=50)


def selftest():
    """Comparer facts + the live-vs-fresh machinery on a toy class with a planted stale cache."""
    from pv import core
    O.selftest()

    class Toy:
        def __init__(self, r):
            self.r = r

        @property
        def area(self):
            if '_a' not in self.__dict__:
                self._a = 3.0 * self.r ** 2
            return self._a              # never invalidated: stale after re-assignment of r

    case = core.Case('C09', 'quick', 0, 0, 0, 'selftest')
    live = Toy(1.0)
    assert O.compare(case, O.request(lambda: live.area), O.request(lambda: Toy(1.0).area), 't', {})
    live.r = 2.0
    assert not O.compare(case, O.request(lambda: live.area), O.request(lambda: Toy(2.0).area), 't', {})
    assert case.violations and case.violations[0]['what'] == 't'
    # an exception only the live object raises is a violation, one both raise is not
    def boom():
        raise ValueError('x')
    assert not O.compare(case, O.request(boom, expected=(ValueError,)), O.request(lambda: 1), 't', {})
    assert O.compare(case, O.request(boom, expected=(ValueError,)), O.request(boom, expected=(ValueError,)), 't', {})


def run_case(case):
    import time
    t0 = time.process_time()
    try:
        _run_case(case)
    finally:
        case.note('ms:' + case.cls, int(1000 * (time.process_time() - t0)))
        case.note('n:' + case.cls)


def _run_case(case):
    import os
    # development aid: PV_C09_ONLY=<class> runs that family for every case (the run is then reported
    # inconclusive because the other classes are missing, which is intended)
    only = os.environ.get('PV_C09_ONLY')
    if only:
        case.cls = only
    cls = case.cls
    if cls.startswith('bkg_'):
        from pv.gen import c09_bkg
        c09_bkg.run(case, cls[4:])
    elif cls in ('radial_profile', 'curve_of_growth'):
        from pv.gen import c09_profiles
        c09_profiles.run(case, 'RadialProfile' if cls == 'radial_profile' else 'CurveOfGrowth')
    elif cls.startswith('aper_'):
        from pv.gen import c09_apertures
        c09_apertures.run(case, cls[5:])
    elif cls in ('psfphot', 'psfphot_grouped', 'psfphot_finder', 'iterpsf'):
        from pv.gen import c09_psfphot
        c09_psfphot.run(case, {'psfphot': 'plain', 'psfphot_grouped': 'grouped', 'psfphot_finder': 'finder',
                               'iterpsf': 'iterative'}[cls])
    elif cls in ('daofinder', 'iraffinder', 'starfinder'):
        from pv.gen import c09_finders
        c09_finders.run(case, {'daofinder': 'DAOStarFinder', 'iraffinder': 'IRAFStarFinder',
                               'starfinder': 'StarFinder'}[cls])
    elif cls == 'ellipse':
        from pv.gen import c09_ellipse
        c09_ellipse.run(case)
    elif cls == 'gridded':
        from pv.gen import c09_gridded
        c09_gridded.run(case)
    elif cls == 'sky_aperture':
        from pv.gen import c09_skyaper
        c09_skyaper.run(case)
    else:
        raise RuntimeError('unknown class ' + cls)
