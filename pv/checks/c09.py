"""C09 Results never depend on access order or on earlier calls.

M3 history monitor with a fresh-object oracle.  One live object per case, a
random finite sequence of public reads / setter assignments / mutator calls /
calls on it; after every step the value just returned is compared with what a
*freshly constructed* object (built from copies of the same constructor
arguments, or from the current parameters for apertures) returns for that single
request.  Exceptions are values: an exception the fresh object does not raise is
a violation.  Families live in pv/gen/c09_*.py, the comparer in pv/ref/c09_oracle.py.
"""
from __future__ import annotations

from pv.ref import c09_oracle as O

ID = 'C09'
RULE = ('one history per case on ONE live object of the family named by the generator class: Background2D '
        '(random read orders of all public map/mesh/median/npixels attributes; filter_threshold none/below/'
        'inside/above the mesh range x Zoom/IDW interpolator x mask/coverage_mask/exclude_percentile/units/dtype), '
        'pixel apertures (reads interleaved with re-assignment of every parameter), RadialProfile/CurveOfGrowth '
        '(first reads interleaved with normalize/unnormalize), PSFPhotometry/IterativePSFPhotometry (repeated calls '
        'with different data/init_params columns), star finders (repeated calls), Ellipse (fit_image sequences), '
        'GriddedPSFModel (evaluation order/copy/deepcopy). Every returned value is compared exactly with the same '
        'single request on a freshly constructed object. non-trivial = the history contains >= 2 requests of which '
        'at least one follows a state-changing step (a first read of a lazy attribute, an assignment, a mutator or '
        'a call); distinct by digest of (constructor inputs, request sequence)')
CLASSES = ['bkg_none', 'bkg_below', 'bkg_inside', 'bkg_above']
MUST_REACH = ['photutils.background.background_2d:Background2D.background_mesh',
              'photutils.background.background_2d:Background2D.background_rms_mesh',
              'photutils.background.background_2d:Background2D._selective_filter',
              'photutils.background.background_2d:Background2D._filter_grid']
ANCHOR_FILES = ['background/background_2d.py', 'profiles/core.py', 'profiles/radial_profile.py',
                'profiles/curve_of_growth.py', 'psf/photometry.py', 'aperture/attributes.py', 'aperture/core.py',
                'psf/gridded_models.py', 'detection/starfinder.py', 'detection/daofinder.py',
                'detection/irafstarfinder.py', 'isophote/ellipse.py']
MIN_NONTRIVIAL = {'quick': 400, 'thorough': 6000}
ASSUMPTIONS = ['a freshly constructed object given copies of the same constructor arguments is the oracle '
               '(its own correctness is the business of the other properties)',
               'numpy/scipy/astropy (fitters, tables, units) are deterministic for identical inputs in one process']


def plan(tier):
    if tier == 'thorough':
        return dict(shards=16, cases=100000, timeout=1500, budget_s=600)
    return dict(shards=8, cases=100000, timeout=400, budget_s=55)


def selftest():
    O.selftest()


def run_case(case):
    cls = case.cls
    if cls.startswith('bkg_'):
        from pv.gen import c09_bkg
        c09_bkg.run(case, cls[4:])
    else:
        raise RuntimeError('unknown class ' + cls)
