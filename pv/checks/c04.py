"""C04 detect_sources is exact connected-component labelling above threshold.

M1 reference-model monitor: own BFS labelling (pv.ref.ccl) vs the real
detect_sources at the API boundary, on hostile small images.
"""
from __future__ import annotations

import warnings

import numpy as np

from pv import core
from pv.ref import ccl

ID = 'C04'
RULE = ('random small images (1x1..24x24) per generator class (integer ties, plateaus, checkerboards, '
        '2-D thresholds equal to the data on a subset, NaN/inf, masks, pruning, Quantity, detect_threshold, '
        'SourceFinder, mixed precision); independently of the class: scaling by 2**k, memory layouts C/F/strided/'
        'transposed/big-endian, call forms of threshold and npixels, 20 % strongly elongated images (1-3 x 40-120), '
        'narrow / unsigned / half-precision dtypes holding the same integers, all-False masks, all-True masks '
        '(documented ValueError); non-trivial = reference finds >=2 components before pruning OR prunes >=1 component; '
        'distinct by digest of (data, threshold, mask, npixels, connectivity)')
CLASSES = ['ties', 'thr2d', 'plateau', 'checker', 'naninf', 'masked', 'tiny', 'prune',
           'quantity', 'threshold_fn', 'finder', 'mixprec']
MUST_REACH = ['photutils.segmentation.detect:detect_sources',
              'photutils.segmentation.detect:_detect_sources',
              'photutils.segmentation.detect:detect_threshold']
ANCHOR_FILES = ['segmentation/detect.py', 'segmentation/utils.py', 'segmentation/core.py',
                'segmentation/finder.py']
MIN_NONTRIVIAL = {'quick': 1000, 'thorough': 5000}
ASSUMPTIONS = ['numpy comparison/indexing is trusted', 'astropy SigmaClip is trusted for detect_threshold defaults']


def plan(tier):
    if tier == 'thorough':
        return dict(shards=16, cases=60000, timeout=2400, budget_s=900)
    return dict(shards=4, cases=3000, timeout=600, budget_s=120)


def selftest():
    ccl.selftest()


def _shape(rng, cls):
    if cls == 'tiny':
        return [(1, 1), (1, int(rng.integers(1, 12))), (int(rng.integers(1, 12)), 1),
                (2, 2), (1, 2), (2, 1)][int(rng.integers(0, 6))]
    if rng.random() < 0.2:
        # generic axis (viii): strongly non-square images in both orientations
        a, b = int(rng.integers(1, 4)), int(rng.integers(40, 121))
        return (a, b) if rng.random() < 0.5 else (b, a)
    return int(rng.integers(2, 25)), int(rng.integers(2, 25))


def _gen(case):
    rng, cls = case.rng, case.cls
    shape = _shape(rng, cls)
    conn = int(rng.choice([4, 8]))
    npix = int(rng.integers(1, 6))
    mask = None
    if cls in ('ties', 'tiny', 'prune', 'quantity', 'finder', 'masked', 'thr2d', 'naninf'):
        data = rng.integers(-2, 5, size=shape).astype(float)
    elif cls == 'plateau':
        data = np.zeros(shape)
        for _ in range(int(rng.integers(1, 6))):
            y0, x0 = int(rng.integers(0, shape[0])), int(rng.integers(0, shape[1]))
            h, w = int(rng.integers(1, 6)), int(rng.integers(1, 6))
            data[y0:y0 + h, x0:x0 + w] = float(rng.integers(1, 4))
    elif cls == 'checker':
        yy, xx = np.indices(shape)
        data = ((yy + xx) % 2).astype(float) * float(rng.integers(1, 4))
        # knock out some squares
        data[rng.random(shape) < 0.2] = 0.0
    elif cls == 'mixprec':
        # image in a narrower / different dtype than the (float64) threshold image; the threshold sits
        # within a few float64 ulps (or exactly on) the float64 value of the pixel, so any rounding of
        # data or threshold to the other's precision flips strict comparisons
        dt = [np.float32, np.float32, np.float16, np.int16, np.uint8, np.int32][int(rng.integers(0, 6))]
        if np.dtype(dt).kind == 'f':
            base = rng.choice([0.1, 0.3, 1.7, 2.6, 1e-3], size=shape) * rng.integers(1, 4, size=shape)
            data = base.astype(dt)
        else:
            data = rng.integers(0, 6, size=shape).astype(dt)
    else:  # threshold_fn
        data = rng.normal(10.0, 2.0, size=shape)
    thr = float(rng.integers(-1, 4)) if cls != 'threshold_fn' else 10.0
    if cls == 'plateau' or cls == 'checker':
        thr = float(rng.choice([0.0, 0.5, 1.0, 2.0]))
    if cls == 'mixprec':
        d64 = data.astype(np.float64)
        thr = d64.copy()
        r = rng.random(shape)
        below = r < 0.45                       # threshold just below the pixel value: must be detected
        above = (r >= 0.45) & (r < 0.7)        # just above: must not
        thr[below] = np.nextafter(d64[below], -np.inf)
        thr[above] = np.nextafter(d64[above], np.inf)
        if rng.random() < 0.3:                 # scalar threshold taken from one pixel's float64 value
            thr = float(np.nextafter(d64.flat[int(rng.integers(0, d64.size))], -np.inf))
    if cls == 'thr2d':
        thr = rng.integers(-1, 4, size=shape).astype(float)
        sel = rng.random(shape) < 0.4
        thr[sel] = data[sel]                      # exact ties: must not be detected
    if cls == 'naninf':
        r = rng.random(shape)
        data[r < 0.1] = np.nan
        data[(r >= 0.1) & (r < 0.15)] = np.inf
        data[(r >= 0.15) & (r < 0.2)] = -np.inf
        if rng.random() < 0.3:
            thr = np.where(rng.random(shape) < 0.1, np.nan, thr) * np.ones(shape)
    if cls in ('masked', 'finder') or rng.random() < 0.25:
        mask = rng.random(shape) < rng.choice([0.1, 0.3, 0.6])
        if mask.all():
            mask[0, 0] = False
    if cls in ('ties', 'prune', 'masked', 'thr2d', 'plateau', 'checker', 'finder') and rng.random() < 0.3:
        # generic axis (vii): the same small integer values in a narrow / unsigned / half-precision dtype (exactly
        # representable; for unsigned dtypes the image is shifted to be non-negative together with the threshold).
        # The reference compares the float64 values of what the dtype holds.
        dt = [np.float32, np.float16, np.int8, np.int16, np.int32, np.uint8, np.uint16, np.uint32, np.uint64,
              np.int64][int(rng.integers(0, 10))]
        if np.dtype(dt).kind == 'u':
            off = float(-min(0.0, np.nanmin(data)))
            data = data + off
            thr = thr + off
        data = data.astype(dt)
    if mask is not None and rng.random() < 0.08:
        # generic axis (xi): a mask that hides nothing / everything (the latter: nothing detected -> None + warning)
        mask = np.zeros(shape, bool) if rng.random() < 0.6 else np.ones(shape, bool)
    if cls == 'prune':
        npix = int(rng.integers(2, max(3, shape[0] * shape[1] // 2 + 2)))
    if cls == 'tiny':
        npix = int(rng.integers(1, shape[0] * shape[1] + 2))
    return data, thr, npix, conn, mask


def _relayout(rng, a):
    """Same values, different memory layout (independent axis of every class)."""
    k = int(rng.integers(0, 5))
    if k == 0:
        return a, 'C'
    if k == 1:
        return np.asfortranarray(a), 'F'
    if k == 2:                                   # strided view into a larger array
        big = np.zeros((a.shape[0] * 2 + 1, a.shape[1] * 3 + 2), a.dtype)
        v = big[1::2, 2::3][:a.shape[0], :a.shape[1]]
        v[...] = a
        return v, 'strided'
    if k == 3:                                   # transposed view of a C array
        return np.ascontiguousarray(a.T).T, 'Tview'
    if a.dtype.kind == 'f' and a.dtype.itemsize > 1:
        return a.astype(a.dtype.newbyteorder('>')), 'bigendian'
    return a, 'C'


def _forms(case, data, thr, npix, mask):
    """Generic axes drawn independently of the class: magnitude (exact powers of two), memory layout of
    data / threshold / mask, call form of threshold and npixels. Values are unchanged (or scaled exactly), so the
    reference labelling is unchanged."""
    rng = case.rng
    forms = []
    if case.cls in ('threshold_fn',):
        return data, thr, npix, mask, forms
    if rng.random() < 0.4 and data.dtype.kind == 'f' and data.dtype.itemsize == 8 and case.cls != 'mixprec':
        k = int(rng.choice([-60, -30, -17, -3, 5, 20, 40]))      # exact scaling by 2**k of data and threshold
        with np.errstate(over='ignore', invalid='ignore'):
            data = np.ldexp(data, k)
            thr = np.ldexp(thr, k) if np.ndim(thr) else float(np.ldexp(thr, k))
        forms.append(f'mag2^{k}')
    if rng.random() < 0.5:
        data, name = _relayout(rng, data)
        forms.append('data:' + name)
    if np.ndim(thr) and rng.random() < 0.5:
        thr, name = _relayout(rng, thr)
        forms.append('thr:' + name)
    if mask is not None and rng.random() < 0.5:
        mask, name = _relayout(rng, mask)
        forms.append('mask:' + name)
    if mask is not None and rng.random() < 0.2:
        mask = mask.astype(np.uint8).astype(bool) if rng.random() < 0.5 else mask
    if not np.ndim(thr) and case.cls != 'mixprec':
        k = int(rng.integers(0, 4))
        if k == 1:
            thr = np.float64(thr); forms.append('thr:np.float64')
        elif k == 2:
            thr = np.array(thr); forms.append('thr:0d')
        elif k == 3 and float(thr).is_integer() and abs(thr) < 2**31:
            thr = int(thr); forms.append('thr:int')
    if rng.random() < 0.3:
        npix = np.int64(npix); forms.append('npixels:np.int64')
    return data, thr, npix, mask, forms


def _compare_segm(case, seg, ref, mech):
    from photutils.segmentation import SegmentationImage
    case.check(np.array_equal(seg.data, ref), 'labels_equal_reference', mech,
               obs=seg.data, exp=ref)
    n = int(ref.max())
    case.check(list(np.asarray(seg.labels)) == list(range(1, n + 1)), 'labels_1_to_N', mech,
               labels=list(map(int, seg.labels)), n=n)
    fresh = SegmentationImage(seg.data.copy())
    case.check(np.array_equal(seg.labels, fresh.labels), 'labels_vs_fresh', mech)
    case.check(list(seg.slices) == list(fresh.slices), 'slices_vs_fresh', mech,
               obs=repr(seg.slices)[:300], exp=repr(fresh.slices)[:300])
    case.check(np.array_equal(seg.areas, fresh.areas), 'areas_vs_fresh', mech)
    # direct numpy definitions
    areas = [int(np.sum(ref == i)) for i in range(1, n + 1)]
    case.check(list(map(int, seg.areas)) == areas, 'areas_vs_numpy', mech)
    for i, slc in enumerate(seg.slices, start=1):
        ys, xs = np.nonzero(ref == i)
        exp = (slice(int(ys.min()), int(ys.max()) + 1), slice(int(xs.min()), int(xs.max()) + 1))
        if not case.check(tuple(slc) == exp, 'slices_vs_numpy', mech, label=i,
                          obs=repr(slc), exp=repr(exp)):
            break
    case.check(seg.nlabels == n and seg.max_label == n, 'nlabels', mech)
    case.check(seg.data.dtype.kind in 'iu', 'int_dtype', mech, dtype=str(seg.data.dtype))


def run_case(case):
    from photutils.segmentation import SourceFinder, detect_sources, detect_threshold
    from photutils.utils.exceptions import NoDetectionsWarning
    rng = case.rng
    data, thr, npix, conn, mask = _gen(case)
    data, thr, npix, mask, forms = _forms(case, data, thr, npix, mask)
    if case.cls == 'mixprec' and np.ndim(thr) == 0:
        thr = np.float64(thr)     # a strongly typed scalar: numpy compares in float64 (a Python float would
        #                           be "weak" and legitimately compared in the image's own precision)
    case.params = dict(shape=list(data.shape), npixels=int(npix), connectivity=conn,
                       thr=('2d' if np.ndim(thr) else float(thr)), masked=mask is not None, forms=forms)
    for f in forms:
        case.note('form:' + f)
    case.digest = core.arr_digest(data, np.asarray(thr), mask, np.array([npix, conn])) + case.cls
    mech = {'cls': case.cls}

    if case.cls == 'threshold_fn':
        _threshold_fn(case, data, mask)
        return

    ref = ccl.detect_reference(data, thr, npix, conn, mask)
    with np.errstate(invalid='ignore'):
        above = (data.astype(np.float64) > np.asarray(thr, np.float64)) & (~mask if mask is not None else True)
    _, sizes = ccl.label_components(above, conn)
    case.nontrivial = len(sizes) >= 2 or any(s < npix for s in sizes)

    d_in, t_in, m_in = data.copy(), np.copy(thr), None if mask is None else mask.copy()
    kw = {}
    if case.cls == 'quantity':
        import astropy.units as u
        data_q = data * u.Jy
        thr_q = thr * u.Jy
    if case.cls == 'finder':
        fn = SourceFinder(npixels=npix, connectivity=conn, deblend=False, progress_bar=False)
        call = lambda: fn(data, thr, mask=mask)  # noqa: E731
    elif case.cls == 'quantity':
        call = lambda: detect_sources(data_q, thr_q, npix, connectivity=conn, mask=mask)  # noqa: E731
    else:
        call = lambda: detect_sources(data, thr, npix, connectivity=conn, mask=mask)  # noqa: E731
    if mask is not None and mask.all():
        # documented: "mask must not be True for every pixel" -> ValueError
        try:
            call()
            case.check(False, 'all_true_mask_rejected', mech, got='no exception')
        except ValueError as exc:
            case.check('mask must not be True for every pixel' in str(exc), 'all_true_mask_rejected', mech,
                       msg=str(exc)[:200])
        case.note('axis2:all_true_mask')
        return
    if mask is not None and not mask.any():
        case.note('axis2:all_false_mask')
    if data.dtype != np.float64:
        case.note('axis2:dtype:' + str(data.dtype))
    if max(data.shape) >= 40:
        case.note('axis2:elongated')
    with warnings.catch_warnings(record=True) as wlist:
        warnings.simplefilter('always')
        seg = call()
    nodet = any(issubclass(w.category, NoDetectionsWarning) for w in wlist)
    case.check((seg is None) == (ref is None), 'none_iff_no_component', mech,
               got_none=seg is None, ref_none=ref is None)
    case.check(nodet == (seg is None), 'warning_iff_none', mech, warned=nodet, none=seg is None)
    if seg is not None and ref is not None:
        _compare_segm(case, seg, ref, mech)
    # inputs untouched (cheap ride-along; C10 is the owner)
    case.check(core.exact(data, d_in) and core.exact(thr, t_in)
               and (mask is None or np.array_equal(mask, m_in)), 'inputs_unchanged', mech)
    # quantity mixing must be rejected
    if case.cls == 'quantity' and rng.random() < 0.5:
        try:
            detect_sources(data_q, thr, npix, connectivity=conn, mask=mask)
            case.check(False, 'mixed_units_rejected', mech)
        except ValueError:
            case.check(True, 'mixed_units_rejected', mech)


def _threshold_fn(case, data, mask):
    from photutils.segmentation import detect_threshold
    import astropy.units as u
    from astropy.stats import SigmaClip
    rng = case.rng
    shape = data.shape
    nsigma = float(rng.choice([0.0, 1.0, 2.5, 3.0]))
    form = int(rng.integers(0, 6))
    bkg = [None, float(rng.normal(10, 1)), rng.normal(10, 1, shape)][int(rng.integers(0, 3))]
    err = [None, float(rng.uniform(0.5, 3)), rng.uniform(0.5, 3, shape)][int(rng.integers(0, 3))]
    use_q = form == 5
    case.params.update(nsigma=nsigma, bkg=type(bkg).__name__, err=type(err).__name__, quantity=use_q)
    case.nontrivial = True
    mech = {'cls': case.cls, 'bkg': type(bkg).__name__, 'err': type(err).__name__, 'q': use_q}
    sc = SigmaClip(sigma=3.0, maxiters=10)
    if bkg is None or err is None:
        d = np.ma.MaskedArray(data, mask) if mask is not None else data
        clipped = sc(d, masked=False, return_bounds=False, copy=True)
        b = np.nanmean(clipped) if bkg is None else bkg
        e = np.nanstd(clipped) if err is None else err
    else:
        b, e = bkg, err
    exp = np.broadcast_to(b, shape) + nsigma * np.broadcast_to(e, shape)
    if use_q:
        obs = detect_threshold(data * u.Jy, nsigma, background=None if bkg is None else bkg * u.Jy,
                               error=None if err is None else err * u.Jy, mask=mask)
        case.check(getattr(obs, 'unit', None) == u.Jy, 'threshold_unit', mech)
        obs = np.asarray(obs.value) if hasattr(obs, 'value') else np.asarray(obs)
    else:
        obs = detect_threshold(data, nsigma, background=bkg, error=err, mask=mask)
    case.check(np.shape(obs) == shape, 'threshold_shape', mech)
    case.close(obs, exp, 'threshold_formula', rtol=1e-12, mech=mech)
