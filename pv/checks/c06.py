"""C06 Deblending only refines segments and is independent of worker scheduling.

Monitors
  * refinement monitors (pv.ref.c06_refine) on the result of the real
    deblend_sources(nproc=1): nonzero set, exact partition of every split parent,
    child sizes, untouched segments/labels, 1..N, contrast=1, the three deblend maps
    against the pixels, inputs unchanged (snapshot compare);
  * M5 (i) virtual pool (pv.ref.c06_sched.VirtualPool): every explored completion
    order with nproc>1 must be bit-identical (data, dtype, labels, maps, info) to nproc=1;
  * M5 (ii) real spawn pools with sleeps injected in the children (driver_legs);
  * SourceFinder(deblend=True) == detect_sources + deblend_sources.
"""
from __future__ import annotations

import json
import os
import subprocess
import tempfile
import time
import warnings
from concurrent.futures import ThreadPoolExecutor

import numpy as np

from pv import core
from pv.gen import c06_scenes as gen
from pv.ref import c06_refine as refine
from pv.ref import c06_sched as sched

ID = 'C06'
RULE = ('scenes of 1-12 blends of 2-4 elliptical Gaussians + isolated + sub-2*npixels sources (+ plateaus, '
        'saturated/quantised tops, non-positive minima, masks, NaN/inf, int/float32 data, F-order/strided/big-endian '
        'views, Quantity), segmented by the real detect_sources and optionally relabelled with gaps/permuted/merged '
        'labels or cast to another integer dtype; deblend_sources arguments drawn from nlevels 1..64, contrast '
        '{0,1e-3,0.1,0.5,1,log-uniform}, 3 modes, connectivity 4/8, relabel T/F, labels= in 9 representations. '
        'Each case: refinement oracle on nproc=1, then every chosen completion order (all n! for n<=4 tasks, else '
        'identity/reverse/rotation/4 seeded random) through the pickling virtual pool compared bit-for-bit with '
        'nproc=1. Class degenerate crosses every early-exit path (no candidate: all small / huge npixels / labels= '
        'subset of small sources / labels=[]; exactly one candidate; candidates that split into nothing: contrast~1, '
        'nlevels=1, flat sources; contrast=1; label-less image) with input labels consecutive / with holes / '
        'increasing / permuted / shifted and relabel T/F; 20 % of the other classes also get gapped labels. '
        'Independently of the class about half of the cases draw generic axes: data scale 2**-60..2**40 / '
        '1e-20..1e10, data and label arrays as F-order / strided / transposed / offset / big-endian views, float32 '
        'and integer data, 1 x k-cell and k x 1 images, 1xN and Nx1 images, numpy-scalar / 0-d / positional call '
        'forms of npixels nlevels contrast connectivity relabel mode nproc, 11 labels= forms. Every case makes a '
        'second call with another mode (nproc=1 and virtual pool) and then repeats the first call. '
        'non-trivial = at least one parent was split into >=2 children, or nothing was split but the input labels '
        'are not 1..N and contrast != 1 (the 1..N / label-kept clauses are then not vacuous); distinct by digest of '
        '(data, input label array, arguments)')
CLASSES = ['blend', 'sched_small', 'sched_many', 'flat', 'nonpos', 'subset', 'gaps', 'levels', 'contrast',
           'tiny', 'masked', 'hostile', 'dtype', 'merged', 'finder', 'redeblend', 'nmarkers', 'history', 'provenance', 'degenerate',
           'degenerate']    # listed twice on purpose: two slots of the round-robin
MUST_REACH = ['photutils.segmentation.deblend:deblend_sources',
              'photutils.segmentation.deblend:_deblend_source',
              'photutils.segmentation.deblend:_SingleSourceDeblender.deblend_source',
              'photutils.segmentation.deblend:_SingleSourceDeblender.make_markers',
              'photutils.segmentation.deblend:_SingleSourceDeblender.make_marker_segment',
              'photutils.segmentation.deblend:_SingleSourceDeblender.apply_watershed',
              'photutils.segmentation.deblend:_SingleSourceDeblender.compute_thresholds',
              'photutils.segmentation.deblend:_create_relabel_map',
              'photutils.segmentation.deblend:_update_deblend_label_map',
              'photutils.segmentation.finder:SourceFinder.__call__',
              'photutils.segmentation.detect:detect_sources']
ANCHOR_FILES = ['segmentation/deblend.py', 'segmentation/detect.py', 'segmentation/core.py',
                'segmentation/finder.py']
MIN_NONTRIVIAL = {'quick': 100, 'thorough': 2000}
ASSUMPTIONS = ['numpy/pickle are trusted; detect_sources (judged by C04) is only used to produce input label maps',
               'virtual pool = one in-process worker executing the pickled tasks in the chosen completion order; '
               'OS-level pool failures are not modelled',
               'completion orders are exhaustive only for <= 4 tasks; real pools give tens of observed orders',
               'scikit-image watershed and scipy.ndimage are part of the code under observation, not of the oracle']

REAL_SHARD = 1000          # pseudo shard number of the real-pool cases (makes them replayable through run_case)
HOOKS = os.path.join(os.path.dirname(os.path.dirname(os.path.dirname(os.path.abspath(__file__)))), 'hooks')


def plan(tier):
    if tier == 'thorough':
        return dict(shards=16, cases=6000, timeout=1500, budget_s=540)
    return dict(shards=6, cases=170, timeout=400, budget_s=34)


def selftest():
    refine.selftest()
    sched.selftest()


# ----------------------------------------------------------------------
# inputs
# ----------------------------------------------------------------------
def build_inputs(rng, cls):
    """Scene -> real detect_sources -> label manipulations -> arguments. None if nothing detected."""
    from photutils.segmentation import SegmentationImage, detect_sources
    sc = gen.make_scene(rng, cls)
    data = gen.apply_layout(sc['data'], sc['layout'])
    mask_before = None if sc['mask'] is None else sc['mask'].copy()
    with warnings.catch_warnings():
        warnings.simplefilter('ignore')
        seg0 = detect_sources(data, sc['thr'], sc['npix_det'], connectivity=sc['conn'], mask=sc['mask'])
    if seg0 is None:
        return None
    facts = dict(sc['flags'])
    if sc['mask'] is not None:
        facts['mask_untouched_by_detect'] = bool(np.array_equal(sc['mask'], mask_before))
    fresh = bool(rng.random() < 0.5)
    seg_layout = sc.get('seg_layout', 'C')
    if seg_layout != 'C' and not sc['post'] and facts.get('degenerate') != 'empty_image':
        facts['seg_layout'] = seg_layout
        seg = SegmentationImage(gen.apply_layout(seg0.data.copy(), seg_layout))
    elif facts.get('degenerate') == 'empty_image':
        seg = SegmentationImage(np.zeros_like(seg0.data))    # e.g. what remove_labels(all labels) leaves
    elif sc['post']:
        arr, pf = gen.apply_post(rng, seg0.data, sc['post'])
        facts.update(pf)
        if not arr.any():
            return None
        if seg_layout != 'C' and 'dtype' not in pf:
            facts['seg_layout'] = seg_layout
            arr = gen.apply_layout(arr, seg_layout)
        seg = SegmentationImage(arr)
    elif fresh:
        seg = SegmentationImage(seg0.data.copy())
    else:
        seg = seg0                                  # the object exactly as detect_sources made it
    # (x) provenance: the input object gets a history of public mutators and attribute reads
    if (sc.get('axes', {}).get('provenance') or cls == 'provenance') and cls not in ('dtype', 'merged') \
            and facts.get('degenerate') != 'empty_image':
        seg, hist = _with_history(rng, seg)
        facts['history'] = hist
        if seg.nlabels == 0:
            return None
    kw = dict(sc['kw'])
    labs = np.asarray(seg.labels)
    areas = np.array([int(np.count_nonzero(seg.data == v)) for v in labs])
    labels_arg, req = gen.draw_labels(rng, sc['labels'], labs, areas, kw['npixels'])
    labels_kind = sc['labels']
    if 'degenerate' in facts:
        kw, larg, lreq = gen.degenerate_args(rng, facts['degenerate'], labs, areas, kw)
        if not isinstance(larg, str):
            labels_arg, req, labels_kind = larg, lreq, 'degenerate:' + type(larg).__name__
    quantity = bool(rng.random() < 0.06) and data.dtype.kind == 'f'
    return dict(data=data, seg=seg, kw=kw, labels_arg=labels_arg, requested=req, conn=sc['conn'],
                thr=sc['thr'], mask=sc['mask'], npix_det=sc['npix_det'], facts=facts,
                labels_kind=labels_kind, layout=sc['layout'], quantity=quantity, forms=sc.get('forms'),
                axes=sc.get('axes', {}),
                n_eligible=int(np.count_nonzero(areas[np.isin(labs, req)] >= 2 * kw['npixels'])),
                areas=dict(zip(labs.tolist(), areas.tolist())))


_READS = ['labels', 'nlabels', 'max_label', 'slices', 'areas', 'bbox', 'is_consecutive', 'missing_labels',
          'background_area', 'data_ma', 'deblended_labels', 'deblended_labels_map', 'shape']


def _with_history(rng, seg):
    """Public mutators + attribute reads on the input object (all documented API, all valid arguments).
    Only label-preserving-connectivity operations: nothing is merged, so every segment stays connected."""
    from photutils.segmentation import SegmentationImage
    if not isinstance(seg, SegmentationImage):
        raise TypeError('harness')
    log = []

    def read():
        for a in rng.choice(_READS, size=int(rng.integers(0, 5)), replace=False):
            getattr(seg, str(a))
            log.append('read:' + str(a))

    nsteps = int(rng.integers(1, 4))
    for step in range(nsteps):
        read()
        labs = np.asarray(seg.labels)
        n = labs.size
        if n == 0:
            break
        mx = int(labs.max())
        ops = ['relabel_consecutive'] * 4 + ['reassign_label', 'reassign_labels', 'keep_labels', 'remove_labels',
                                               'keep_label', 'remove_label', 'copy', 'data_setter']
        op = str(rng.choice(ops))
        rel = bool(rng.random() < 0.3)
        if op == 'relabel_consecutive':
            k = int(rng.choice([1, 2, 3, n, n + 1, mx + 1, mx, int(rng.integers(2, 2 * n + 4))]))
            k = max(1, k)
            form = int(rng.integers(0, 3))
            if form == 0:
                seg.relabel_consecutive(start_label=k)
            elif form == 1:
                seg.relabel_consecutive(k)
            else:
                seg.relabel_consecutive(start_label=np.int64(k))
            log.append('relabel_consecutive(%d)' % k)
        elif op in ('reassign_label', 'reassign_labels'):
            lab = int(rng.choice(labs))
            free = sorted(set(range(1, mx + 6)) - set(labs.tolist()))
            new = int(rng.choice(free))
            if op == 'reassign_label':
                seg.reassign_label(lab, new, relabel=rel)
            else:
                seg.reassign_labels([lab], new, relabel=rel)
            log.append('%s(%d->%d,relabel=%s)' % (op, lab, new, rel))
        elif op in ('keep_labels', 'remove_labels') and n >= 2:
            k = int(rng.integers(1, n))
            sub = [int(v) for v in rng.choice(labs, size=k, replace=False)]
            getattr(seg, op)(sub, relabel=rel)
            log.append('%s(%d of %d,relabel=%s)' % (op, k, n, rel))
        elif op in ('keep_label', 'remove_label') and n >= 2:
            lab = int(rng.choice(labs))
            getattr(seg, op)(lab, relabel=rel)
            log.append('%s(%d,relabel=%s)' % (op, lab, rel))
        elif op == 'copy':
            seg = seg.copy()
            log.append('copy')
        elif op == 'data_setter':
            seg.data = seg.data.copy()
            log.append('data_setter')
    read()
    return seg, log


def _call(b, nproc, data=None, seg=None, kw=None):
    from photutils.segmentation import deblend_sources
    data = b['data_arg'] if data is None else data
    pos, kwargs = gen.apply_forms(b['kw'] if kw is None else kw, b['conn'], b.get('forms'))
    if b.get('forms') and b['forms']['nproc'] == 'np.int64' and nproc is not None:
        nproc = np.int64(nproc)
    args = (data, b['seg'] if seg is None else seg) + (() if pos is None else (pos,))
    return deblend_sources(*args, labels=b['labels_arg'], nproc=nproc, progress_bar=False, **kwargs)


def _input_state(b):
    seg = b['seg']
    st = {'seg': sched.snapshot(seg), 'data': sched._arr(b['data'])}
    la = b['labels_arg']
    st['labels_arg'] = None if la is None else (type(la).__name__, repr(la) if not isinstance(la, np.ndarray)
                                                else sched._arr(la))
    return st


def _would_overflow(b):
    """Structural fact for the mechanism key: can the new child labels be represented in the
    dtype of the input label array? (number of new labels learnt from an int64 copy)"""
    from photutils.segmentation import SegmentationImage
    seg = b['seg']
    dt = seg.data.dtype
    if dt.itemsize >= 8 or b['kw']['contrast'] == 1:
        return False
    try:
        ref = _call(b, 1, seg=SegmentationImage(seg.data.astype(np.int64)))
    except Exception:  # noqa: BLE001 - only used to describe the mechanism, never a verdict
        return None
    n_new = int(sum(len(v) for v in ref.deblended_labels_inverse_map.values()))
    # relabel=True additionally builds a look-up table of length max_label + 1 in that dtype
    need = int(seg.data.max()) + n_new + (1 if b['kw']['relabel'] else 0)
    return bool(need > np.iinfo(dt).max)


# ----------------------------------------------------------------------
# one case
# ----------------------------------------------------------------------
def run_case(case):
    if case.shard >= REAL_SHARD:
        return _realpool_case(case, tempfile.mkdtemp(prefix='pv_c06_'))
    import astropy.units as u
    rng = case.rng
    b = build_inputs(rng, case.cls)
    if b is None:
        case.skip('no sources detected')
    seg, kw = b['seg'], b['kw']
    b['data_arg'] = b['data'] * u.Jy if b['quantity'] else b['data']
    S = seg.data.copy()
    case.params = dict(shape=list(S.shape), n_labels=int(seg.nlabels), conn=b['conn'], labels=b['labels_kind'],
                       seg_dtype=str(S.dtype), data_dtype=str(b['data'].dtype), layout=b['layout'],
                       forms=b.get('forms'),
                       quantity=b['quantity'], n_eligible=b['n_eligible'], **kw, **b['facts'])
    case.digest = core.arr_digest(np.asarray(b['data']), S, np.array(b['requested'], dtype=np.int64)) \
        + core.digest([kw, b['conn'], b['labels_kind']])
    mech = {'cls': case.cls, 'relabel': kw['relabel'], 'seg_dtype': str(S.dtype)}
    if b['labels_kind']:
        mech['labels_arg'] = b['labels_kind']
    for k in ('hostile_kind', 'nonpos_kind', 'flat_kind', 'degenerate'):
        if k in b['facts']:
            mech[k] = b['facts'][k]
    # degenerate control-flow paths x output-normalisation situations actually hit (evidence counters)
    labs_in = [int(v) for v in np.asarray(seg.labels).tolist()]
    consecutive = labs_in == list(range(1, len(labs_in) + 1))
    ncand = b['n_eligible']
    if ncand <= 1 and kw['contrast'] != 1:
        tag = 'cases_%d_candidate%s' % (ncand, '' if ncand == 1 else 's')
        case.note(tag)
        case.note('%s_%s_relabel_%s' % (tag, 'consecutive_in' if consecutive else 'nonconsecutive_in',
                                        kw['relabel']))
    if case.cls == 'dtype':
        mech['label_overflow'] = _would_overflow(b)
    before = _input_state(b)

    # ---- nproc = 1 : the reference execution --------------------------------------------
    try:
        out1 = _call(b, 1)
    except ValueError as exc:
        if case.cls == 'merged' and 'Deblending failed for source' in str(exc):
            # documented: a parent that is not connected under `connectivity` is rejected
            case.note('merged_rejected_as_documented')
            case.check(_input_state(b) == before, 'inputs_unchanged', mech)
            return
        if case.cls not in ('dtype', 'degenerate') or core.exc_location(exc) is None:
            raise
        out1 = exc
    except (IndexError, TypeError, OverflowError) as exc:
        if case.cls not in ('dtype', 'degenerate') or core.exc_location(exc) is None:
            raise
        out1 = exc
    if isinstance(out1, Exception):
        # the library raised on a valid input: a violation like any other 'raised', but recorded here so
        # that its mechanism carries the structural facts (seg_dtype, label_overflow, degenerate kind)
        case.check(False, 'raised', dict(mech, **core.exc_mech(out1)), msg=str(out1)[:300])
        case.check(_input_state(b) == before, 'inputs_unchanged', mech)
        return
    c1 = kw['contrast'] == 1
    rep, facts = refine.refine_report(
        S, out1.data, b['requested'], kw['npixels'], kw['relabel'], contrast_is_one=c1,
        inv_map=out1.deblended_labels_inverse_map, dl=out1.deblended_labels,
        dl_map=out1.deblended_labels_map, out_labels=out1.labels)
    for what, ok, detail in rep:
        case.check(ok, what, mech, **detail)
    case.nontrivial = facts.get('n_split', 0) >= 1 or (not consecutive and not c1 and len(labs_in) > 0)
    if facts.get('n_split', 0) == 0 and ncand >= 1 and not c1:
        case.note('cases_candidates_but_no_split')
        case.note('cases_candidates_but_no_split_%s_relabel_%s'
                  % ('consecutive_in' if consecutive else 'nonconsecutive_in', kw['relabel']))
    case.note('parents_split', facts.get('n_split', 0))
    case.note('children', facts.get('n_children', 0))
    after = _input_state(b)
    bad = [k for k in before if before[k] != after[k]]
    case.check(not bad, 'inputs_unchanged', mech, changed=bad,
               seg_fields=sched.diff_snapshots(before['seg'], after['seg']))
    info = getattr(out1, 'info', None)
    if info:
        for k in info.get('warnings', {}):
            case.note('info_' + k)
    snap1 = sched.snapshot(out1)

    # ---- M5 (i): virtual pool, chosen completion orders ---------------------------------
    n_sched = _schedules(case, b, snap1, mech)

    # ---- every case: a second call with another mode in the same process, then the first again ----
    if case.cls != 'dtype':
        _second_mode(case, b, S, snap1, mech)
        _generic_relations(case, b, S, snap1, mech)
    for k, v in b['axes'].items():
        if k == 'forms':
            for a, f in v.items():
                if f not in ('int', 'float', 'bool', 'str'):
                    case.note('axis_form_%s=%s' % (a, f))
        elif k == 'scale':
            if 'scale' in b['facts']:
                case.note('axis_scale_%s' % v[0])
                case.dev('axis_log10_scale_max', np.log10(b['facts']['scale']))
                case.dev('axis_log10_scale_min_neg', -np.log10(b['facts']['scale']))
        elif k == 'seg_layout':
            if 'seg_layout' in b['facts']:
                case.note('axis_seg_layout=%s' % v)
        elif k == 'data_dtype':
            if 'data_dtype_axis' in b['facts']:
                case.note('axis_data_dtype=%s' % b['facts']['data_dtype_axis'])
        elif k == 'labels_form':
            if b['labels_kind'] == v:
                case.note('axis_labels_form=%s' % v)
        else:
            case.note('axis_%s=%s' % (k, v))
    if not b['axes']:
        case.note('axis_plain_case')
    f = b['facts']
    if 'history' in f:
        case.note('axis2_provenance_cases')
        for h in f['history']:
            if not h.startswith('read:'):
                case.note('axis2_provenance_op=%s' % h.split('(')[0])
        if f['history'] and f['history'][-1].startswith('read:'):
            case.note('axis2_provenance_attr_read_after_last_op')
    if 'edge' in f:
        case.note('axis2_edge=%s' % f['edge'])
    if 'parity' in b['axes']:
        case.note('axis2_parity=%s' % b['axes']['parity'])
    if f.get('data_dtype_axis') in ('float16', 'uint8', 'uint32', 'uint64', 'int16'):
        case.note('axis2_dtype_kind=%s' % f['data_dtype_axis'])
    if f.get('allfalse_mask'):
        case.note('axis2_allfalse_mask')
    if 'mask_untouched_by_detect' in f:
        case.check(f['mask_untouched_by_detect'], 'mask_unchanged', dict(mech, op='detect_sources'))

    # ---- class specific relations --------------------------------------------------------
    if case.cls == 'finder':
        _finder(case, b, mech)
    if case.cls == 'redeblend' and not c1:
        _redeblend(case, b, out1, mech)
    # earlier calls must not leak into later ones: same shape / labels / arguments, different pixels
    # (mirror image), then the first input again
    if case.cls == 'history' or (case.cls != 'dtype' and rng.random() < 0.15):
        _history(case, b, S, snap1, mech)
    case.params['n_split'] = facts.get('n_split', 0)
    case.params['n_schedules'] = n_sched


def _schedules(case, b, snap1, mech, full_upto=4):
    rng = case.rng
    nproc = [2, 3, 4, 8, None][int(rng.integers(0, 5))] if rng.random() < 0.9 else 2
    orders_done = []
    n = None
    k = 0
    order = None
    while True:
        vp = sched.VirtualPool(order=order, lazy_pickle=(k % 2 == 1))
        with vp:
            try:
                out = _call(b, nproc)
                exc = None
            except Exception as e:  # noqa: BLE001 - serial succeeded: raising here is schedule/nproc dependence
                if core.exc_location(e) is None:
                    raise
                out, exc = None, e
        if exc is not None:
            case.check(False, 'sched_raised', dict(mech, leg='virtual', **core.exc_mech(exc)),
                       order=order, msg=str(exc)[:300])
            break
        if vp.n_pools == 0:
            # contrast == 1 returns before any pool is made
            case.note('virtual_no_pool')
            d = sched.diff_snapshots(snap1, sched.snapshot(out))
            case.check(not d, 'sched_identical', dict(mech, leg='virtual', field=(d[0] if d else None)), fields=d)
            break
        if n is None:
            n = vp.n_tasks if vp.n_tasks is not None else 0
            todo = sched.orders_for(n, rng, n_random=4, full_upto=full_upto)[1:]
            if case.cls == 'nmarkers':
                todo = todo[:2]            # ~1 s per execution: identity + two more orders
            case.note('n_tasks=%s' % (n if n <= 12 else '13+'))
            case.check(vp.executor_kwargs is not None, 'pool_constructed', mech)
        orders_done.append(tuple(vp.applied or ()))
        k += 1
        d = sched.diff_snapshots(snap1, sched.snapshot(out))
        case.check(not d, 'sched_identical', dict(mech, leg='virtual', field=(d[0] if d else None)),
                   fields=d, order=vp.applied, n_tasks=n, nproc=nproc)
        if d or not todo:
            break
        order = todo.pop(0)
    case.note('schedules_applied', k)
    case.note('distinct_orders', len(set(orders_done)))
    if n is not None and 2 <= n <= full_upto and k:
        case.note('cases_all_orders_enumerated')
    return k


def _finder(case, b, mech):
    from photutils.segmentation import SourceFinder, detect_sources
    kw = b['kw']
    rng = case.rng
    npix = (b['npix_det'], kw['npixels'])
    if npix[0] == npix[1] and rng.random() < 0.5:
        npix = npix[0]
    common = dict(connectivity=b['conn'], nlevels=kw['nlevels'], contrast=kw['contrast'], mode=kw['mode'],
                  relabel=kw['relabel'], progress_bar=False)
    data = b['data_arg']
    thr = b['thr'] * data.unit if hasattr(data, 'unit') else b['thr']
    mask0 = None if b['mask'] is None else b['mask'].copy()
    manual_seg = detect_sources(data, thr, b['npix_det'], connectivity=b['conn'], mask=b['mask'])
    from photutils.segmentation import deblend_sources
    manual = deblend_sources(data, manual_seg, kw['npixels'], nproc=1, **common)
    got = SourceFinder(npix, deblend=True, nproc=1, **common)(data, thr, mask=b['mask'])
    d = sched.diff_snapshots(sched.snapshot(manual), sched.snapshot(got))
    case.check(not d, 'finder_equals_detect_plus_deblend', dict(mech, field=(d[0] if d else None)), fields=d)
    order = None
    with sched.VirtualPool(order=None) as vp0:
        SourceFinder(npix, deblend=True, nproc=2, **common)(data, thr, mask=b['mask'])
    n = vp0.n_tasks or 0
    if n >= 2:
        order = [int(v) for v in rng.permutation(n)]
    with sched.VirtualPool(order=order):
        got2 = SourceFinder(npix, deblend=True, nproc=3, **common)(data, thr, mask=b['mask'])
    d = sched.diff_snapshots(sched.snapshot(manual), sched.snapshot(got2))
    case.check(not d, 'finder_sched_identical', dict(mech, leg='virtual', field=(d[0] if d else None)),
               fields=d, order=order)
    nod = SourceFinder(npix, deblend=False, **common)(data, thr, mask=b['mask'])
    case.check(np.array_equal(nod.data, manual_seg.data), 'finder_nodeblend_equals_detect', mech)
    if b['mask'] is not None:
        case.check(np.array_equal(b['mask'], mask0), 'mask_unchanged', dict(mech, op='SourceFinder'))
    case.note('schedules_applied', 2)


def _judge(case, S, out, b, kw, mech):
    rep, facts = refine.refine_report(
        S, out.data, b['requested'], kw['npixels'], kw['relabel'], contrast_is_one=(kw['contrast'] == 1),
        inv_map=out.deblended_labels_inverse_map, dl=out.deblended_labels,
        dl_map=out.deblended_labels_map, out_labels=out.labels)
    for what, ok, detail in rep:
        case.check(ok, what, mech, **detail)
    return facts


def _second_mode(case, b, S, snap1, mech):
    """Process-local state carried from one call to the next: call B (another mode, same input) under
    nproc=1 and under the virtual pool, then call A again under both; B is judged by the refinement
    oracle, A must reproduce the first result bit for bit."""
    rng = case.rng
    kw = b['kw']
    others = [m for m in gen.MODES if m != kw['mode']]
    kw2 = dict(kw, mode=others[int(rng.integers(0, 2))])
    b2 = dict(b, kw=kw2)
    m2 = dict(mech, stage='mode2')
    heavy = case.cls == 'nmarkers'
    try:
        outB = _call(b2, 1)
    except ValueError as exc:
        if case.cls == 'merged' and 'Deblending failed for source' in str(exc):
            case.note('merged_rejected_as_documented')
            return
        raise
    _judge(case, S, outB, b, kw2, m2)
    snapB = sched.snapshot(outB)
    case.note('second_mode_sequences')
    nproc = [2, 3, 4, 8][int(rng.integers(0, 4))]
    if not heavy:
        with sched.VirtualPool(order=None) as vp:
            o = _call(b2, nproc)
        d = sched.diff_snapshots(snapB, sched.snapshot(o))
        case.check(not d, 'sched_identical', dict(m2, leg='virtual', field=(d[0] if d else None)), fields=d)
        case.note('schedules_applied')
        n = vp.n_tasks or 0
        if n >= 2:
            order = [int(v) for v in rng.permutation(n)]
            with sched.VirtualPool(order=order, lazy_pickle=True):
                o = _call(b2, nproc)
            d = sched.diff_snapshots(snapB, sched.snapshot(o))
            case.check(not d, 'sched_identical', dict(m2, leg='virtual', field=(d[0] if d else None)),
                       fields=d, order=order)
            case.note('schedules_applied')
    # back to the first mode: nothing of call B may be left behind
    d = sched.diff_snapshots(snap1, sched.snapshot(_call(b, 1)))
    case.check(not d, 'serial_repeatable', dict(mech, field=(d[0] if d else None), after='mode2'), fields=d)
    if not heavy:
        with sched.VirtualPool(order=None) as vp:
            o = _call(b, nproc)
        n = vp.n_tasks or 0
        order = None
        if n >= 2:
            order = [int(v) for v in rng.permutation(n)]
            with sched.VirtualPool(order=order):
                o = _call(b, nproc)
        d = sched.diff_snapshots(snap1, sched.snapshot(o))
        case.check(not d, 'sched_identical', dict(mech, leg='virtual', field=(d[0] if d else None), after='mode2'),
                   fields=d, order=order)
        case.note('schedules_applied')


def _generic_relations(case, b, S, snap1, mech):
    from photutils.segmentation import SegmentationImage
    facts = b['facts']
    data = np.asarray(b['data'])
    # (i) magnitude: a power-of-two factor is exact in IEEE arithmetic and every threshold spacing is
    # defined relative to the source minimum / maximum (linear, exponential: min*(max/min)**t, sinh), so the
    # unscaled image must give the bit-identical result
    if facts.get('scale_kind') == 'pow2' and data.dtype.kind == 'f' and facts['scale'] != 1.0:
        f = facts['scale']
        un = data / f
        tiny = np.finfo(un.dtype).tiny
        nz = un[un != 0]
        ok = bool(np.all(un * f == data)) and (nz.size == 0 or float(np.min(np.abs(nz))) > tiny * 2.0 ** 30) \
            and float(np.max(np.abs(data))) < np.finfo(un.dtype).max / 2.0 ** 30
        if ok:
            import astropy.units as u
            arg = un * u.Jy if b['quantity'] else un
            d = sched.diff_snapshots(snap1, sched.snapshot(_call(b, 1, data=arg)))
            case.check(not d, 'scale_pow2_identical', dict(mech, field=(d[0] if d else None)), fields=d,
                       log2_scale=float(np.log2(f)))
            case.note('relation_scale_pow2')
        else:
            case.note('relation_scale_pow2_skipped_inexact')
    # (iii) layout: plain C-contiguous native copies of both arrays must give the same values
    if b['layout'] != 'C' or 'seg_layout' in facts:
        dc = np.ascontiguousarray(data).astype(data.dtype.newbyteorder('='))
        sc_ = np.ascontiguousarray(S).astype(S.dtype.newbyteorder('='))
        import astropy.units as u
        arg = dc * u.Jy if b['quantity'] else dc
        oc = _call(b, 1, data=arg, seg=SegmentationImage(sc_))
        vs1 = sched.value_snapshot(_call(b, 1))
        d = sched.diff_snapshots(vs1, sched.value_snapshot(oc))
        case.check(not d, 'layout_identical', dict(mech, field=(d[0] if d else None)), fields=d,
                   data_layout=b['layout'], seg_layout=facts.get('seg_layout'))
        case.note('relation_layout')


def _history(case, b, S, snap1, mech):
    from photutils.segmentation import SegmentationImage
    kw = b['kw']
    m2 = dict(mech, stage='mirror')
    Sf = np.ascontiguousarray(S[:, ::-1])
    datf = np.ascontiguousarray(np.asarray(b['data'])[:, ::-1])
    bf = dict(b, seg=SegmentationImage(Sf.copy()), data=datf, data_arg=datf)
    try:
        outf = _call(bf, 1)
    except ValueError as exc:
        if case.cls == 'merged' and 'Deblending failed for source' in str(exc):
            return
        raise
    rep, facts = refine.refine_report(
        Sf, outf.data, b['requested'], kw['npixels'], kw['relabel'], contrast_is_one=(kw['contrast'] == 1),
        inv_map=outf.deblended_labels_inverse_map, dl=outf.deblended_labels,
        dl_map=outf.deblended_labels_map, out_labels=outf.labels)
    for what, ok, detail in rep:
        case.check(ok, what, m2, **detail)
    snapf = sched.snapshot(outf)
    with sched.VirtualPool(order=None) as vp:
        o2 = _call(bf, 3)
    d = sched.diff_snapshots(snapf, sched.snapshot(o2))
    case.check(not d, 'sched_identical', dict(m2, leg='virtual', field=(d[0] if d else None)), fields=d, order=None)
    case.note('schedules_applied')
    n = vp.n_tasks or 0                      # observed, not predicted (labels= may hold duplicates)
    if n >= 2:
        order = [int(v) for v in case.rng.permutation(n)]
        with sched.VirtualPool(order=order, lazy_pickle=True):
            o3 = _call(bf, 2)
        d = sched.diff_snapshots(snapf, sched.snapshot(o3))
        case.check(not d, 'sched_identical', dict(m2, leg='virtual', field=(d[0] if d else None)), fields=d,
                   order=order)
        case.note('schedules_applied')
    again = sched.snapshot(_call(b, 1))
    d = sched.diff_snapshots(snap1, again)
    case.check(not d, 'serial_repeatable', dict(mech, field=(d[0] if d else None)), fields=d)
    case.note('history_sequences')


def _redeblend(case, b, out1, mech):
    """Deblend the deblended image again (input carries a parent->children map of its own)."""
    kw = dict(b['kw'])
    kw['contrast'] = 0.0
    kw['npixels'] = max(1, kw['npixels'] // 2)
    S2 = out1.data.copy()
    before = sched.snapshot(out1)
    b2 = dict(b, seg=out1, kw=kw, labels_arg=None)
    out2 = _call(b2, 1)
    rep, facts = refine.refine_report(
        S2, out2.data, None, kw['npixels'], kw['relabel'],
        inv_map=out2.deblended_labels_inverse_map, dl=out2.deblended_labels,
        dl_map=out2.deblended_labels_map, out_labels=out2.labels)
    m2 = dict(mech, stage='second')
    for what, ok, detail in rep:
        case.check(ok, what, m2, **detail)
    d = sched.diff_snapshots(before, sched.snapshot(out1))
    case.check(not d, 'inputs_unchanged', m2, seg_fields=d)
    snap2 = sched.snapshot(out2)
    with sched.VirtualPool(order=None) as vp0:
        _call(b2, 2)
    n = vp0.n_tasks or 0
    order = [int(v) for v in case.rng.permutation(n)] if n >= 2 else None
    with sched.VirtualPool(order=order):
        o3 = _call(b2, 4)
    d = sched.diff_snapshots(snap2, sched.snapshot(o3))
    case.check(not d, 'sched_identical', dict(m2, leg='virtual', field=(d[0] if d else None)), fields=d, order=order)
    case.note('schedules_applied', 2)
    case.note('second_stage_split', facts.get('n_split', 0))


# ----------------------------------------------------------------------
# M5 (ii): real spawn pools, sleeps injected in the children
# ----------------------------------------------------------------------
_REAL_SCENES = ['sched_many', 'sched_many', 'blend', 'gaps', 'sched_many', 'nonpos', 'subset', 'sched_many']
_REAL_NPROCS = [[2], [4], [3], [8], [2, 4], [None], [8, 3], [4]]


def _realpool_env(log, seed):
    from pv.run import worker_env
    env = worker_env()
    env['PYTHONPATH'] = HOOKS + os.pathsep + env['PYTHONPATH']
    env['PV_DEBLEND_DELAY_LOG'] = log
    env['PV_DEBLEND_DELAY_SEED'] = str(seed)
    env['PV_DEBLEND_DELAY_MAX_MS'] = '30'
    return env


def _realpool_case(case, tmpdir, timeout=240):
    """One subprocess: nproc=1 vs true spawn pool(s) on one scene. Fills `case`; returns a dict
    of observations for the leg's coverage block."""
    k = case.idx
    cls_scene = _REAL_SCENES[k % len(_REAL_SCENES)]
    nprocs = _REAL_NPROCS[(k // 2 + k) % len(_REAL_NPROCS)]
    case.cls = 'realpool'
    case.params = dict(scene=cls_scene, nprocs=nprocs)
    tag = f'real_{case.seed}_{k}'
    spec = os.path.join(tmpdir, tag + '.spec.json')
    outp = os.path.join(tmpdir, tag + '.out.json')
    log = os.path.join(tmpdir, tag + '.childlog')
    with open(spec, 'w') as f:
        json.dump(dict(pid=ID, seed=case.seed, shard=case.shard, idx=k, cls=cls_scene, nprocs=nprocs), f)
    obs = {'timeout': False, 'orders': [], 'pids': [], 'ran': False}
    from pv.run import PY, VERIF
    t0 = time.time()
    try:
        p = subprocess.run([PY, '-m', 'pv.ref.c06_sched', spec, outp], cwd=VERIF,
                           env=_realpool_env(log, case.seed * 1000 + k), timeout=timeout,
                           capture_output=True, text=True)
    except subprocess.TimeoutExpired:
        obs['timeout'] = True
        case.skipped = 'real pool run timed out (inconclusive)'
        return obs
    obs['wall_s'] = round(time.time() - t0, 2)
    if p.returncode != 0 or not os.path.exists(outp):
        case.error = 'real-pool subprocess failed: ' + (p.stderr or '')[-1500:]
        return obs
    with open(outp) as f:
        res = json.load(f)
    if not res.get('built'):
        case.skipped = 'no sources detected'
        return obs
    obs['ran'] = True
    lines = []
    if os.path.exists(log):
        with open(log) as f:
            lines = [ln.split() for ln in f if len(ln.split()) == 4]
    obs['child_calls'] = len(lines)
    obs['pids'] = sorted({ln[0] for ln in lines})
    case.params.update(n_labels=res['n_labels'], n_split=res['ref_nsplit'])
    case.nontrivial = res['ref_nsplit'] >= 1
    case.digest = core.digest(['realpool', case.seed, k])
    d = res.get('serial_again_diff')
    if d is not None:
        case.check(not d, 'serial_repeatable', {'cls': 'realpool', 'leg': 'real', 'after': 'mode2',
                                                 'field': (d[0] if d else None)}, fields=d)
    for run in res['runs']:
        mech = {'cls': 'realpool', 'leg': 'real', 'call': run.get('call', 'A')}
        if run['raised'] is not None:
            case.check(False, 'sched_raised', dict(mech, exc=run['raised']['exc'], at=run['raised']['at']),
                       nproc=run['nproc'], msg=run['raised'].get('msg'))
            continue
        d = run['diff']
        case.check(not d, 'sched_identical', dict(mech, field=(d[0] if d else None)), fields=d,
                   nproc=run['nproc'], consumed=run['consumed'])
        case.check(run['input_unchanged'], 'inputs_unchanged', mech)
        case.check(sorted(run['consumed']) == list(range(run['n_tasks'])), 'every_future_consumed_once', mech,
                   consumed=run['consumed'], n_tasks=run['n_tasks'])
        obs['orders'].append(run['consumed'])
        case.note('real_pool_runs')
        case.note('real_tasks', run['n_tasks'])
        if run['consumed'] != sorted(run['consumed']):
            case.note('real_out_of_order_runs')
    case.note('real_child_calls_logged', len(lines))
    case.note('real_worker_pids', len(obs['pids']))
    return obs


def driver_legs(tier, seed, tmpdir, only=None):
    n = 2 if tier == 'quick' else 48
    par = 2 if tier == 'quick' else 5
    cases = [core.Case(ID, tier, seed, REAL_SHARD, k, 'realpool') for k in range(n)]

    def one(c):
        try:
            return _realpool_case(c, tmpdir)
        except Exception:  # noqa: BLE001
            import traceback
            c.error = traceback.format_exc()[-2000:]
            return {'timeout': False, 'orders': [], 'pids': [], 'ran': False}

    t0 = time.time()
    with ThreadPoolExecutor(max_workers=par) as ex:
        obs = list(ex.map(one, cases))
    recs = []
    for c in cases:
        r = c.to_record()
        r['kind'] = 'case'
        recs.append(r)
    orders = [tuple(o) for ob in obs for o in ob['orders']]
    inconc = []
    nt = sum(1 for ob in obs if ob['timeout'])
    if nt:
        inconc.append(f'{nt} real-pool run(s) timed out')
    ran = sum(1 for ob in obs if ob['ran'])
    if ran == 0:
        inconc.append('no real-pool run completed')
    if ran and not any(ob.get('child_calls') for ob in obs):
        inconc.append('delay hook logged no child call (sitecustomize not active in spawned workers)')
    cov = {
        'subprocesses': n, 'completed': ran, 'timeouts': nt,
        'pool_runs': len(orders),
        'distinct_completion_orders_observed': len(set(orders)),
        'out_of_order_runs': sum(1 for o in orders if list(o) != sorted(o)),
        'tasks_per_run': [len(o) for o in orders][:60],
        'worker_pids_per_subprocess': [len(ob['pids']) for ob in obs][:60],
        'child_calls_logged': sum(ob.get('child_calls', 0) for ob in obs),
        'sample_orders': [list(o) for o in orders[:4]],
        'wall_s': round(time.time() - t0, 1),
    }
    return recs, {'real_pools': {'coverage': cov, 'inconclusive': inconc}}
