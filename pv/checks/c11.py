"""C11 Background2D maps are full-size, finite, mask-blind and equivariant.

M1  reference model of the low-resolution statistics (pv.ref.c11_bkg): harness partition
    into boxes, the user's SigmaClip on each box's good-pixel vector, the chosen estimator
    on that vector, documented exclusion rule in exact arithmetic, IDW fill, median filter,
    zoom / IDW upscaling - compared with background_mesh, background_rms_mesh,
    npixels_mesh, npixels_map, background, background_rms, the medians.
M2  relations on the real code: mask-blindness (garbage under mask / coverage_mask),
    constant image, +c, x k, range of the clipped-spline map.
CFG every worker runs in one bottleneck configuration (even shards: importable, odd shards:
    sys.modules['bottleneck'] = None before photutils is imported) and owns a helper process
    in the opposite configuration; every case is computed in both and compared.
"""
from __future__ import annotations

import os
import pickle
import struct
import subprocess
import sys

import numpy as np

from pv import core
from pv.gen import c11_scenes as scenes
from pv.ref import c11_bkg as ref

ID = 'C11'
RULE = ('random images 3x3..70x70 per generator class (box sizes dividing / padding a row / a column / both '
        '(corner box) / equal to the image / larger than half an axis / 1-pixel boxes; masks incl. whole boxes, '
        'coverage masks, NaN/inf, exact exclude_percentile boundary fractions, outliers (clipping active), tied '
        'integer-valued data, float32 / integer input, both interpolators with parameters, filter sizes 1/3/5/tuples '
        'and thresholds below/above/between/equal to mesh values, constant images, every estimator pair, SigmaClip '
        'variants); each case is evaluated in the worker configuration and by a helper process in the opposite '
        'bottleneck configuration. non-trivial = the reference includes >= 1 box and (the mesh has >= 2 boxes or '
        '>= 1 pixel is masked, non-finite or clipped); distinct by digest of (data, masks, parameters)')
CLASSES = list(scenes.CLASSES)
MUST_REACH = ['photutils.background.background_2d:Background2D._calculate_stats',
              'photutils.background.background_2d:Background2D._compute_box_statistics',
              'photutils.background.background_2d:Background2D._combine_all_masks',
              'photutils.background.background_2d:Background2D._interpolate_grid',
              'photutils.background.background_2d:Background2D._filter_grid',
              'photutils.background.background_2d:Background2D._selective_filter',
              'photutils.background.background_2d:Background2D._calculate_image',
              'photutils.background.interpolators:BkgZoomInterpolator.__call__',
              'photutils.background.interpolators:BkgIDWInterpolator.__call__',
              'photutils.utils.interpolation:ShepardIDWInterpolator.__call__',
              'photutils.background.core:SExtractorBackground.calc_background',
              'photutils.background.core:MeanBackground.calc_background',
              'photutils.background.core:MedianBackground.calc_background',
              'photutils.background.core:ModeEstimatorBackground.calc_background',
              'photutils.background.core:BiweightLocationBackground.calc_background',
              'photutils.background.core:StdBackgroundRMS.calc_background_rms',
              'photutils.background.core:MADStdBackgroundRMS.calc_background_rms',
              'photutils.background.core:BiweightScaleBackgroundRMS.calc_background_rms',
              'photutils.extern.biweight:biweight_location',
              'photutils.extern.biweight:biweight_scale']
ANCHOR_FILES = ['background/background_2d.py', 'background/core.py', 'background/interpolators.py',
                'utils/_stats.py', 'utils/interpolation.py', 'extern/biweight.py']
MIN_NONTRIVIAL = {'quick': 300, 'thorough': 6000}
ASSUMPTIONS = [
    'numpy, scipy.ndimage.zoom and astropy.stats.SigmaClip are trusted',
    'estimator classes are trusted inputs (the statement takes "the chosen estimator" as given): the reference applies '
    'an instance of the same class and parameters, without own clipping, to the 1-D vector of a box; mean/median/std '
    'are additionally cross-checked with numpy',
    'SigmaClip(grow=...) is not exercised (its neighbourhood is defined on the flattened box layout)',
    'edge_method="crop" (deprecated) is not exercised',
    'the access order background_mesh -> background_rms_mesh is used throughout (the reverse order is C09)',
    'float32 / integer input is judged at float32 precision (tolerances below), integer outputs by a truncation band',
    'IDW references skip elements whose k-nearest-neighbour set is not unique (equidistant candidates at the cut)',
]

RT = 1e-12            # float64, per-box statistics relative to the box's pixel magnitude: summation order only (measured <= 5.6e-15)
RT_FIXED_M = 1e-9     # float64, biweight estimators with user-fixed M (measured 1.9e-12)
RT_PAIR = 1e-10       # float64, between bottleneck configurations / byte orders (measured <= 1.9e-11 of the value)
RT32_BKG = 5e-4       # float32 / integer input, background statistic relative to the box's pixel magnitude: measured <= 3.4e-6
RT32_RMS = 1e-5       # same for the RMS statistic: measured <= 4.8e-8
RT32 = 3e-5           # float32 / integer input, IDW fill / integer bands relative to the data scale: measured <= 7.5e-8
RT_INT = 1e-6         # integer input, relative to the data magnitude (in addition to the +-1 count band)
INT_F32_LIMIT = 2.0 ** 20   # above this magnitude the float32 working copy of integer data costs >= ~0.5 count
REL = 1e-11           # relations, relative to the data magnitude incl. the shift (measured <= 3.4e-15 quick; see report)
REL32 = 1e-4


def plan(tier):
    if tier == 'thorough':
        return dict(shards=16, cases=9000, timeout=2400, budget_s=540)
    return dict(shards=8, cases=700, timeout=600, budget_s=55)


def selftest():
    ref.selftest()
    # generator classes produce what they claim (independent of photutils)
    rng = np.random.default_rng(5)
    for cls in CLASSES:
        for _ in range(60):
            spec, meta = scenes.make_scene(rng, cls)
            (ny, nx), (by, bx) = meta['shape'], meta['box']
            assert 1 <= ny <= 70 and 1 <= nx <= 70 and 1 <= by <= ny and 1 <= bx <= nx, (cls, meta)
            if cls == 'divides':
                assert ny % by == 0 and nx % bx == 0
            if cls == 'pad_corner':
                assert ny % by and nx % bx
            if cls == 'pad_row':
                assert ny % by and nx % bx == 0
            if cls == 'pad_col':
                assert nx % bx and ny % by == 0
            if cls == 'box_eq_image':
                assert (by, bx) == (ny, nx)
            if cls == 'box_gt_half':
                assert 2 * by > ny or 2 * bx > nx


# ----------------------------------------------------------------------
# configuration axis
# ----------------------------------------------------------------------
_ST = {}


def _send(p, obj):
    b = pickle.dumps(obj, protocol=4)
    p.stdin.write(struct.pack('<Q', len(b)))
    p.stdin.write(b)
    p.stdin.flush()


def _recv(p):
    h = p.stdout.read(8)
    if len(h) < 8:
        raise RuntimeError('C11 helper process died')
    return pickle.loads(p.stdout.read(struct.unpack('<Q', h)[0]))


def setup(tier):
    from pv.gen import c11_helper
    shard = int(sys.argv[4]) if len(sys.argv) > 4 and sys.argv[4].isdigit() else 0
    env = os.environ.get('PV_NO_BOTTLENECK')
    off = (env == '1') if env in ('0', '1') else (shard % 2 == 1)
    os.environ['PV_NO_BOTTLENECK'] = '1' if off else '0'
    _, pre = c11_helper.disable_bottleneck_if_requested()
    rep = c11_helper.config_report(off, pre)
    if not rep['consistent']:
        raise RuntimeError(f'bottleneck configuration not as requested: {rep}')
    env2 = dict(os.environ, PV_NO_BOTTLENECK='0' if off else '1')
    p = subprocess.Popen([sys.executable, '-m', 'pv.gen.c11_helper'], stdin=subprocess.PIPE,
                         stdout=subprocess.PIPE, env=env2)
    rep2 = _recv(p)
    if (not rep2['consistent'] or rep2['photutils_HAS_BOTTLENECK'] == rep['photutils_HAS_BOTTLENECK']
            or rep2['photutils_file'] != rep['photutils_file']):
        raise RuntimeError(f'helper configuration wrong: main={rep} helper={rep2}')
    _ST.update(proc=p, main_bn=rep['photutils_HAS_BOTTLENECK'], pairs=0)
    return {'main': rep, 'helper': rep2}


def teardown():
    p = _ST.get('proc')
    if p is not None:
        try:
            p.stdin.close()
            p.wait(timeout=10)
        except Exception:  # noqa: BLE001
            p.kill()
    return {'pairs': _ST.get('pairs', 0), 'main_bottleneck': _ST.get('main_bn')}


def _other_config(spec):
    p = _ST['proc']
    _send(p, spec)
    _ST['pairs'] += 1
    return _recv(p)


# ----------------------------------------------------------------------
# helpers
# ----------------------------------------------------------------------
def _fl(a):
    return np.asarray(a).astype(float)


def _is_all_excluded_error(exc):
    return isinstance(exc, ValueError) and str(exc).startswith('All boxes contain')


def _tols(meta):
    f64 = meta['dtype'] == 'float64'
    if meta['dtype'] not in ('float64', 'float32'):
        # integer images: judged against the float64 computation on the values they hold (+- one count of the
        # integer output); 1e-6 of the magnitude covers the library's float32 working precision below 2**20
        return RT_INT, REL32
    return (RT if f64 else RT32), (REL if f64 else REL32)


def _numpy_cross(case, name, v, val, mech, rt):
    """mean / median / std estimators cross-checked with plain numpy on the vector."""
    fn = {'MeanBackground': np.mean, 'MedianBackground': np.median, 'StdBackgroundRMS': np.std}.get(name)
    if fn is None or v.size == 0:
        return
    e = float(fn(v.astype(float)))
    sc = float(np.max(np.abs(v))) if v.size else 1.0
    case.close(val, e, 'estimator_vs_numpy', rtol=rt, atol=rt * sc, mech=dict(mech, est=name))


# ----------------------------------------------------------------------
def run_case(case):
    rng = case.rng
    spec, meta = scenes.make_scene(rng, case.cls)
    case.params = scenes.describe(spec, meta)
    case.digest = core.arr_digest(spec['data'], spec['mask'], spec['cov']) + core.digest(case.params)
    dt = meta['dtype']
    is_int = dt not in ('float64', 'float32')
    mech = {'cls': case.cls, 'dtype': 'int' if is_int else dt}
    rt, rel = _tols(meta)
    if dt != 'float64':
        # deviations of float32 / integer input are tracked under their own names
        sfx, orig_close = ('_int' if is_int else '_f32'), case.close

        def close(obs, exp, what, **kw):
            return orig_close(obs, exp, what if (what.endswith(('_int', '_within_one')) or what.startswith('int_dtype_range'))
                              else what + sfx, **kw)
        case.close = close
    data, mask, cov = spec['data'], spec['mask'], spec['cov']
    ny, nx = data.shape
    by, bx = meta['box']
    box = (by, bx)
    N = by * bx
    case.note('cfg_main_bottleneck_' + ('on' if _ST.get('main_bn') else 'off'))
    case.note('bkg:' + spec['bkg'][0])
    case.note('rms:' + spec['rms'][0])
    case.note('interp:' + spec['interp'][0])
    case.note('sigma_clip:' + ('none' if spec['sc'] is None else
                               'default' if spec['sc'] == dict(sigma=3.0, maxiters=10) else 'variant'))
    case.note('dtype:' + dt)
    case.note('magnitude:' + str(meta.get('mag')))
    if meta.get('pedestal_ratio'):
        case.note('pedestal_ratio:%g' % meta['pedestal_ratio'])
    if meta.get('degenerate'):
        case.note('degenerate:' + meta['degenerate'])
    if min(meta['shape']) <= 3 and max(meta['shape']) >= 10:
        case.note('shape_elongated')
    if min(meta['shape']) == 1:
        case.note('shape_single_row_or_column')
    unit = float(meta.get('unit', 1.0)) if dt in ('float64', 'float32') else 1.0
    (ny_, nx_), (by_, bx_) = meta['shape'], meta['box']
    my_, mx_ = -(-ny_ // by_), -(-nx_ // bx_)
    case.note('axis2_dtype:' + dt)
    if by_ != bx_:
        case.note('axis2_box_anisotropic')
    if not np.isscalar(spec['fsize']) and spec['fsize'][0] != spec['fsize'][1]:
        case.note('axis2_filter_anisotropic')
    if mx_ >= my_ + 2:
        case.note('axis2_mesh_wider_than_tall')
    if my_ >= mx_ + 2:
        case.note('axis2_mesh_taller_than_wide')
    if meta.get('border'):
        case.note('axis2_border:' + meta['border'].split(':')[0])
        case.note('axis2_border_kind:' + meta['border'].split(':')[1])
    for ax, n_, b_ in (('y', ny_, by_), ('x', nx_, bx_)):
        r_ = n_ % b_
        case.note('axis2_size_%s:%s' % (ax, 'multiple' if r_ == 0 else 'plus_one' if r_ == 1 else
                                        'minus_one' if r_ == b_ - 1 else 'other'))
    if meta.get('mask_all_false') or meta.get('cov_all_false'):
        case.note('axis2_mask_all_false')
    if meta.get('int_big'):
        case.note('axis2_int_values_beyond_float32')
    if meta.get('float16') and meta.get('mag') == 'plain':
        _float16_case(case, spec, mech)
        return

    # ---------------- M1 reference -------------------------------------
    tmask = ref.total_mask(data, mask, cov)
    dataf = ref.work_array(data)
    sc_ref = scenes.make_sigma_clip(spec['sc'])
    bkg_ref_est = scenes.make_estimator(spec['bkg'], for_reference=True)
    rms_ref_est = scenes.make_estimator(spec['rms'], for_reference=True)
    R = ref.mesh_reference(dataf, tmask, box, sc_ref, bkg_ref_est, rms_ref_est)
    rbkg, rrms, ngood, nraw, vecs, raws, alts = (R[k] for k in ('bkg', 'rms', 'ngood', 'nraw', 'vecs', 'raws', 'alts'))
    my, mx = ngood.shape

    def classify():
        st = ref.box_status(ngood, N, spec['p'])
        nan_ = (st != ref.OUT) & ~np.isfinite(rbkg)    # estimator returned non-finite: treated as excluded
        return st, nan_, (st == ref.IN) & ~nan_, (st == ref.TIE) & ~nan_, (st == ref.NEAR) & ~nan_

    status, nan_stat, s_in, s_tie, s_near = classify()
    # sigma clipping is discontinuous where a pixel sits on a clipping bound (e.g. a constant box: std = 0, both bounds
    # equal the centre). There a last-bit difference in the centre decides whole boxes, so comparisons between
    # differently rounded executions (library layout vs vector, shifted / generally scaled data, other configuration)
    # are not demanded.
    tie_risk = False
    if sc_ref is not None:
        eps = 1e-13 if dt == 'float64' else 1e-5
        tie_risk = any(v.size and ref.clip_min_margin(v, sc_ref) < eps for v in raws.values())
    good = dataf[~tmask]
    scale = float(np.max(np.abs(good))) if good.size else 1.0
    scale = max(scale, 1e-300)
    case.nontrivial = bool((s_in | s_tie).any() and (my * mx >= 2 or tmask.any() or (ngood != nraw).any()))
    case.note('boxes', my * mx)
    case.note('boxes_excluded_ref', int((status == ref.OUT).sum()))
    case.note('boxes_tie_exact', int(s_tie.sum()))
    case.note('boxes_near_boundary', int(s_near.sum()))
    case.note('pixels_clipped', int((nraw - ngood).sum()))
    if ny % by and nx % bx:
        case.note('corner_box_cases')
    if ny % by or nx % bx:
        case.note('padded_cases')
    for (j, i), v in list(vecs.items())[:3]:
        if v.size:
            _numpy_cross(case, spec['bkg'][0], v, rbkg[j, i], mech, 1e-12 if dt == 'float64' else 1e-6)
            _numpy_cross(case, spec['rms'][0], v, rrms[j, i], mech, 1e-12 if dt == 'float64' else 1e-5)

    inc_any = s_in | s_tie | s_near
    if inc_any.any() and not np.isfinite(rrms[inc_any]).any():
        # the chosen RMS estimator (e.g. a biweight scale with a user-fixed location M far from the data) returns
        # NaN for every box that can be included: there is no finite RMS statistic to build a map from
        case.skip('rms_estimator_nan_on_every_included_box')
    # ---------------- the real object, unfiltered ------------------------
    try:
        b1 = scenes.construct(spec, fsize=1, thr=None)
    except ValueError as exc:
        if not _is_all_excluded_error(exc):
            raise
        if alts:
            case.skip('all_excluded_with_sigma_clip_path_ambiguity')
        if (s_in | s_tie).any() and tie_risk:
            case.skip('all_excluded_with_clip_tie_within_rounding')
        if s_in.any():
            raise                       # the library refuses although documented-included boxes exist
        if s_tie.any():
            case.check(False, 'all_excluded_raise', dict(mech, exclude_boundary_exact=True),
                       msg=str(exc)[:160], boxes_exactly_on_boundary=int(s_tie.sum()), p=spec['p'])
        elif s_near.any():
            case.note('all_excluded_near_boundary_either')
            case.check(True, 'all_excluded_raise', mech)
        else:
            case.check(True, 'all_out_raises', mech)
        return
    U = np.array(b1.background_mesh)
    Ur = np.array(b1.background_rms_mesh)
    npm = np.array(b1.npixels_mesh)
    obs_excl = None
    if not is_int:
        obs_excl = np.isnan(np.array(b1.background_mesh_masked))
    case.check(U.shape == (my, mx) and Ur.shape == (my, mx) and npm.shape == (my, mx), 'mesh_shape', mech,
               obs=[list(U.shape), list(Ur.shape), list(npm.shape)], exp=[my, mx])
    if U.shape != (my, mx) or npm.shape != (my, mx) or Ur.shape != (my, mx):
        return

    # boxes where astropy's two SigmaClip evaluation paths differ: accept either (three-valued oracle)
    for (j, i), (n_alt, b_alt, r_alt, v_alt) in alts.items():
        case.note('sigma_clip_paths_differ_boxes')
        if (npm[j, i] == n_alt and npm[j, i] != ngood[j, i]) or (
                n_alt == ngood[j, i] and abs(float(U[j, i]) - b_alt) < abs(float(U[j, i]) - rbkg[j, i])):
            ngood[j, i], rbkg[j, i], rrms[j, i], vecs[(j, i)] = n_alt, b_alt, r_alt, v_alt
            case.note('sigma_clip_axis_path_adopted')
    if alts:
        status, nan_stat, s_in, s_tie, s_near = classify()
    if not (s_in | s_tie | s_near | nan_stat).any():
        if tie_risk:
            case.skip('clip_tie_within_rounding')
        case.check(False, 'all_out_raises', mech, note='no box can be included but no error was raised')
        return

    # counts
    if not np.array_equal(npm, ngood):
        bad = np.argwhere(npm != ngood)
        tie_eps = 1e-12 if dt == 'float64' else 1e-4
        if sc_ref is not None and all(ref.clip_min_margin(raws[tuple(k)], sc_ref) < tie_eps for k in bad):
            case.skip('clip_tie_within_rounding')
        case.check(False, 'npixels_mesh_vs_count', mech, nbad=len(bad), first=bad[0].tolist(),
                   obs=int(npm[tuple(bad[0])]), exp=int(ngood[tuple(bad[0])]),
                   raw=int(nraw[tuple(bad[0])]))
        return
    case.check(True, 'npixels_mesh_vs_count', mech)
    nmap = np.array(b1.npixels_map)
    exp_map = np.repeat(np.repeat(ngood, by, axis=0), bx, axis=1)[:ny, :nx]
    case.check(nmap.shape == (ny, nx) and np.array_equal(nmap, exp_map), 'npixels_map_vs_count', mech)

    # exclusion
    if obs_excl is not None:
        exp_out = (status == ref.OUT) | nan_stat
        case.check(bool(np.all(obs_excl[exp_out])), 'excluded_set', dict(mech, side='should_be_excluded'),
                   n=int((~obs_excl[exp_out]).sum()), p=spec['p'])
        case.check(not obs_excl[s_in].any(), 'excluded_set', dict(mech, side='should_be_included'),
                   n=int(obs_excl[s_in].sum()), p=spec['p'], box_npixels=N,
                   ngood=ngood[s_in & obs_excl][:5].tolist())
        if s_tie.any():
            case.check(not obs_excl[s_tie].any(), 'excluded_set',
                       dict(mech, side='should_be_included', exclude_boundary_exact=True),
                       n=int(obs_excl[s_tie].sum()), of=int(s_tie.sum()), p=spec['p'], box_npixels=N,
                       ngood=ngood[s_tie][:5].tolist())
            case.note('tie_boxes_included_by_library', int((~obs_excl[s_tie]).sum()))
            case.note('tie_boxes_excluded_by_library', int(obs_excl[s_tie].sum()))

    # included boxes: estimator of the clipped vector
    case.check(bool(np.isfinite(_fl(U)).all() and np.isfinite(_fl(Ur)).all()), 'mesh_finite', mech)
    atol = rt * scale
    sbox = np.full((my, mx), scale)
    for (j, i), v in vecs.items():
        if v.size:
            sbox[j, i] = max(float(np.max(np.abs(v))), 1e-300)
    rt_b, rt_r = (RT, RT) if dt == 'float64' else (RT32_BKG, RT32_RMS)
    if dt == 'float64':
        # a biweight estimator with a user-fixed location M (weights (1-u^2)^2 around a centre that is not the
        # data's) is ill-conditioned: measured 1.9e-12, all other estimators <= 5.6e-15
        if 'M' in spec['bkg'][1]:
            rt_b = RT_FIXED_M
        if 'M' in spec['rms'][1]:
            rt_r = RT_FIXED_M

    def cmp_boxes(sel, m, pre=''):
        if not sel.any():
            return
        if is_int:
            ok = ref.trunc_band_ok(_fl(U)[sel], rbkg[sel], atol + rt * np.abs(rbkg[sel]))
            case.check(bool(ok.all()), pre + 'mesh_vs_estimator', m, nbad=int((~ok).sum()),
                       obs=U[sel][~ok][:4].tolist(), exp=rbkg[sel][~ok][:4].tolist())
            fin = np.isfinite(rrms[sel])
            ok = ref.trunc_band_ok(_fl(Ur)[sel][fin], rrms[sel][fin], atol + rt * np.abs(rrms[sel][fin]))
            case.check(bool(ok.all()), pre + 'rms_mesh_vs_estimator', m, nbad=int((~ok).sum()))
            return
        # deviation relative to the magnitude of the box's own clipped pixels
        sfx32 = '' if dt == 'float64' else '_f32'
        eb = np.abs(U[sel].astype(float) - rbkg[sel]) / sbox[sel]
        case.dev(pre + 'mesh_vs_estimator' + sfx32, eb.max())
        okb = case.check(bool((eb <= rt_b).all()), pre + 'mesh_vs_estimator' + sfx32, m, nbad=int((eb > rt_b).sum()),
                         worst=float(eb.max()), tol=rt_b, obs=U[sel][eb > rt_b][:4], exp=rbkg[sel][eb > rt_b][:4])
        if not okb and spec['bkg'][0] == 'SExtractorBackground':
            _sextractor_branch_tie(case, sel)
        fin = np.isfinite(rrms[sel])
        er = np.abs(Ur[sel][fin].astype(float) - rrms[sel][fin]) / sbox[sel][fin]
        if er.size:
            case.dev(pre + 'rms_mesh_vs_estimator' + sfx32, er.max())
            case.check(bool((er <= rt_r).all()), pre + 'rms_mesh_vs_estimator' + sfx32, m, nbad=int((er > rt_r).sum()),
                       worst=float(er.max()), tol=rt_r, obs=Ur[sel][fin][er > rt_r][:4], exp=rrms[sel][fin][er > rt_r][:4])

    def _sextractor_branch_tie(case, sel):
        # the estimator itself is discontinuous at |mean-median|/std == 0.3; within rounding of
        # that point either branch is the estimator's value: retract the verdict, count it
        band = 1e-9 if dt == 'float64' else 1e-4
        for j, i in np.argwhere(sel):
            v = vecs[(j, i)].astype(float)
            s = np.std(v)
            if s > 0 and abs(abs(np.mean(v) - np.median(v)) / s - 0.3) < band:
                if case.violations and case.violations[-1]['what'].endswith('mesh_vs_estimator'):
                    case.violations.pop()
                case.note('sextractor_branch_tie')
                return

    if is_int and scale > INT_F32_LIMIT:
        # integer values that do not fit the 24-bit mantissa of the float32 working copy the library makes of
        # every non-float image: judged against the float64 computation, under its own mechanism key
        tol_b = 1e-12 * scale
        okb = ref.trunc_band_ok(_fl(U)[s_in], rbkg[s_in], tol_b)
        fin = s_in & np.isfinite(rrms)
        okr = ref.trunc_band_ok(_fl(Ur)[fin], rrms[fin], tol_b)
        case.check(bool(okb.all() and okr.all()), 'int_large_values_mesh', dict(mech, int_values_beyond_float32=True),
                   nbad=int((~okb).sum() + (~okr).sum()), data_dtype=str(data.dtype), magnitude=scale,
                   obs=U[s_in][~okb][:4].tolist(), exp=rbkg[s_in][~okb][:4].tolist(),
                   obs_rms=Ur[fin][~okr][:4].tolist(), exp_rms=rrms[fin][~okr][:4].tolist())
        case.note('int_large_values_cases')
        return
    if is_int:
        info = np.iinfo(data.dtype)
        def beyond(a):
            with np.errstate(invalid='ignore'):
                return (a < info.min - (atol + 1e-6)) | (a > info.max + (atol + 1e-6))
        outside = (s_in | s_tie) & (beyond(rbkg) | beyond(rrms))
        if outside.any():
            # a statistic (background or RMS, e.g. the RMS of an int8 image spanning -128..127) is not representable
            # in the integer input dtype the library casts the meshes to
            # (a library that saturates at the dtype limits instead is accepted)
            ok = ref.trunc_band_ok(_fl(U)[outside], np.clip(rbkg[outside], info.min, info.max),
                                   atol + rt * np.abs(rbkg[outside]))
            okr = ref.trunc_band_ok(_fl(Ur)[outside], np.clip(np.nan_to_num(rrms[outside]), info.min, info.max),
                                    atol + rt * np.abs(np.nan_to_num(rrms[outside])))
            case.check(bool(ok.all() and okr.all()), 'int_dtype_range_mesh',
                       dict(mech, stat_outside_int_dtype_range=True),
                       obs=U[outside][:4].tolist(), exp=rbkg[outside][:4].tolist(),
                       obs_rms=Ur[outside][:4].tolist(), exp_rms=rrms[outside][:4].tolist(), data_dtype=str(data.dtype))
            case.note('stat_outside_int_dtype_range_cases')
            return
    cmp_boxes(s_in, mech)
    cmp_boxes(s_tie, dict(mech, exclude_boundary_exact=True), pre='boundary_box_')

    # excluded boxes: interpolated from the included ones (IDW in mesh-index space)
    excl = obs_excl
    if excl is None and not (s_tie.any() or s_near.any()):
        excl = (status == ref.OUT) | nan_stat
    if excl is not None and excl.any() and not excl.all():
        for arr, name, stat in ((U, 'excluded_box_idw', rbkg), (Ur, 'excluded_box_idw_rms', rrms)):
            a = _fl(arr)
            if name.endswith('rms') and (nan_stat.any() or not np.isfinite(stat[~excl & (status != ref.OUT)]).all()):
                # the RMS mesh is filled where the RMS statistic itself is NaN; with an estimator that returned NaN
                # for an included box the two excluded sets differ and only the background one is observable
                case.note('idw_fill_rms_skipped_estimator_nan')
                continue
            g = a[~excl]
            lo, hi = g.min(), g.max()
            tol = (1e-12 if dt == 'float64' else 1e-6) * max(abs(lo), abs(hi)) + (1.0 if is_int else 0.0)
            case.check(bool((a[excl] >= lo - tol).all() and (a[excl] <= hi + tol).all()),
                       name + '_within_range', mech)
            if is_int:
                src = np.where(excl, 0.0, np.where(np.isfinite(stat), stat, 0.0))   # float32 statistics
                filled, amb = ref.idw_fill_reference(src, ~excl)
                sel = excl & ~amb
                ok = ref.trunc_band_ok(a[sel], filled[sel], atol + rt * np.abs(filled[sel]))
                case.check(bool(ok.all()), name, mech, nbad=int((~ok).sum()))
            else:
                filled, amb = ref.idw_fill_reference(np.where(excl, 0.0, a), ~excl)
                sel = excl & ~amb
                case.close(a[sel], filled[sel], name, rtol=rt, atol=atol, mech=mech)
            case.note('idw_fill_boxes_checked', int(sel.sum()))
            case.note('idw_fill_boxes_ambiguous', int((excl & amb).sum()))

    # ---------------- filter threshold, the object under study -----------
    thr = None
    if meta['thr_mode'] is not None:
        vals = np.unique(_fl(U))
        mode = meta['thr_mode']
        if is_int and mode == 'tie':
            mode = 'mid'
        if mode == 'below':
            thr = float(vals[0] - (abs(vals[0]) * 1e-3 + unit))
        elif mode == 'above':
            thr = float(vals[-1] + (abs(vals[-1]) * 1e-3 + unit))
        elif mode == 'tie':
            thr = float(vals[int(rng.integers(0, len(vals)))])
        else:
            k = int(rng.integers(0, len(vals)))
            thr = float(vals[k] + (abs(vals[k]) * 1e-3 + 0.5 * unit)) if len(vals) == 1 or k == len(vals) - 1 \
                else float(0.5 * (vals[k] + vals[k + 1]))
            if thr in vals:
                mode = 'tie'
        if mode != 'tie' and float(np.min(np.abs(vals - thr))) <= (1e-12 if dt == 'float64' else 1e-5) * scale:
            mode = 'tie'          # within rounding of a mesh value (e.g. between two interpolated boxes one ulp apart)
        if dt == 'float32':
            # the library compares the float32 mesh with the threshold in float32: use a representable threshold
            thr = float(np.float32(thr))
            if mode == 'mid' and thr in vals:
                mode = 'tie'
        meta['thr_mode'] = mode
        case.note('filter_threshold:' + mode)
    spec = dict(spec, thr=thr)
    fsize = spec['fsize']
    filtered = fsize != 1
    # representation / call form: every object of this case (unfiltered reference object above, relations,
    # configuration pair) is built with the masks, scalar / pair arguments and data container as drawn; in
    # addition the outputs must equal those of the plain spelling (boolean C-order masks, python scalars and
    # tuples, native C-order ndarray) - exactly, except for byte-swapped data (other summation path: rtol).
    b = scenes.construct(spec) if (filtered or thr is not None) else b1
    out = scenes.outputs(b)
    forms = spec.get('forms', scenes.PLAIN_FORMS)
    if mask is not None:
        case.note('mask_repr:%s/%s' % spec['mask_repr'])
    if cov is not None:
        case.note('coverage_mask_repr:%s/%s' % spec['cov_repr'])
    for k_, v_ in forms.items():
        if v_ not in ('plain', 'C'):
            case.note('form_%s:%s' % (k_, v_))
    masks_plain = ((mask is None or spec['mask_repr'] == scenes.PLAIN)
                   and (cov is None or spec['cov_repr'] == scenes.PLAIN))
    forms_plain = forms == scenes.PLAIN_FORMS
    exp_unit = scenes.expected_unit(spec)
    case.check(all(u_ == str(exp_unit) for u_ in out['units']), 'output_units', dict(mech, data_form=forms['data']),
               obs=out['units'], exp=exp_unit)
    if not (masks_plain and forms_plain):
        plain_forms = scenes.PLAIN_FORMS
        rrt = 0.0
        if forms['layout'] == 'big_endian':
            # byte-swapped data take another summation path (last-bit differences): compared at rtol, and where a
            # last bit decides (threshold equal to a mesh value, pixel on a clipping bound) the byte order is kept
            if tie_risk or meta['thr_mode'] == 'tie':
                plain_forms = dict(scenes.PLAIN_FORMS, layout='big_endian')
                case.note('call_form_byte_order_kept_at_tie')
            else:
                rrt = RT_PAIR
        o_plain = scenes.outputs(scenes.construct(dict(spec, mask_repr=scenes.PLAIN, cov_repr=scenes.PLAIN,
                                                       forms=plain_forms)))
        name = 'mask_representation_' if forms_plain else 'call_form_'
        for k in ('mesh', 'rmesh', 'npix', 'med', 'rmed', 'bkg', 'rms'):
            # integer data carried with a unit (NDData(unit=...)): the meshes become float Quantities and the maps are
            # interpolated in floating point instead of being rounded to the integer dtype: within one count
            if is_int and exp_unit is not None and k in ('bkg', 'rms'):
                # where the float map (unit-ful form) leaves the range of the integer dtype, the plain integer form
                # saturates / wraps (known integer-cast finding, structural flag); inside the range: within one count
                info_ = np.iinfo(data.dtype)
                fv = _fl(out[k])
                ins_ = (fv >= info_.min - 0.5) & (fv <= info_.max + 0.5)
                case.close(fv[ins_], _fl(o_plain[k])[ins_], name + k, atol=1.0, mech=mech)
                if (~ins_).any():
                    case.close(fv[~ins_], _fl(o_plain[k])[~ins_], 'int_dtype_range_map', atol=1.0,
                               mech=dict(mech, stat_outside_int_dtype_range=True))
                    case.note('call_form_int_map_pixels_outside_dtype_range', int((~ins_).sum()))
                continue
            case.close(_fl(out[k]), _fl(o_plain[k]), name + k, rtol=rrt,
                       atol=(rrt * scale if k != 'npix' else 0.0), mech=mech)
        case.note('mask_representation_cases' if forms_plain else 'call_form_cases')
        if not masks_plain and (data.dtype.kind != 'f' or bool(np.isfinite(data).all())):
            case.note('mask_representation_cases_data_all_finite')
            if (mask is None) != (cov is None):
                case.note('mask_representation_cases_data_all_finite_single_mask')
    M, Mr = out['mesh'], out['rmesh']

    if filtered:
        # documented: only boxes with a background value larger than filter_threshold are filtered. The values of
        # interpolated boxes are convex combinations of included ones, so a threshold below every included
        # statistic selects all boxes; within rounding of the smallest statistic either reading is accepted.
        m2 = dict(mech, thr=meta['thr_mode'] or 'none')
        conds = [None]
        if thr is not None:
            # smallest statistic of the boxes the library included (observed where possible: with boxes exactly on
            # the exclusion boundary the library's included set is the one of the known finding)
            band = (1e-9 if dt == 'float64' else 1e-5) * scale + (1.0 if is_int else 0.0)
            if obs_excl is not None:
                minstat = float(_fl(U)[~obs_excl].min())
            elif s_tie.any() or s_near.any():
                minstat, band = thr, np.inf
            else:
                inc = np.isfinite(rbkg) & (status != ref.OUT)
                minstat = float(np.min(rbkg[inc])) if inc.any() else float(_fl(U).min())
            conds = []
            if thr < minstat + band:
                conds.append(None)
            if thr >= minstat - band:
                conds.append(_fl(U) > thr)
            if len(conds) == 2:
                case.note('filter_threshold_at_min_statistic_either')
        frt = 0.0 if dt == 'float64' else 1e-6
        verdicts = []
        for cond in conds:
            expF = ref.median_filter_reference(U, fsize, cond)
            expFr = ref.median_filter_reference(Ur, fsize, cond)
            if is_int:
                ok1 = bool(ref.trunc_band_ok(_fl(M), expF, 1e-9).all())
                ok2 = bool(ref.trunc_band_ok(_fl(Mr), expFr, 1e-9).all())
            else:
                ok1, d1, _ = core.same(_fl(M), expF, rtol=frt)
                ok2, d2, _ = core.same(_fl(Mr), expFr, rtol=frt)
                if ok1 and ok2:
                    case.dev('filtered_mesh_vs_reference', d1)
                    case.dev('filtered_rms_mesh_vs_reference', d2)
            verdicts.append((ok1, ok2, expF, expFr))
        best = max(verdicts, key=lambda v: (v[0] and v[1], v[0]))
        case.check(best[0], 'filtered_mesh_vs_reference', m2, obs=M, exp=best[2], unfiltered=U, thr=thr)
        case.check(best[1], 'filtered_rms_mesh_vs_reference', m2, obs=Mr, exp=best[3], thr=thr)
        case.note('filtered_cases')
    else:
        case.check(core.exact(M, U) and core.exact(Mr, Ur), 'filter_size_1_is_identity', mech)

    case.close(out['med'], np.median(M), 'background_median', mech=mech)
    case.close(out['rmed'], np.median(Mr), 'background_rms_median', mech=mech)

    # ---------------- full maps --------------------------------------------
    bkg, rms = out['bkg'], out['rms']
    fill = spec['fill']
    covm = cov if cov is not None else np.zeros((ny, nx), bool)
    off = ~covm
    ok_shape = case.check(bkg.shape == (ny, nx) and rms.shape == (ny, nx), 'map_shape', mech,
                          obs=[list(bkg.shape), list(rms.shape)], exp=[ny, nx])
    if not ok_shape:
        return
    case.check(bool(np.isfinite(_fl(bkg))[off].all()), 'background_finite', mech,
               n=int((~np.isfinite(_fl(bkg))[off]).sum()))
    case.check(bool(np.isfinite(_fl(rms))[off].all()), 'background_rms_finite', mech,
               n=int((~np.isfinite(_fl(rms))[off]).sum()))
    if cov is not None:
        fv = np.full(int(covm.sum()), fill)
        case.close(_fl(bkg)[covm], fv, 'fill_value_on_coverage', mech=mech)
        case.close(_fl(rms)[covm], fv, 'fill_value_on_coverage_rms', mech=mech)
        if fill == fill:
            case.check(bool(np.isfinite(_fl(bkg)).all() and np.isfinite(_fl(rms)).all()), 'map_finite_everywhere', mech)
    iname, ikw = spec['interp']
    im = dict(mech, interp=iname)
    for mesh, mp, tag in ((M, bkg, 'background'), (Mr, rms, 'background_rms')):
        lo, hi = _fl(mesh).min(), _fl(mesh).max()
        mpf = _fl(mp)[off]
        if iname == 'zoom':
            if ikw.get('clip', True):
                case.check(bool(mpf.size == 0 or (mpf.min() >= lo and mpf.max() <= hi)),
                           tag + '_within_mesh_range', im, lo=lo, hi=hi,
                           obs=[float(mpf.min()), float(mpf.max())] if mpf.size else None)
            _zoom_reference(case, mesh, mp, off, box, (ny, nx), ikw, tag, im, data.dtype)
        else:
            tol = 1e-12 * max(abs(lo), abs(hi))
            if mpf.size and ikw.get('reg', 0.0) == 0.0:
                case.check(bool(mpf.min() >= lo - tol and mpf.max() <= hi + tol), tag + '_idw_within_mesh_range', im)
            good_boxes = None
            if obs_excl is not None:
                good_boxes = ~obs_excl
            elif not (s_tie.any() or s_near.any()):
                good_boxes = ~((status == ref.OUT) | nan_stat)
            if good_boxes is not None:
                _idw_reference(case, mesh, mp, off, good_boxes, box, (ny, nx), ikw, tag, im, data.dtype, rt, atol)

    # ---------------- relations --------------------------------------------
    int_tol = 3.0 if is_int else 0.0
    _rel_garbage(case, spec, out, mech, tmask_in=(covm | (mask if mask is not None else False)), is_int=is_int)
    _rel_nan_is_mask(case, spec, out, mech, is_int)
    # a spline with mode='constant' mixes the user's cval into the map: not equivariant by construction
    cval_mode = iname == 'zoom' and ikw.get('mode') == 'constant'
    if tie_risk:
        case.note('clip_tie_risk_cases')
    scd = spec['sc'] or {}
    cen, sdf = scd.get('cenfunc', 'median'), scd.get('stdfunc', 'std')
    # centre = mean with a spread function that does not share that mean: on a constant box the spread is exactly 0
    # and the rounded mean differs from the constant, astropy then clips the whole box
    sc_const_unsafe = spec['sc'] is not None and (
        (cen == 'mean' and sdf != 'std') or (cen == 'np.nanmean' and sdf != 'np.nanstd'))
    if not meta['equivariant']:
        case.note('relations_skipped_estimator_not_equivariant')
    else:
        if cval_mode:
            case.note('constant_skipped_zoom_mode_constant')
        elif sc_const_unsafe:
            case.note('constant_skipped_sigma_clip_mean_with_foreign_spread')
        else:
            _rel_constant(case, spec, meta, nraw, N, mech, is_int)
        if cval_mode:
            case.note('shift_skipped_zoom_mode_constant')
        elif tie_risk:
            case.note('shift_skipped_clip_tie_risk')
        else:
            _rel_shift(case, spec, meta, out, off, scale, rel, mech, is_int, int_tol)
        if cval_mode and ikw.get('cval', 0.0) != 0.0:
            case.note('scale_skipped_zoom_mode_constant')
        else:
            _rel_scale(case, spec, meta, out, off, scale, rel, mech, is_int, int_tol, pow2_only=tie_risk or cval_mode)
    if tie_risk:
        case.note('config_pair_skipped_clip_tie_risk')
        return

    # ---------------- the other bottleneck configuration -------------------
    pair_spec, pair_out = spec, out
    if meta['thr_mode'] == 'tie':
        # a threshold exactly equal to a mesh value: a last-bit difference between the configurations
        # legitimately flips `value > threshold`; compare the pair without the threshold
        pair_spec = dict(spec, thr=None)
        pair_out = scenes.outputs(scenes.construct(pair_spec))
        case.note('config_pair_without_tie_threshold')
    other = _other_config(pair_spec)
    out = pair_out
    if 'error' in other:
        case.check(False, 'config_pair_error', dict(mech, main_bottleneck=bool(_ST['main_bn'])), err=other['error'])
    else:
        keys = ('mesh', 'rmesh', 'npix', 'bkg', 'rms', 'med', 'rmed')
        if cval_mode:
            # spline mode='constant': the map jumps between "constant mesh -> constant map" and "cval mixed in"
            # when the mesh differs in the last bit; the maps of the two configurations are not compared
            keys = ('mesh', 'rmesh', 'npix', 'med', 'rmed')
            case.note('config_pair_maps_skipped_zoom_mode_constant')
        for k in keys:
            case.close(_fl(other[k]), _fl(out[k]), 'config_pair_' + k, rtol=RT_PAIR,
                       atol=(0.0 if k == 'npix' else RT_PAIR * scale), mech=mech)
        case.note('config_pairs')


# ----------------------------------------------------------------------
def _float16_case(case, spec, mech):
    """Half-precision image: scipy.ndimage (median filter, zoom) rejects float16 with an undocumented RuntimeError -
    counted, not judged; where the configuration avoids scipy the result is compared with the float64 computation on
    the same values at the precision of float16 (11 bits)."""
    d16 = spec['data'].astype(np.float16)
    if not np.isfinite(d16[np.isfinite(spec['data'])]).all():
        case.note('axis2_float16_out_of_range')
        return
    good16 = d16[np.isfinite(d16)].astype(float)
    nbox = float(np.prod(scenes._pair_form(spec['box'], 'tuple')))
    if good16.size and float(np.max(np.abs(good16))) * nbox > 6.0e4:
        # the box sums exceed the largest half-precision number (65504): the library's statistics run in the dtype of
        # the image and overflow to inf; documentation is silent on half precision - counted, not judged
        case.note('axis2_float16_box_sum_overflows_half_precision')
        return
    case.nontrivial = True
    sp16 = dict(spec, data=d16, forms=scenes.PLAIN_FORMS)
    try:
        o16 = scenes.outputs(scenes.construct(sp16))
    except RuntimeError as exc:
        if 'not supported' in str(exc):
            case.note('axis2_float16_rejected_by_scipy_ndimage')
            return
        raise
    except ValueError as exc:
        if _is_all_excluded_error(exc):
            case.note('axis2_float16_all_excluded')
            return
        raise
    try:
        o64 = scenes.outputs(scenes.construct(dict(sp16, data=d16.astype(np.float64))))
    except ValueError as exc:
        if _is_all_excluded_error(exc):
            return
        raise
    good = d16[np.isfinite(d16)].astype(float)
    sc = float(np.max(np.abs(good))) if good.size else 1.0
    if not all(np.isfinite(_fl(o16[k])).all() for k in ('mesh', 'rmesh', 'bkg', 'rms')):
        # sums or sums of squares overflowed half precision inside the statistics (counted, not judged: see above)
        case.note('axis2_float16_statistics_overflow_half_precision')
        return
    if np.array_equal(o16['npix'], o64['npix']):
        # Half precision is below what the documentation (or the property: float32 is the narrowest float it names)
        # speaks of, and the box statistics then accumulate in float16: the deviation from the float64 computation is
        # recorded (max_deviation) but not judged (seen at thorough seed 5: one mesh cell -153 against -4.4).
        for k in ('mesh', 'rmesh', 'bkg', 'rms'):
            a, b = _fl(o16[k]), _fl(o64[k])
            with np.errstate(invalid='ignore'):
                case.dev('float16_vs_float64_' + k + '_over_scale', float(np.nanmax(np.abs(a - b))) / max(sc, 1e-300))
        case.note('axis2_float16_recorded_not_judged')
    else:
        case.note('axis2_float16_clip_difference_at_half_precision')


def _zoom_reference(case, mesh, mp, off, box, shape, ikw, tag, mech, dtype):
    """The map is the spline zoom of the mesh by the box size, cropped to the image (the
    padding is at the top/right), clipped to the mesh range; constant mesh -> constant map."""
    from scipy.ndimage import zoom
    mesh = np.asarray(mesh)
    if np.ptp(mesh) == 0:
        exp = np.full(shape, mesh.min(), dtype=dtype)
    else:
        exp = zoom(mesh, box, order=ikw.get('order', 3), mode=ikw.get('mode', 'reflect'),
                   cval=ikw.get('cval', 0.0), grid_mode=True)[:shape[0], :shape[1]]
        if ikw.get('clip', True):
            exp = np.clip(exp, mesh.min(), mesh.max())
    case.close(_fl(mp)[off], _fl(exp)[off], tag + '_vs_zoom_of_mesh', mech=mech)


def _idw_reference(case, mesh, mp, off, good_boxes, box, shape, ikw, tag, mech, dtype, rt, atol):
    mesh = np.asarray(mesh)
    if np.ptp(mesh) == 0:
        case.close(_fl(mp)[off], np.full(shape, float(mesh.min()))[off], tag + '_vs_idw_of_mesh', mech=mech)
        return
    exp, amb = ref.idw_map_reference(_fl(mesh), good_boxes, shape, box,
                                     n_neighbors=ikw.get('n_neighbors', 10), power=ikw.get('power', 1.0),
                                     reg=ikw.get('reg', 0.0))
    sel = off & ~amb
    case.close(_fl(mp)[sel], exp[sel], tag + '_vs_idw_of_mesh', rtol=max(rt, 1e-10), atol=atol, mech=mech)
    case.note('idw_map_pixels_checked', int(sel.sum()))
    case.note('idw_map_pixels_ambiguous', int((off & amb).sum()))


def _rel_garbage(case, spec, out, mech, tmask_in, is_int):
    """Values stored under mask / coverage_mask are irrelevant (exact)."""
    tm = np.asarray(tmask_in, bool)
    if tm.ndim == 0 or not tm.any():
        return
    rng = case.rng
    d2 = spec['data'].copy()
    n = int(tm.sum())
    if is_int:
        info = np.iinfo(d2.dtype)
        g = rng.choice(np.array([info.max, info.min, 0, info.max // 2]), n)
        d2[tm] = g.astype(d2.dtype)
    else:
        pool = np.array([np.nan, np.inf, -np.inf, 1e30, -1e30, 0.0, 12345.678])
        g = rng.choice(pool, n)
        r = rng.random(n) < 0.2
        g[r] = rng.normal(0, 1e6, int(r.sum()))
        d2[tm] = g.astype(d2.dtype)
    o2 = scenes.outputs(scenes.construct(dict(spec, data=d2)))
    for k in ('mesh', 'rmesh', 'npix', 'bkg', 'rms', 'med', 'rmed'):
        case.close(o2[k], out[k], 'mask_blind_' + k, mech=mech)
    case.note('mask_blind_cases')


def _int_inside(specs, info):
    """Integer images: run the same requests on the float64 copy of the data (the library's float path keeps the
    statistics and the spline un-cast) and report, per observation point, where every float-path value lies inside
    the range of the integer dtype. Outside that range the integer output saturates or wraps (known finding)."""
    inside = None
    for sp in specs:
        try:
            of = scenes.outputs(scenes.construct(dict(sp, data=sp['data'].astype(np.float64))))
        except ValueError as exc:
            if _is_all_excluded_error(exc):
                return None
            raise
        cur = {k: (_fl(of[k]) >= info.min - 0.5) & (_fl(of[k]) <= info.max + 0.5) for k in ('mesh', 'rmesh', 'bkg', 'rms')}
        # the integer path casts the box statistics BEFORE the median filter: an unfiltered statistic outside the
        # range (e.g. a mode estimate 3*median - 2*mean of 260 for uint8) wraps and then spreads through the filter
        # window although the filtered float-path value is inside the range (seen at thorough seed 5) -> the
        # unfiltered float-path statistics decide for the whole mesh
        try:
            ou = scenes.outputs(scenes.construct(dict(sp, data=sp['data'].astype(np.float64), fsize=1)))
            for k in ('mesh', 'rmesh'):
                fu = _fl(ou[k])
                fu = fu[np.isfinite(fu)]
                if fu.size and not ((fu >= info.min - 0.5) & (fu <= info.max + 0.5)).all():
                    cur[k] = np.zeros_like(cur[k])
        except ValueError:
            pass
        inside = cur if inside is None else {k: inside[k] & cur[k] for k in cur}
    # a mesh value outside the range spoils the spline around it: judge the maps only if all meshes are inside
    if not (inside['mesh'].all() and inside['rmesh'].all()):
        inside['bkg'] = np.zeros_like(inside['bkg'])
        inside['rms'] = np.zeros_like(inside['rms'])
    return inside


def _close_split(case, obs, exp, what, atol, mech, inside, sel=None):
    """Compare where the float-path value is inside the integer dtype's range; elements outside are compared under
    the structural flag of the known integer-cast finding."""
    obs, exp = _fl(obs), _fl(exp)
    if inside is None:
        if sel is not None:
            obs, exp = obs[sel], exp[sel]
        return case.close(obs, exp, what, atol=atol, mech=mech)
    ins = inside if sel is None else inside[sel]
    if sel is not None:
        obs, exp = obs[sel], exp[sel]
    case.close(obs[ins], exp[ins], what, atol=atol, mech=mech)
    if (~ins).any():
        case.close(obs[~ins], exp[~ins], 'int_dtype_range_relation', atol=atol,
                   mech=dict(mech, stat_outside_int_dtype_range=True))
        case.note('int_relation_elements_outside_dtype_range', int((~ins).sum()))


def _rel_nan_is_mask(case, spec, out, mech, is_int):
    """Non-finite data values are masked automatically: dropping the mask and storing NaN / inf in the
    pixels it covered gives the same object (exact)."""
    mask = spec['mask']
    if is_int or mask is None or not mask.any():
        return
    d2 = spec['data'].copy()
    d2[mask] = case.rng.choice(np.array([np.nan, np.inf, -np.inf]), int(mask.sum())).astype(d2.dtype)
    o2 = scenes.outputs(scenes.construct(dict(spec, data=d2, mask=None)))
    for k in ('mesh', 'rmesh', 'npix', 'bkg', 'rms'):
        case.close(o2[k], out[k], 'nan_equals_mask_' + k, mech=mech)
    case.note('nan_equals_mask_cases')


_DYADIC = [0.0, 1.0, 7.0, -3.0, 0.5, 64.0, 1234.25, -0.125]
_GENERIC = [0.1, 1.0 / 3.0, -17.3, 1e-3, 2.7e5]


def _rel_constant(case, spec, meta, nraw, N, mech, is_int):
    """A constant image is reproduced (exactly where the arithmetic is exact: dyadic constant,
    no box interpolated), RMS 0."""
    rng = case.rng
    data = spec['data']
    dt = meta['dtype']
    if meta['const'] is not None:
        c = meta['const']
    elif dt == 'float64':
        c = float(scenes._pick(rng, _DYADIC + _GENERIC)) * float(meta.get('mag_scale', 1.0))
    elif dt == 'float32':
        c = float(scenes._pick(rng, [0.0, 1.0, 7.0, -3.0, 0.5, 64.0]))
        if meta.get('mag') in ('scale_pow2', 'both'):
            c *= float(meta['mag_scale'])
    else:
        c = float(scenes._pick(rng, [0, 1, 7, 100]))
    if data.dtype.kind == 'f':
        d2 = np.where(np.isfinite(data), data.dtype.type(c), data)
    else:
        d2 = np.full(data.shape, int(c), data.dtype)
    c_eff = float(d2[np.isfinite(d2)][0]) if np.isfinite(d2).any() else c
    try:
        o = scenes.outputs(scenes.construct(dict(spec, data=d2)))
    except ValueError as exc:
        if _is_all_excluded_error(exc):
            case.note('constant_all_excluded')
            return
        raise
    st = ref.box_status(nraw, N, spec['p'])         # nothing is clipped in a constant box
    # short mantissa (<= 30 bits): sums of up to 4900 equal values are exact in float64, whatever the exponent
    mant = np.frexp(c_eff)[0] * 2.0 ** 30
    dyadic = bool(mant == np.floor(mant)) if dt == 'float64' else bool(
        np.frexp(c_eff)[0] * 2.0 ** 10 == np.floor(np.frexp(c_eff)[0] * 2.0 ** 10))
    exact = dyadic and bool((st == ref.IN).all())
    tol = 0.0 if (exact or c_eff == 0.0) else 1e-13 * abs(c_eff)
    m = dict(mech, const_exact=bool(tol == 0.0))
    cov = spec['cov']
    off = ~cov if cov is not None else np.ones(data.shape, bool)
    exp = (('mesh', o['mesh'], c_eff), ('rms_mesh', o['rmesh'], 0.0),
           ('background', _fl(o['bkg'])[off], c_eff), ('background_rms', _fl(o['rms'])[off], 0.0))
    if is_int and tol != 0.0:
        # integer input with interpolated boxes: the library casts the interpolated float mesh to the integer
        # dtype; within one count is demanded here, exact reproduction under its own mechanism key
        unclipped = spec['interp'][0] == 'zoom' and not spec['interp'][1].get('clip', True)
        for name, obs, val in exp:
            if unclipped and name.startswith('background'):
                # an unclipped spline over a mesh that is off by one count overshoots the mesh range (by design)
                case.note('constant_int_map_skipped_unclipped_spline')
                continue
            case.close(_fl(obs), np.full(np.shape(obs), val), 'constant_' + name + '_int_within_one', atol=1.0 + 1e-9, mech=m)
        ok = all(bool(np.all(_fl(obs) == val)) for name, obs, val in exp)
        case.check(ok, 'constant_int_exact', dict(mech, int_cast_truncates_interpolated=True), const=c_eff,
                   mesh=o['mesh'])
    else:
        for name, obs, val in exp:
            case.close(_fl(obs), np.full(np.shape(obs), val), 'constant_' + name, atol=tol, mech=m)
    case.note('constant_cases_exact' if tol == 0.0 else 'constant_cases_rounding')


def _rel_shift(case, spec, meta, out, off, scale, rel, mech, is_int, int_tol):
    if meta['thr_mode'] == 'tie' or (is_int and meta['thr_mode'] == 'mid'):
        case.note('shift_skipped_threshold_tie')
        return
    rng = case.rng
    data = spec['data']
    if is_int:
        info = np.iinfo(data.dtype)
        c = int(scenes._pick(rng, [1, 3, 16, 100, 1000]))
        if int(data.max()) + c > info.max:
            return
        d2 = (data + data.dtype.type(c)).astype(data.dtype)
    else:
        # the shift is a multiple of the noise amplitude of the image; it is itself a pedestal of up to 1e9 noise
        # amplitudes (float64) as long as pedestal already present + shift stay below ~2e9
        unit = float(meta.get('unit', 1.0))
        ratio = float(meta.get('pedestal_ratio') or 0.0)
        facs = [1.0, -2.0, 0.5, 1024.0, -65536.0, 3.7, -0.01, 1e4, 2.0 ** 20, -2.0 ** 27, 1e9, -1e8]
        if meta['dtype'] == 'float32':
            facs = [1.0, -2.0, 0.5, 256.0]
        facs = [f for f in facs if abs(f) + ratio <= 2e9]
        fac = float(scenes._pick(rng, facs))
        c = fac * unit
        if abs(fac) >= 1e6:
            case.note('shift_is_large_pedestal')
        d2 = (data + data.dtype.type(c)).astype(data.dtype)
        if meta['dtype'] == 'float32':
            fin = np.isfinite(data)
            if not np.array_equal(d2[fin].astype(float) - c, data[fin].astype(float)):
                case.note('shift_skipped_float32_input_not_exactly_shiftable')
                return
    thr = spec['thr']
    o2 = scenes.outputs(scenes.construct(dict(spec, data=d2, thr=None if thr is None else thr + c)))
    atol = rel * (scale + abs(c)) + int_tol
    sfx = '_int' if is_int else ''
    m = dict(mech, rel='shift')
    ins = None
    if is_int:
        ins = _int_inside([spec, dict(spec, data=d2, thr=None if thr is None else thr + c)], np.iinfo(data.dtype))
        if ins is None:
            return
    gi = (lambda k: None) if ins is None else (lambda k: ins[k])
    _close_split(case, o2['mesh'], _fl(out['mesh']) + c, 'shift_mesh' + sfx, atol, m, gi('mesh'))
    _close_split(case, o2['rmesh'], _fl(out['rmesh']), 'shift_rms_mesh' + sfx, atol, m, gi('rmesh'))
    case.close(o2['npix'], out['npix'], 'shift_npixels', mech=m)
    if not is_int:
        nrm = scale + abs(c)
        sf = '_f32' if meta['dtype'] == 'float32' else ''
        case.dev('shift_mesh_over_magnitude' + sf, np.max(np.abs(_fl(o2['mesh']) - (_fl(out['mesh']) + c))) / nrm)
        case.dev('shift_rms_mesh_over_magnitude' + sf, np.max(np.abs(_fl(o2['rmesh']) - _fl(out['rmesh']))) / nrm)
    _close_split(case, o2['bkg'], _fl(out['bkg']) + c, 'shift_background' + sfx, atol, m, gi('bkg'), sel=off)
    _close_split(case, o2['rms'], _fl(out['rms']), 'shift_background_rms' + sfx, atol, m, gi('rms'), sel=off)
    case.close(_fl(o2['bkg'])[~off], _fl(out['bkg'])[~off], 'shift_fill_unchanged', mech=m)
    case.note('shift_cases')


def _rel_scale(case, spec, meta, out, off, scale, rel, mech, is_int, int_tol, pow2_only=False):
    rng = case.rng
    data = spec['data']
    if is_int and meta['thr_mode'] in ('mid', 'tie'):
        # integer meshes are truncated statistics: k*trunc(x) and trunc(k*x) fall on different sides of a threshold
        case.note('scale_skipped_int_threshold_inside_mesh_range')
        return
    pow2 = bool(rng.random() < 0.6) or meta['dtype'] == 'float32' or pow2_only  # float32: only exact scalings
    if pow2_only and is_int:
        return
    if is_int:
        k = int(scenes._pick(rng, [2, 4, 3, 10]))
        info = np.iinfo(data.dtype)
        if int(data.max()) * k > info.max or int(data.min()) * k < info.min:
            return
        d2 = (data * data.dtype.type(k)).astype(data.dtype)
        pow2 = False
    elif pow2:
        ks = [2.0, 0.5, 4.0, 1024.0, 2.0 ** -10, 0.25]
        if meta['dtype'] == 'float64':
            ks += [2.0 ** -40, 2.0 ** 30, 2.0 ** -25]
        k = float(scenes._pick(rng, ks))
        d2 = (data * data.dtype.type(k)).astype(data.dtype)
    else:
        k = float(scenes._pick(rng, [3.7, 0.013, 10.0, 1e3, 0.3, 1e-8, 1e7]))
        d2 = (data * data.dtype.type(k)).astype(data.dtype)
        if meta['thr_mode'] == 'tie':
            case.note('scale_skipped_threshold_tie')
            return
    thr = spec['thr']
    o2 = scenes.outputs(scenes.construct(dict(spec, data=d2, thr=None if thr is None else thr * k)))
    atol = 0.0 if pow2 else rel * scale * k + int_tol * k
    sfx = '_int' if is_int else ''
    m = dict(mech, rel='scale_pow2' if pow2 else 'scale')
    ins = None
    if is_int:
        ins = _int_inside([spec, dict(spec, data=d2, thr=None if thr is None else thr * k)], np.iinfo(data.dtype))
        if ins is None:
            return
    gi = (lambda q: None) if ins is None else (lambda q: ins[q])
    _close_split(case, o2['mesh'], _fl(out['mesh']) * k, 'scale_mesh' + sfx, atol, m, gi('mesh'))
    _close_split(case, o2['rmesh'], _fl(out['rmesh']) * k, 'scale_rms_mesh' + sfx, atol, m, gi('rmesh'))
    case.close(o2['npix'], out['npix'], 'scale_npixels', mech=m)
    if not is_int and not pow2:
        nrm = scale * k
        case.dev('scale_mesh_over_magnitude', np.max(np.abs(_fl(o2['mesh']) - _fl(out['mesh']) * k)) / nrm)
        case.dev('scale_rms_mesh_over_magnitude', np.max(np.abs(_fl(o2['rmesh']) - _fl(out['rmesh']) * k)) / nrm)
    _close_split(case, o2['bkg'], _fl(out['bkg']) * k, 'scale_background' + sfx, atol, m, gi('bkg'), sel=off)
    _close_split(case, o2['rms'], _fl(out['rms']) * k, 'scale_background_rms' + sfx, atol, m, gi('rms'), sel=off)
    case.close(_fl(o2['bkg'])[~off], _fl(out['bkg'])[~off], 'scale_fill_unchanged', mech=m)
    case.note('scale_pow2_cases' if pow2 else 'scale_general_cases')
