"""C19 Radial profiles and curves of growth are consistent with aperture photometry.

M1: CurveOfGrowth / RadialProfile arrays vs (A) circular-aperture photometry with the union mask, taken
    literally from the property statement, and (B) the harness's own masked sums over full-frame aperture
    weight images.
M2: constant image -> that constant in every bin; non-negative data -> non-decreasing curve of growth;
    calc_radius_at_ee / calc_ee_at_radius invert each other at the sampled radii of the monotone part.
M3: random histories of first reads interleaved with normalize('max'|'sum') / unnormalize() against a freshly
    constructed, never normalised object.
M4 (ride-along): data, error and the caller's mask are unchanged.
"""
from __future__ import annotations

import numpy as np

from pv import core
from pv.ref import c19_profiles as R

ID = 'C19'
RULE = ('random images 9x9..45x45 (gaussian source + noise, constant, non-negative, negative rings, NaN/inf '
        'pixels, units), centres inside / within 2 px of the edge / outside the image, 2-12 non-uniform radii '
        '(RadialProfile edges optionally starting at 0), optional partial masks and error maps (optionally with '
        'non-finite entries), methods exact / center / subpixel(1..7); every case builds a RadialProfile or a '
        'CurveOfGrowth, reads its arrays, and runs a random history of 4-30 steps: first reads, normalize / '
        'unnormalize, and calls of the derived quantities (calc_ee_at_radius / calc_radius_at_ee at nodes and in '
        'between, gaussian_fit/profile/fwhm, apertures, data_profile) placed before and after the mutators; non-trivial = at least 2 radii whose apertures overlap unmasked pixels with a non-zero sum; '
        'distinct by digest of (data, error, mask, centre, radii, method, history)')
CLASSES = ['rp_basic', 'cog_basic', 'constant', 'nonneg', 'edge', 'offedge', 'masked', 'nonfinite', 'errors',
           'methods', 'units', 'neg_rings', 'history_rp', 'history_cog', 'ee_roundtrip']
MUST_REACH = ['photutils.profiles.core:ProfileBase._compute_mask',
              'photutils.profiles.core:ProfileBase._photometry',
              'photutils.profiles.core:ProfileBase.normalize',
              'photutils.profiles.core:ProfileBase.unnormalize',
              'photutils.profiles.radial_profile:RadialProfile.profile',
              'photutils.profiles.radial_profile:RadialProfile.profile_error',
              'photutils.profiles.radial_profile:RadialProfile.area',
              'photutils.profiles.radial_profile:RadialProfile.data_profile',
              'photutils.profiles.curve_of_growth:CurveOfGrowth.profile',
              'photutils.profiles.curve_of_growth:CurveOfGrowth.calc_ee_at_radius',
              'photutils.profiles.curve_of_growth:CurveOfGrowth.calc_radius_at_ee']
ANCHOR_FILES = ['profiles/core.py', 'profiles/radial_profile.py', 'profiles/curve_of_growth.py', 'aperture/core.py']
MIN_NONTRIVIAL = {'quick': 2000, 'thorough': 40000}
ASSUMPTIONS = ['photutils.aperture.CircularAperture (to_mask, do_photometry, area_overlap) is the trusted base '
               'here; it is judged by C01/C02',
               'scipy PchipInterpolator is trusted; the round trip is demanded only at the sampled radii of the '
               'strictly increasing prefix of an all-finite curve of growth',
               'the value of data_profile while the profile is normalised is not judged (only its restoration)']

RT_EXACT = 0.0      # route A: same arithmetic
RT_SUM = 1e-10      # route B: summation order, relative to sum(w*|data|)
RT_HIST = 1e-12     # normalise / unnormalise rounding


def plan(tier):
    if tier == 'thorough':
        return dict(shards=16, cases=30000, timeout=2400, budget_s=700)
    return dict(shards=6, cases=800, timeout=600, budget_s=65)


def selftest():
    R.selftest()


# ----------------------------------------------------------------------
def _gen(case):
    import astropy.units as u
    rng, cls = case.rng, case.cls
    ny, nx = int(rng.integers(9, 46)), int(rng.integers(9, 46))
    if rng.random() < 0.7:
        ny, nx = min(ny, 31), min(nx, 31)
    # generic axes: own stream seeded from the case rng, drawn independently of the generator class
    ax = np.random.default_rng(int(rng.integers(0, 2 ** 62)))
    axes = []
    if ax.random() < 0.08:              # axis (iv): 1xN / Nx1 / strongly elongated images
        a_, b_ = int(ax.choice([1, 1, 2, 3])), int(ax.integers(9, 46))
        ny, nx = (a_, b_) if ax.random() < 0.5 else (b_, a_)
        axes.append('shape_elongated')
    shape = (ny, nx)
    yy, xx = np.mgrid[0:ny, 0:nx]
    # centre
    place = 'inside'
    if cls == 'edge':
        place = 'edge'
    elif cls == 'offedge':
        place = 'off'
    elif rng.random() < 0.25:
        place = str(rng.choice(['edge', 'off']))
    if place == 'inside':
        xc = rng.uniform(2, nx - 3) if nx >= 6 else rng.uniform(-0.5, nx - 0.5)
        yc = rng.uniform(2, ny - 3) if ny >= 6 else rng.uniform(-0.5, ny - 0.5)
    elif place == 'edge':
        xc = float(rng.choice([rng.uniform(-0.5, 1.5), rng.uniform(nx - 2.5, nx - 0.5)]))
        yc = rng.uniform(-0.5, ny - 0.5)
        if rng.random() < 0.5:
            xc, yc = rng.uniform(-0.5, nx - 0.5), float(rng.choice([rng.uniform(-0.5, 1.5),
                                                                     rng.uniform(ny - 2.5, ny - 0.5)]))
    else:
        d = rng.uniform(0.5, 6.0)
        xc, yc = (-d, rng.uniform(0, ny - 1)) if rng.random() < 0.5 else (rng.uniform(0, nx - 1), ny - 1 + d)
        if rng.random() < 0.2:
            xc, yc = -d, -d
    if ax.random() < 0.12:
        # axis2 (viii): each of the four borders and four corners separately (the left/bottom border is a different
        # code path from the right/top one); the centre lies within 1.5 px inside or outside of that border
        where = str(ax.choice(['left', 'right', 'bottom', 'top', 'corner_ll', 'corner_lr', 'corner_ul', 'corner_ur']))
        off = lambda: float(ax.uniform(-1.5, 1.5))           # noqa: E731
        xin, yin = float(ax.uniform(0, nx - 1)), float(ax.uniform(0, ny - 1))
        xc = {'left': -0.5 + off(), 'right': nx - 0.5 + off()}.get(where, xin)
        yc = {'bottom': -0.5 + off(), 'top': ny - 0.5 + off()}.get(where, yin)
        if where.startswith('corner'):
            xc = (-0.5 if where[-1] == 'l' else nx - 0.5) + off()
            yc = (-0.5 if where[-2] == 'l' else ny - 0.5) + off()
        place = 'edge'
        axes.append('2_centre_near_' + where)
    if ax.random() < 0.08:
        # axis2 (ix): centre exactly at k or k + 0.5, both parities
        xc = float(np.floor(xc)) + float(ax.choice([0.0, 0.5]))
        yc = float(np.floor(yc)) + float(ax.choice([0.0, 0.5]))
        axes.append('2_centre_exact_k_or_half')
    if rng.random() < 0.2:
        xc, yc = float(np.round(xc)), float(np.round(yc))
    if rng.random() < 0.1:
        xc, yc = float(np.round(xc * 2) / 2), float(np.round(yc * 2) / 2)
    rr = np.hypot(xx - xc, yy - yc)

    # data
    kind = 'source'
    if cls == 'constant':
        kind = 'constant'
    elif cls == 'nonneg':
        kind = str(rng.choice(['nonneg_random', 'nonneg_source', 'nonneg_sparse']))
    elif cls in ('neg_rings', 'ee_roundtrip'):
        kind = 'neg_rings' if (cls == 'neg_rings' or rng.random() < 0.6) else 'clean_source'
    elif cls == 'history_cog':
        kind = str(rng.choice(['source', 'neg_rings', 'clean_source']))
    elif rng.random() < 0.15:
        kind = str(rng.choice(['constant', 'nonneg_random', 'neg_rings', 'clean_source']))
    sig = rng.uniform(1.0, 5.0)
    amp = rng.uniform(5, 500)
    src = amp * np.exp(-0.5 * rr ** 2 / sig ** 2)
    if kind == 'source':
        data = src + rng.normal(0, rng.uniform(0.01, 2.0), shape)
    elif kind == 'clean_source':
        data = src + 0.01
    elif kind == 'constant':
        data = np.full(shape, float(rng.choice([1.0, -3.5, 0.1, 7.25, 1e6, rng.normal()])))
    elif kind == 'nonneg_random':
        data = rng.random(shape) * rng.choice([1.0, 100.0])
    elif kind == 'nonneg_source':
        data = src + np.abs(rng.normal(0, 0.5, shape))
    elif kind == 'nonneg_sparse':
        data = np.where(rng.random(shape) < 0.2, rng.random(shape) * 10, 0.0)
    else:  # neg_rings
        data = src + 0.01
        for _ in range(int(rng.integers(1, 3))):
            r0 = rng.uniform(1.0, 0.7 * max(shape))
            w = rng.uniform(0.5, 3.0)
            data[(rr >= r0) & (rr < r0 + w)] = -rng.uniform(0.5, 1.5) * amp * 0.2

    # radii
    nrad = int(rng.integers(2, 13))
    rmax = rng.uniform(2.0, 1.2 * max(shape) / 2 + 4)
    if rng.random() < 0.3:
        radii = np.linspace(rmax / nrad, rmax, nrad)
    elif rng.random() < 0.5:
        radii = np.sort(rng.uniform(0.05, rmax, nrad))
    else:
        radii = np.cumsum(rng.uniform(0.05, 2 * rmax / nrad, nrad))
    if rng.random() < 0.25:
        radii = np.round(radii * 2) / 2 + 0.5          # integer / half-integer radii
    if ax.random() < 0.1:
        # axis2 (ix): radii exactly integer or exactly half-integer (aperture edges through pixel centres / corners)
        kmax = max(3, int(np.ceil(rmax)))
        ks = np.sort(ax.choice(np.arange(1, kmax + 1), size=min(kmax, max(2, nrad)), replace=False)).astype(float)
        radii = ks if ax.random() < 0.5 else ks - 0.5
        axes.append('2_radii_exact_integer_or_half')
    radii = np.unique(np.round(radii, 6))
    radii = radii[radii > 0]
    if radii.size < 2:
        radii = np.array([0.7, 1.9, 3.3])
    if cls in ('ee_roundtrip', 'history_cog') and radii.size < 4:
        radii = np.cumsum(rng.uniform(0.4, 2.0, int(rng.integers(4, 10))))

    if cls in ('ee_roundtrip', 'history_cog', 'cog_basic') and rng.random() < 0.35:
        # near-duplicate radii: with method='center' (forced below) no pixel centre lies between them, which
        # gives exactly equal consecutive sums (a flat step in the curve of growth)
        j = int(rng.integers(1, radii.size))
        radii = np.unique(np.round(np.concatenate([radii, [radii[j] + 0.003]]), 6))
        force_center = True
    else:
        force_center = False

    # profile class
    if cls in ('cog_basic', 'nonneg', 'ee_roundtrip', 'history_cog'):
        pclass = 'cog'
    elif cls in ('rp_basic', 'history_rp'):
        pclass = 'rp'
    else:
        pclass = str(rng.choice(['rp', 'cog']))
    if pclass == 'rp' and rng.random() < 0.5:
        radii = np.concatenate([[0.0], radii])

    # mask
    mask = None
    if cls == 'masked' or rng.random() < 0.3:
        mk = str(rng.choice(['random', 'half', 'disk', 'random_dense']))
        if mk == 'random':
            mask = rng.random(shape) < 0.15
        elif mk == 'random_dense':
            mask = rng.random(shape) < 0.6
        elif mk == 'half':
            mask = (xx > xc + rng.uniform(-2, 2)) if rng.random() < 0.5 else (yy < yc + rng.uniform(-2, 2))
        else:
            r0 = rng.uniform(0.5, 4)
            mask = rr < r0
    # non-finite values
    nonfinite = cls == 'nonfinite' or rng.random() < 0.12
    if nonfinite:
        k = int(rng.integers(1, 8))
        ys, xs = rng.integers(0, ny, k), rng.integers(0, nx, k)
        data[ys, xs] = rng.choice([np.nan, np.inf, -np.inf], k)
        if mask is None and rng.random() < 0.5:
            mask = np.zeros(shape, bool)            # a caller-owned mask that does not cover them
    # errors
    error = None
    if cls == 'errors' or rng.random() < 0.4:
        error = rng.uniform(0.2, 3.0, shape)
        if rng.random() < 0.3:
            error = np.sqrt(np.abs(data) + 1.0)
            error[~np.isfinite(error)] = 1.0
        if (nonfinite or cls == 'errors') and rng.random() < 0.3:
            k = int(rng.integers(1, 5))
            error[rng.integers(0, ny, k), rng.integers(0, nx, k)] = rng.choice([np.nan, np.inf], k)
    # method
    method, subpixels = 'exact', 5
    if cls == 'methods' or rng.random() < 0.35:
        method = str(rng.choice(['exact', 'center', 'subpixel']))
        subpixels = int(rng.choice([1, 2, 3, 5, 7]))
    if force_center:
        method = 'center'
    unit = None
    if cls == 'units' or rng.random() < 0.1:
        unit = [u.Jy, u.adu, u.electron / u.s][int(rng.integers(0, 3))]
    # ---- generic axes -------------------------------------------------------------------------------
    # (i) magnitude: one overall scale for data and error (about 60 % of the cases stay at 1)
    mag = 1.0
    if ax.random() < 0.3:
        mag = float(2.0 ** int(ax.integers(-60, 41))) if ax.random() < 0.5 else float(10.0 ** int(ax.integers(-20, 11)))
        data = data * mag
        if error is not None:
            error = error * mag
        axes.append('magnitude_not_1')
        if mag <= 1e-9:
            axes.append('magnitude_below_1e-9')
        if mag >= 1e6:
            axes.append('magnitude_above_1e6')
    # (vi) degenerate: everything masked
    if ax.random() < 0.02:
        mask = np.ones(shape, bool)
        axes.append('degenerate_all_masked')
    # axis2 (xi): special masks -- all False (caller-owned, must stay unmodified), all True, only the peak pixel
    if ax.random() < 0.07:
        which = str(ax.choice(['all_false', 'all_true', 'peak_only']))
        if which == 'all_false':
            mask = np.zeros(shape, bool)
        elif which == 'all_true':
            mask = np.ones(shape, bool)
        else:
            mask = np.zeros(shape, bool)
            fin_ = np.where(np.isfinite(data), data, -np.inf)
            mask[np.unravel_index(int(np.argmax(fin_)), shape)] = True
        axes.append('2_mask_' + which)
    # (iii) memory layout / dtype of the image arrays (the values are first rounded to the representation, so the
    #       reference sees exactly the numbers the library is given)
    layout = 'c'
    if ax.random() < 0.15:
        layout = str(ax.choice(['fortran', 'strided', 'bigendian', 'float32', 'int', 'uint16', 'uint8', 'int16',
                                'uint32', 'float16', 'uint16', 'float32']))
        if layout in ('uint16', 'uint8', 'int16', 'uint32', 'float16'):
            # axis2 (vii): narrow / unsigned image dtype.  The image is rescaled into the range of the dtype and
            # rounded to what it holds; the reference works on the float64 copy of exactly those values
            top = {'uint16': 60000.0, 'uint8': 250.0, 'int16': 32000.0, 'uint32': 4.0e9, 'float16': 1000.0}[layout]
            amax = float(np.max(np.abs(data))) if np.all(np.isfinite(data)) else 0.0
            if amax > 0:
                fac = top / amax
                with np.errstate(all='ignore'):
                    d_ = data * fac
                    if layout.startswith('u'):
                        d_ = np.clip(d_, 0, None)
                    d_ = d_.astype('f2').astype(float) if layout == 'float16' else np.round(d_)
                if np.all(np.isfinite(d_)):
                    data = d_
                    if error is not None:
                        error = error * fac
                    axes.append('2_dtype_' + layout)
                else:
                    layout = 'fortran'
            else:
                layout = 'fortran'
        if layout == 'float32':
            # only the image is float32: a float32 *error* map is squared in float32 by the aperture code
            # (relative 6e-8, observed 4.6e-8 against the float64 reference) -- representation dependence of
            # aperture photometry is C02/C15's subject, not judged here
            with np.errstate(all='ignore'):
                d32 = data.astype('f4').astype(float)
            if np.array_equal(np.isfinite(d32), np.isfinite(data)):
                data = d32
            else:
                layout = 'fortran'
        if layout == 'int':
            if np.all(np.isfinite(data)) and float(np.max(np.abs(data))) < 2 ** 50 and float(np.max(np.abs(data))) >= 4:
                data = np.round(data)
            else:
                layout = 'strided'
        axes.append('layout_' + layout)
    # (ii) call forms of xycen / radii / subpixels
    forms = dict(xycen='tuple', radii='array', subpixels='int')
    if ax.random() < 0.1:
        forms['xycen'] = str(ax.choice(['list', 'array', 'numpy_scalars']))
        forms['radii'] = str(ax.choice(['list', 'tuple', 'array']))
        forms['subpixels'] = str(ax.choice(['int', 'numpy_int']))
        if forms['subpixels'] == 'numpy_int' and method == 'subpixel':
            # PixelAperture._translate_mask_mode tests isinstance(subpixels, int): a numpy integer is rejected with
            # 'subpixels must be a strictly positive integer' (aperture code, C01/C02/C15's subject): counted only
            forms['subpixels'] = 'int'
            axes.append('callform_numpy_int_subpixels_not_used_rejected_by_aperture_code')
        axes.append('callform_xycen_radii')
    return dict(shape=shape, xycen=(float(xc), float(yc)), place=place, kind=kind, data=data, radii=radii,
                pclass=pclass, mask=mask, error=error, method=method, subpixels=subpixels, unit=unit,
                nonfinite=bool(nonfinite), mag=mag, layout=layout, forms=forms, axes=axes)


def _layout(arr, layout, is_data=False):
    """A fresh array holding the same values in the requested memory layout / dtype."""
    if arr is None:
        return None
    if layout == 'fortran':
        return np.asfortranarray(arr.copy())
    if layout == 'strided':
        big = np.zeros((arr.shape[0] * 2 + 1, arr.shape[1] * 3 + 2), dtype=arr.dtype)
        view = big[1::2, 2::3]
        view[...] = arr
        return view
    if layout == 'bigendian' and arr.dtype.kind == 'f':
        return arr.astype('>f8')
    if layout == 'float32' and arr.dtype.kind == 'f':
        return arr.astype('f4')
    if layout == 'int' and is_data:
        return arr.astype(np.int64)
    if layout in ('uint16', 'uint8', 'int16', 'uint32', 'float16'):
        return arr.astype(layout) if is_data else arr.copy()
    return arr.copy()


def _vals(x):
    return np.asarray(x.value) if hasattr(x, 'unit') and hasattr(x, 'value') else np.asarray(x)


def _unit(x):
    return getattr(x, 'unit', None)


def _scaled(case, obs, exp, scale, what, mech, tol):
    """|obs - exp| <= tol*scale elementwise with identical NaN/inf pattern."""
    obs, exp, scale = np.asarray(obs, float), np.asarray(exp, float), np.asarray(scale, float)
    if not case.check(obs.shape == exp.shape, what + '_shape', mech, obs=list(obs.shape), exp=list(exp.shape)):
        return False
    fin = np.isfinite(exp) & np.isfinite(scale)
    pat = np.array_equal(np.isnan(obs), np.isnan(exp)) and np.array_equal(np.isinf(obs), np.isinf(exp))
    if not case.check(pat, what + '_nan_pattern', mech, obs=obs, exp=exp):
        return False
    with np.errstate(all='ignore'):
        diff = np.abs(obs - exp)[fin]
        sc = scale[fin]
        rel = np.where(sc > 0, diff / np.where(sc > 0, sc, 1), np.where(diff > 0, np.inf, 0.0))
    dev = float(rel.max()) if rel.size else 0.0
    case.dev(what, dev)
    return case.check(dev <= tol, what, mech, dev=dev, obs=obs, exp=exp)


def _close(case, obs, exp, what, rtol=0.0, atol=0.0, mech=None):
    """case.close + a separate maximum over the evaluations that held (the plain maximum is inf as soon as one
    known-finding violation was recorded under the same name)."""
    ok, d, _ = core.same(obs, exp, rtol=rtol, atol=atol)
    if ok:
        case.dev(what + '[held]', d)
    return case.close(obs, exp, what, rtol=rtol, atol=atol, mech=mech)


def _make(g, data_in, error_in, mask_in):
    from photutils.profiles import CurveOfGrowth, RadialProfile
    klass = RadialProfile if g['pclass'] == 'rp' else CurveOfGrowth
    f = g['forms']
    xy = g['xycen']
    xy = {'tuple': xy, 'list': list(xy), 'array': np.array(xy),
          'numpy_scalars': (np.float64(xy[0]), np.float64(xy[1]))}[f['xycen']]
    rd = g['radii'].copy()
    rd = {'array': rd, 'list': [float(v) for v in rd], 'tuple': tuple(float(v) for v in rd)}[f['radii']]
    sp = np.int64(g['subpixels']) if f['subpixels'] == 'numpy_int' else g['subpixels']
    return klass(data_in, xy, rd, error=error_in, mask=mask_in, method=g['method'], subpixels=sp)


def run_case(case):
    rng = case.rng
    g = _gen(case)
    unit = g['unit']
    data, error, mask, radii = g['data'], g['error'], g['mask'], g['radii']
    is_rp = g['pclass'] == 'rp'
    mech = dict(cls=case.cls, profile=g['pclass'], method=g['method'], place=g['place'])

    def inputs():
        d = _layout(data, g['layout'], is_data=True)
        e = _layout(error, 'c' if g['layout'] == 'float32' else g['layout'])
        m = _layout(mask, g['layout'])
        if unit is not None:
            d = d * unit
            e = None if e is None else e * unit
        return d, e, m

    umask = R.union_mask(data, error, mask)
    nf_outside = bool(np.any(umask & ~(mask if mask is not None else False)))

    # ---- construct; ride-along: inputs unchanged
    d_in, e_in, m_in = inputs()
    prof = _make(g, d_in, e_in, m_in)
    hist = _history(rng, case.cls, is_rp)
    case.params = dict(profile=g['pclass'], shape=list(g['shape']), xycen=[round(v, 3) for v in g['xycen']],
                       place=g['place'], data=g['kind'], nradii=int(radii.size), r0=float(radii[0]),
                       rmax=float(radii[-1]), masked=mask is not None, error=error is not None,
                       nonfinite=g['nonfinite'], method=g['method'], subpixels=g['subpixels'],
                       unit=str(unit), history=hist, magnitude=g['mag'], layout=g['layout'],
                       forms=g['forms'], axes=g['axes'])
    for a_ in g['axes']:
        case.note('axis_' + a_)
    if not g['axes']:
        case.note('axis_none_plain_case')
    case.digest = core.arr_digest(data, error, mask, radii, np.array(g['xycen'])) + core.digest(
        [g['pclass'], g['method'], g['subpixels'], str(unit), hist])

    # ---- references
    sA, eA, aA = R.aperture_route(data, g['xycen'], radii, error, umask, g['method'], g['subpixels'])
    W = R.weights_route(data, g['xycen'], radii, error, umask, g['method'], g['subpixels'])
    finiteS = np.isfinite(W['S'])
    case.nontrivial = int(np.sum(finiteS & (W['A'] > 0) & (W['S'] != 0))) >= 2

    # ---- M3 history on the live object against a fresh, never-normalised object
    d_f, e_f, m_f = inputs()
    fresh = _make(g, d_f, e_f, m_f)
    P0, E0 = fresh.profile, fresh.profile_error
    mech_h = dict(mech, profile_all_nan=bool(np.all(np.isnan(_vals(P0)))))
    if is_rp:
        # data_profile of a source whose largest circle does not reach the image
        (xc, yc), rmax = g['xycen'], float(radii[-1])
        misses = bool(xc + rmax < 0 or xc - rmax > g['shape'][1] - 1 or yc + rmax < 0 or yc - rmax > g['shape'][0] - 1)
        try:
            fresh.data_profile
        except ValueError as exc:
            if core.exc_location(exc) is None:
                raise
            m = dict(core.exc_mech(exc), array='data_profile', largest_circle_misses_image=misses)
            case.check(False, 'raised', m, msg=str(exc)[:200])
            hist = [h for h in hist if h not in ('read:data_profile', 'read:data_radius')]
            is_rp_hist = False
        else:
            is_rp_hist = True
            if misses:
                case.check(fresh.data_profile.size == 0, 'data_profile_empty_when_circle_misses_image', mech)
    else:
        is_rp_hist = False
    if np.isinf(_vals(P0)).any():
        case.note('history_skipped_infinite_profile_value')
    else:
        def make():
            d, e, m_ = inputs()
            return _make(g, d, e, m_)

        gauss_ok = False
        if is_rp and any(h.startswith('read:gaussian') for h in hist):
            pv = _vals(P0)
            gauss_ok = bool(g['kind'] in ('source', 'clean_source', 'nonneg_source') and g['place'] == 'inside'
                            and int(np.isfinite(pv).sum()) >= 4)
        _run_history(case, prof, fresh, hist, is_rp_hist, mech_h, make, gauss_ok=gauss_ok, is_cog=not is_rp)

    # ---- definitional oracles on the fresh object (unnormalised by construction)
    p, pe, area, radius = _vals(P0), _vals(E0), np.asarray(fresh.area), np.asarray(fresh.radius)
    if unit is not None:
        case.check(_unit(P0) == unit, 'profile_unit', mech, obs=str(_unit(P0)), exp=str(unit))
        if error is not None:
            case.check(_unit(E0) == unit, 'profile_error_unit', mech, obs=str(_unit(E0)))
    if not is_rp:
        case.close(radius, radii, 'cog_radius_is_radii', mech=mech)
        case.close(p, sA, 'cog_profile_vs_aperture_sums', rtol=RT_EXACT, mech=mech)
        case.close(area, aA, 'cog_area_vs_area_overlap', rtol=RT_EXACT, mech=mech)
        if error is not None:
            case.close(pe, eA, 'cog_error_vs_aperture_errors', rtol=RT_EXACT, mech=mech)
        else:
            case.check(pe.size == 0, 'profile_error_empty_without_error', mech, size=int(pe.size))
        _scaled(case, p, W['S'], W['Sabs'], 'cog_profile_vs_weight_sums', mech, RT_SUM)
        _scaled(case, area, W['A'], W['A'], 'cog_area_vs_weight_sums', mech, RT_SUM)
        if error is not None:
            _scaled(case, pe ** 2, W['V'], W['V'], 'cog_variance_vs_weight_sums', mech, RT_SUM)
        if g['kind'].startswith('nonneg') or (g['kind'] == 'constant' and data[np.isfinite(data)][0] >= 0):
            fin = np.isfinite(p)
            q = p[fin]
            sc = W['Sabs'][fin]
            ok = bool(np.all(q[1:] >= q[:-1] - 1e-12 * sc[1:])) if q.size > 1 else True
            case.check(ok, 'cog_nondecreasing_for_nonnegative_data', mech, profile=p)
        if g['kind'] == 'constant':
            c = float(data[np.isfinite(data)][0])
            _scaled(case, p, c * W['A'], np.abs(c) * W['A'], 'cog_constant_image', mech, RT_SUM)
        _roundtrip(case, fresh, mech)
    else:
        case.close(radius, 0.5 * (radii[:-1] + radii[1:]), 'rp_radius_is_bin_centres', mech=mech)
        with np.errstate(all='ignore'):
            dS, dA = np.diff(sA), np.diff(aA)
            case.close(area, dA, 'rp_area_vs_area_difference', rtol=RT_EXACT, mech=mech)
            case.close(p, dS / dA, 'rp_profile_vs_aperture_differences', rtol=RT_EXACT, mech=mech)
            if error is not None:
                case.close(pe, np.sqrt(np.diff(eA ** 2)) / dA, 'rp_error_vs_quadrature_difference',
                           rtol=RT_EXACT, mech=mech)
            else:
                case.check(pe.size == 0, 'profile_error_empty_without_error', mech, size=int(pe.size))
            # route B; bins whose unmasked area is (numerically) zero are degenerate 0/0 and are not judged
            dSb, dAb, dVb = np.diff(W['S']), np.diff(W['A']), np.diff(W['V'])
            Aout, Sabs_out = W['A'][1:], W['Sabs'][1:]
            ok_bin = np.isfinite(dAb) & (dAb > 1e-9 * np.maximum(Aout, 1e-300)) & (dAb > 1e-9)
            case.note('rp_bins_judged_by_weights', int(ok_bin.sum()))
            case.note('rp_bins_degenerate', int((~ok_bin).sum()))
            if ok_bin.any():
                _scaled(case, area[ok_bin], dAb[ok_bin], Aout[ok_bin], 'rp_area_vs_weight_sums', mech, RT_SUM)
                _scaled(case, p[ok_bin], dSb[ok_bin] / dAb[ok_bin], Sabs_out[ok_bin] / dAb[ok_bin],
                        'rp_profile_vs_weight_sums', mech, RT_SUM)
                if error is not None:
                    _scaled(case, (pe[ok_bin] * area[ok_bin]) ** 2, dVb[ok_bin], W['V'][1:][ok_bin],
                            'rp_variance_vs_weight_sums', mech, RT_SUM)
                if g['kind'] == 'constant':
                    c = float(data[np.isfinite(data)][0])
                    _scaled(case, p[ok_bin], np.full(int(ok_bin.sum()), c),
                            np.abs(c) * Aout[ok_bin] / dAb[ok_bin], 'rp_constant_image', mech, 1e-12)

    # ---- inputs unchanged
    case.check(core.exact(_vals(d_in), data), 'data_unchanged', mech)
    if error is not None:
        case.check(core.exact(_vals(e_in), error), 'error_unchanged', mech)
    if mask is not None:
        case.check(np.array_equal(m_in, mask), 'mask_unchanged',
                   dict(input='mask', nonfinite_outside_mask=nf_outside, profile=g['pclass']),
                   changed=int(np.sum(m_in != mask)))


# ----------------------------------------------------------------------
def _history(rng, cls, is_rp):
    """Random history: first reads, mutators (normalize / unnormalize) and -- as steps of the history -- calls of
    every derived quantity that an implementation could cache: the two encircled-energy interpolators of a
    CurveOfGrowth (at the sampled radii / node values and in between), gaussian_fit / gaussian_profile /
    gaussian_fwhm of a RadialProfile, area, data_profile, apertures.  Interpolator calls are additionally forced
    before and after mutators so that 'call -> change of normalisation -> call' sequences are frequent."""
    reads = ['profile', 'profile_error', 'area', 'radius', 'apertures']
    derived = []
    if is_rp:
        reads += ['data_profile', 'data_profile', 'data_radius']
        derived = ['read:gaussian_fit', 'read:gaussian_profile', 'read:gaussian_fwhm']
    else:
        derived = ['interp:ee_nodes', 'interp:ee_between', 'interp:rad_nodes', 'interp:rad_between',
                   'interp:roundtrip']
    long = cls.startswith('history') or cls == 'ee_roundtrip'
    n = int(rng.integers(6, 15)) if long else int(rng.integers(3, 8))
    pd = 0.3 if not is_rp else (0.12 if long else 0.04)        # gaussian fits cost ~10 ms each
    ops = []
    for _ in range(n):
        r = rng.random()
        if r < pd:
            ops.append(str(rng.choice(derived)))
        elif r < 0.5:
            ops.append('read:' + str(rng.choice(reads)))
        elif r < 0.78:
            ops.append('normalize:' + str(rng.choice(['max', 'sum'])))
        else:
            ops.append('unnormalize')
    if not is_rp:
        out = []
        for op in ops:
            mut = op.startswith('normalize') or op == 'unnormalize'
            if mut and rng.random() < 0.6:
                out.append(str(rng.choice(derived)))
            out.append(op)
            if mut and rng.random() < 0.7:
                out.append(str(rng.choice(derived)))
        ops = out
    return ops


def _run_history(case, prof, fresh, hist, is_rp, mech, make, gauss_ok=False, is_cog=False):
    P0, E0 = _vals(fresh.profile), _vals(fresh.profile_error)
    D0 = _vals(fresh.data_profile) if is_rp else None
    DR0 = np.asarray(fresh.data_radius) if is_rp else None
    A0, R0 = np.asarray(fresh.area), np.asarray(fresh.radius)
    unit0 = _unit(fresh.profile)
    N = 1.0                     # model of the accumulated normalisation
    normalized = False          # a normalize() has been applied since the last unnormalize()
    first_read = {}             # array name -> state at its first read
    model_ok = True
    mutators = []               # the mutator calls applied so far (replayed on replicas)
    epoch = 0                   # incremented by every mutator call
    seen = {}                   # derived quantity -> epoch of its first call on the live object
    frozen = {}                 # gaussian quantities at their first read (documented as frozen afterwards)
    radii0 = np.asarray(fresh.radii, float)

    def replica():
        """a brand-new object brought to the same normalisation state by replaying the mutators only."""
        obj = make()
        for mu in mutators:
            if mu[0] == 'normalize':
                obj.normalize(method=mu[1])
            else:
                obj.unnormalize()
        case.note('replicas_built')
        return obj

    def stale(name):
        """structural flag: the quantity was already called on this instance in an earlier normalisation epoch."""
        first = seen.setdefault(name, epoch)
        return bool(first < epoch)

    def state():
        return 'while_normalized' if normalized else 'unnormalized'

    def check_arrays(names, when):
        """arrays read in an unnormalised state must equal the fresh object's."""
        for name in names:
            first_read.setdefault(name, state())
            obs = getattr(prof, name)
            exp = {'profile': P0, 'profile_error': E0, 'data_profile': D0}[name]
            m = dict(mech, array=name, first_read=first_read[name], when=when)
            if unit0 is not None and obs.size:
                case.check(_unit(obs) == unit0 or (name == 'data_profile'), 'restored_unit', m,
                           obs=str(_unit(obs)), exp=str(unit0))
            _close(case, _vals(obs), exp, 'restored_after_unnormalize' if when != 'never_normalized'
                   else 'unnormalized_read_vs_fresh', rtol=RT_HIST, mech=m)

    arrays = ['profile', 'profile_error'] + (['data_profile'] if is_rp else [])
    nnorm = 0
    for op in hist:
        if op.startswith('read:'):
            name = op[5:]
            if name.startswith('gaussian'):
                if gauss_ok:
                    _gaussian_step(case, prof, name, replica, frozen, stale('gaussian'), mech)
                else:
                    case.note('gaussian_step_skipped_fit_not_applicable')
                continue
            if name == 'apertures':
                _apertures_step(case, prof, radii0, is_cog, dict(mech, array='apertures', stale_opportunity=stale(name)))
                continue
            val = getattr(prof, name)
            if name in arrays:
                first_read.setdefault(name, state())
            if name == 'area':
                case.close(np.asarray(val), A0, 'area_never_rescaled', mech=dict(mech, array='area'))
            elif name == 'radius':
                case.close(np.asarray(val), R0, 'radius_never_rescaled', mech=dict(mech, array='radius'))
            elif name == 'data_radius':
                case.close(np.asarray(val), DR0, 'data_radius_never_rescaled', mech=dict(mech, array=name))
            elif not normalized:
                exp = {'profile': P0, 'profile_error': E0, 'data_profile': D0}[name]
                m = dict(mech, array=name, first_read=first_read[name],
                         when='after_unnormalize' if nnorm else 'never_normalized')
                _close(case, _vals(val), exp, 'restored_after_unnormalize' if nnorm else 'unnormalized_read_vs_fresh',
                       rtol=RT_HIST, mech=m)
            elif name in ('profile', 'profile_error') and model_ok:
                # what normalize() means: the arrays divided by the accumulated normalisation
                exp = {'profile': P0, 'profile_error': E0}[name] / N
                case.close(_vals(val), exp, 'normalized_value_vs_model', rtol=RT_HIST,
                           mech=dict(mech, array=name))
            elif name == 'data_profile':
                # first read or cached: the same value as on a fresh object brought to this normalisation state
                st = stale('data_profile')
                if model_ok:
                    case.close(_vals(val), D0 / N, 'normalized_value_vs_model', rtol=RT_HIST,
                               mech=dict(mech, array=name, stale_opportunity=st))
                if case.rng.random() < 0.5:
                    case.close(_vals(val), _vals(replica().data_profile), 'derived_vs_fresh_in_same_state',
                               rtol=RT_HIST, mech=dict(mech, array=name, stale_opportunity=st))
        elif op.startswith('interp:'):
            if not is_cog:
                continue
            st = stale('interp')
            case.note('interpolator_steps')
            if st:
                case.note('interpolator_steps_after_normalisation_change')
            _interp_step(case, prof, op[7:], replica, dict(mech, stale_opportunity=st),
                         (P0 / N) if (model_ok and np.isfinite(N)) else None)
        elif op.startswith('normalize:'):
            meth = op[10:]
            with np.errstate(all='ignore'):
                cur = P0 / N
                norm = (np.nanmax(cur) if meth == 'max' else np.nansum(cur)) if cur.size else np.nan
            prof.normalize(method=meth)
            mutators.append(('normalize', meth))
            epoch += 1
            first_read.setdefault('profile', state())
            first_read.setdefault('profile_error', state())
            nnorm += 1
            if not np.isfinite(norm) or not np.isfinite(N):
                model_ok = False
                normalized = True
                continue
            if norm != 0:
                # guard: a sum with cancellation amplifies the ulp differences between the library's running
                # profile ((P0/n1)/n2) and the model's (P0/(n1*n2)); the model is then not sharp enough to judge
                # the normalised values (the restoration checks do not depend on it)
                with np.errstate(all='ignore'):
                    scale = np.nansum(np.abs(cur)) if meth == 'sum' else abs(norm)
                if abs(norm) < 1e-3 * scale:
                    model_ok = False
                N = N * norm
                normalized = True
            if model_ok:
                nv = prof.normalization_value
                case.close(float(_vals(nv)), float(N), 'normalization_value_vs_model', rtol=1e-11,
                           mech=dict(mech, op=op))
        else:
            prof.unnormalize()
            mutators.append(('unnormalize',))
            epoch += 1
            first_read.setdefault('profile', state())
            first_read.setdefault('profile_error', state())
            normalized = False
            N = 1.0
            model_ok = True
            if nnorm:
                sub = [a for a in arrays if case.rng.random() < 0.6]
                check_arrays(sub, 'after_unnormalize')
    # final: unnormalize and read everything
    if normalized:
        prof.unnormalize()
        mutators.append(('unnormalize',))
        epoch += 1
        normalized = False
        N = 1.0
    check_arrays(arrays, 'after_unnormalize' if nnorm else 'never_normalized')
    if is_cog:
        st = stale('interp')
        case.note('interpolator_steps')
        if st:
            case.note('interpolator_steps_after_normalisation_change')
        _interp_step(case, prof, 'roundtrip', replica, dict(mech, stale_opportunity=st), P0)
    if gauss_ok and 'fit' in frozen:
        _gaussian_step(case, prof, 'gaussian_fit', replica, frozen, stale('gaussian'), mech)
    case.note('history_steps', len(hist))
    case.note('history_normalize_calls', nnorm)


def _pchip(x, y):
    from scipy.interpolate import PchipInterpolator
    return PchipInterpolator(x, y, extrapolate=False)


def _interp_step(case, cog, kind, replica, mech, p_model):
    """One call of the encircled-energy interpolators on the live object, judged against
    (a) the object's own *current* profile (trusted scipy PchipInterpolator built by the harness from it),
    (b) a brand-new object brought to the same normalisation state, and the model P0/N where it is sharp."""
    rng = case.rng
    r = np.asarray(cog.radius, float)
    p = _vals(cog.profile).astype(float)
    if not np.all(np.isfinite(p)):
        case.note('interp_step_skipped_nonfinite_profile')
        return
    if kind == 'roundtrip':
        _roundtrip(case, cog, mech)
        return
    k = R.monotone_prefix(p)
    if kind.startswith('ee'):
        if kind == 'ee_nodes':
            x = r.copy()
        else:
            x = np.concatenate([0.5 * (r[:-1] + r[1:]), rng.uniform(r[0], r[-1], 3),
                                [r[0] * 0.5, r[-1] + 1.0]])       # the last two lie outside: NaN expected
        obs = np.asarray(cog.calc_ee_at_radius(x), float)
        m = dict(mech, op='calc_ee_at_radius', at=kind[3:])
        if kind == 'ee_nodes':
            case.close(obs, p, 'ee_at_sampled_radii_is_profile', rtol=1e-12, atol=1e-13 * float(np.max(np.abs(p))),
                       mech=m)
        case.close(obs, np.asarray(_pchip(r, p)(x), float), 'ee_vs_interpolant_of_current_profile', rtol=1e-12,
                   atol=1e-15 * float(np.max(np.abs(p))), mech=m)
        if p_model is not None and np.all(np.isfinite(p_model)):
            case.close(obs, np.asarray(_pchip(r, p_model)(x), float), 'ee_vs_interpolant_of_model_profile',
                       rtol=1e-10, atol=1e-12 * float(np.max(np.abs(p_model))), mech=m)
        if rng.random() < 0.5:
            case.close(obs, np.asarray(replica().calc_ee_at_radius(x), float), 'derived_vs_fresh_in_same_state',
                       rtol=1e-12, atol=1e-15 * float(np.max(np.abs(p))), mech=dict(m, array='calc_ee_at_radius'))
        return
    # inverse
    m = dict(mech, op='calc_radius_at_ee', at=kind[4:])
    if k < 2:
        try:
            cog.calc_radius_at_ee(p[:1])
            case.check(False, 'radius_at_ee_rejects_non_monotone_start', m)
        except ValueError:
            case.check(True, 'radius_at_ee_rejects_non_monotone_start', m)
        return
    if kind == 'rad_nodes':
        e = p[:k].copy()
    else:
        e = np.concatenate([0.5 * (p[:k - 1] + p[1:k]), rng.uniform(p[0], p[k - 1], 3),
                            [p[0] - abs(p[0]) - 1.0, p[k - 1] + abs(p[k - 1]) + 1.0]])   # last two outside: NaN
    try:
        obs = np.asarray(cog.calc_radius_at_ee(e), float)
    except ValueError as exc:
        case.check(False, 'radius_at_ee_raised', dict(m, exc='ValueError',
                                                      own_message='not monotonically increasing' in str(exc),
                                                      monotone_points=min(k, 3)), msg=str(exc)[:160])
        return
    if kind == 'rad_nodes':
        truncated = k < p.size
        inner = slice(0, k - 1) if truncated else slice(0, k)
        _close(case, obs[inner], r[:k][inner], 'radius_at_ee_roundtrip', atol=1e-9, rtol=1e-9,
               mech=dict(m, where='interior', via='node_value'))
        if truncated:
            _close(case, obs[k - 1:k], r[k - 1:k], 'radius_at_ee_roundtrip', atol=1e-9, rtol=1e-9,
                   mech=dict(m, where='last_monotone_point', via='node_value'))
    case.close(obs, np.asarray(_pchip(p[:k], r[:k])(e), float), 'radius_vs_inverse_interpolant_of_current_profile',
               rtol=1e-12, atol=1e-12, mech=m)
    if rng.random() < 0.5:
        case.close(obs, np.asarray(replica().calc_radius_at_ee(e), float), 'derived_vs_fresh_in_same_state',
                   rtol=1e-12, atol=1e-12, mech=dict(m, array='calc_radius_at_ee'))


def _gaussian_step(case, rp, name, replica, frozen, st, mech):
    """gaussian_fit / gaussian_profile / gaussian_fwhm.  Documented: 'The Gaussian fit will not change if the
    profile normalization is changed after performing the fit' -- the first fit is compared with a brand-new
    object in the same normalisation state, every later read with that first fit."""
    from astropy.stats import gaussian_sigma_to_fwhm
    m = dict(mech, array=name, stale_opportunity=st)
    case.note('gaussian_steps')
    if st:
        case.note('gaussian_steps_after_normalisation_change')
    if 'fit' not in frozen:
        try:
            ref = replica().gaussian_fit
            refpar = np.array(ref.parameters, float)
        except Exception:  # noqa: BLE001  (fit not applicable to this profile: not part of the property)
            case.note('gaussian_fit_not_applicable')
            frozen['na'] = True
            return
        if not np.all(np.isfinite(refpar)):
            case.note('gaussian_fit_not_applicable')
            frozen['na'] = True
            return
    if frozen.get('na'):
        return
    val = getattr(rp, name)
    fit = rp.gaussian_fit
    par = np.array(fit.parameters, float)
    if 'fit' not in frozen:
        frozen['fit'] = par.copy()
        case.close(par, refpar, 'derived_vs_fresh_in_same_state', rtol=1e-10, mech=dict(m, array='gaussian_fit'))
    else:
        case.close(par, frozen['fit'], 'gaussian_fit_frozen_after_first_read', mech=m)
    radius = np.asarray(rp.radius, float)
    if name == 'gaussian_profile':
        # the fit object's parameters were just compared with the frozen ones; astropy evaluates the model
        case.close(_vals(val), _vals(fit(radius)), 'gaussian_profile_is_frozen_fit_at_radius', mech=m)
    elif name == 'gaussian_fwhm':
        case.close(float(val), float(frozen['fit'][2] * gaussian_sigma_to_fwhm), 'gaussian_fwhm_is_frozen_fit_width',
                   rtol=1e-14, mech=m)


def _apertures_step(case, prof, radii, is_cog, mech):
    """`apertures` describe the geometry only: same centres / radii in every normalisation state."""
    aps = prof.apertures
    ok = True
    det = {}
    if is_cog:
        ok = len(aps) == radii.size
        for ap, r in zip(aps, radii):
            if ap is None:
                ok = ok and r <= 0
            else:
                ok = ok and float(ap.r) == float(r)
    else:
        ok = len(aps) == radii.size - 1
        for i, ap in enumerate(aps):
            if hasattr(ap, 'r_in'):
                ok = ok and float(ap.r_in) == float(radii[i]) and float(ap.r_out) == float(radii[i + 1])
            else:
                ok = ok and radii[i] <= 0 and float(ap.r) == float(radii[i + 1])
    pos = [np.asarray(ap.positions, float).ravel() for ap in aps if ap is not None]
    ok = ok and all(np.array_equal(q, np.asarray(prof.xycen, float)) for q in pos)
    case.check(bool(ok), 'apertures_geometry', mech, **det)


def _roundtrip(case, cog, mech):
    """calc_radius_at_ee(calc_ee_at_radius(r_i)) == r_i on the strictly increasing prefix (and conversely)."""
    p = _vals(cog.profile).astype(float)
    r = np.asarray(cog.radius, float)
    if not np.all(np.isfinite(p)):
        case.note('roundtrip_skipped_nonfinite_profile')
        return
    k = R.monotone_prefix(p)
    n = p.size
    m = dict(mech, op='calc_radius_at_ee')
    ee = np.asarray(cog.calc_ee_at_radius(r), float)
    # a node value much smaller than its neighbours (curves crossing zero) carries the evaluation rounding of the
    # neighbouring values: eps * max|p| (measured 2.9e-13 relative to such a node, ~1e-15 relative to max|p|)
    case.close(ee, p, 'ee_at_sampled_radii_is_profile', rtol=1e-12, atol=1e-13 * float(np.max(np.abs(p))),
               mech=dict(mech, op='calc_ee_at_radius'))
    if k < 2:
        try:
            cog.calc_radius_at_ee(p[:1])
            case.check(False, 'radius_at_ee_rejects_non_monotone_start', m)
        except ValueError:
            case.check(True, 'radius_at_ee_rejects_non_monotone_start', m)
        return
    case.note('roundtrip_points', k)
    truncated = k < n        # the curve stops increasing after point k-1
    scale = float(np.max(np.abs(p[:k])))
    steps = np.diff(p[:k])
    flat_next = bool(truncated and p[k] == p[k - 1])

    def inverse(x):
        """calc_radius_at_ee; a ValueError is a recorded violation (None returned)."""
        try:
            return np.asarray(cog.calc_radius_at_ee(x), float)
        except ValueError as exc:
            own = 'not monotonically increasing' in str(exc)      # photutils' documented refusal
            if own and truncated and k == 2:
                # the monotone part has two points, which is enough to interpolate; refused because the last
                # monotone point is dropped
                case.check(False, 'radius_at_ee_roundtrip',
                           dict(m, where='last_monotone_point', exc='ValueError', monotone_points=2),
                           msg=str(exc)[:120], k=k, n=n)
            else:
                case.check(False, 'radius_at_ee_raised',
                           dict(m, exc='ValueError', own_message=own, flat_step_after_prefix=flat_next,
                                monotone_points=min(k, 3)), msg=str(exc)[:160], k=k, n=n)
            return None

    # (1) inverse at the exact node values p_i (well conditioned whatever the step sizes)
    rb = inverse(p[:k])
    if rb is None:
        return
    inner = slice(0, k - 1) if truncated else slice(0, k)
    _close(case, rb[inner], r[:k][inner], 'radius_at_ee_roundtrip', atol=1e-9, rtol=1e-9,
               mech=dict(m, where='interior', via='node_value'))
    if truncated:
        _close(case, rb[k - 1:k], r[k - 1:k], 'radius_at_ee_roundtrip', atol=1e-9, rtol=1e-9,
                   mech=dict(m, where='last_monotone_point', via='node_value'))
    # (2) the literal composition calc_radius_at_ee(calc_ee_at_radius(r_i)).  ee_i may differ from p_i by an ulp:
    #     - at the two ends of the monotone part it may then fall just outside the domain of the inverse
    #       (no extrapolation): honest rounding at a domain boundary, not judged (counted);
    #     - next to a step smaller than 1e-6 of the curve the inverse amplifies that ulp beyond 1e-9: not judged.
    rc = inverse(ee[:k])
    if rc is not None:
        well = np.ones(k, bool)
        small = steps < 1e-6 * scale
        well[:-1] &= ~small
        well[1:] &= ~small
        for i in (0, k - 1):
            if np.isnan(rc[i]) and ee[i] != p[i]:
                well[i] = False
                case.note('roundtrip_boundary_ulp_tie')
        case.note('roundtrip_points_ill_conditioned', int((~well).sum()))
        sel = well.copy()
        if truncated:
            sel[k - 1] = False
        if sel.any():
            _close(case, rc[sel], r[:k][sel], 'radius_at_ee_roundtrip', atol=1e-9, rtol=1e-9,
                       mech=dict(m, where='interior', via='ee_at_radius'))
        if truncated and well[k - 1]:
            _close(case, rc[k - 1:k], r[k - 1:k], 'radius_at_ee_roundtrip', atol=1e-9, rtol=1e-9,
                       mech=dict(m, where='last_monotone_point', via='ee_at_radius'))
    # (3) conversely: ee(radius(p_i)) == p_i  (radii within 1e-9 outside the sampled range are clipped onto it)
    good = np.isfinite(rb)
    if good.any():
        rq = rb[good]
        rq = np.where((rq < r[0]) & (rq > r[0] - 1e-9), r[0], rq)
        rq = np.where((rq > r[-1]) & (rq < r[-1] + 1e-9), r[-1], rq)
        eb = np.asarray(cog.calc_ee_at_radius(rq), float)
        case.close(eb, p[:k][good], 'ee_at_radius_of_ee', rtol=1e-9, atol=1e-9 * float(np.max(np.abs(p))),
                   mech=dict(mech, op='calc_ee_at_radius'))
