"""C13 PSF/PRF models are flux-normalised and interpolate their data faithfully.

M1 reference-model monitors (pv.ref.c13_models: normal-CDF pixel integrals, polar Gauss-Legendre quadrature,
closed-form Moffat tail / Airy encircled energy, scipy cubic spline + own bilinear blend), M2 relation monitors
(point symmetry, linearity in flux, circular == elliptical, sigma == FWHM forms, axis swaps) and M3 history monitors
(random evaluation / copy / deepcopy / parameter-edit sequences on ImagePSF and GriddedPSFModel compared after every
step with the reference and with a freshly constructed model).
"""
from __future__ import annotations

import copy as _copy

import numpy as np

from pv import core
from pv.ref import c13_models as R

ID = 'C13'
RULE = ('one random model configuration per case (class = which facet is probed): widths log-uniform from 0.2 px, '
        'sub-pixel centres incl. exact 0 / 0.5, axis ratios 0.2..5, rotations incl. exact multiples of 90 deg, Moffat '
        'beta 1.05..12, Airy radius 0.2..20; ImagePSF/GriddedPSFModel with random non-square arrays, scalar and (y,x) '
        'oversampling, non-central origins, irregular shuffled grids, evaluation histories with copy/deepcopy. '
        'Generic axes drawn independently of the class (about half of the cases plain): flux / array magnitude 2**-60..2**40 '
        'and 1e-20..1e10, centres up to 2**20 px from the origin, parameters as numpy scalars / 0-d arrays / Quantities (one '
        'unit, mixed equivalent units for centre / size / coordinates, Quantity flux, angle in deg / rad / arcmin), '
        'coordinates and data arrays in Fortran / strided / offset / big-endian / float32 / integer / list form, '
        'elongated arrays, wide and tall grids, constant images, empty coordinate arrays. non-trivial = the case evaluated >= 1 reference comparison on a non-degenerate configuration (PRF/PSF: '
        'sub-pixel centre not (0,0); image models: >= 1 interior and >= 1 outside point or a history of >= 3 steps); '
        'distinct by digest of the generated parameters/arrays')
CLASSES = ['prf_sum', 'prf_value', 'psf_integral', 'shape', 'consistency', 'imagepsf', 'imagepsf_hist',
           'gridded', 'gridded_hist', 'gridded_degenerate']
MUST_REACH = ['photutils.psf.functional_models:GaussianPSF.evaluate',
              'photutils.psf.functional_models:CircularGaussianPSF.evaluate',
              'photutils.psf.functional_models:GaussianPRF.evaluate',
              'photutils.psf.functional_models:CircularGaussianPRF.evaluate',
              'photutils.psf.functional_models:CircularGaussianSigmaPRF.evaluate',
              'photutils.psf.functional_models:MoffatPSF.evaluate',
              'photutils.psf.functional_models:AiryDiskPSF.evaluate',
              'photutils.psf.image_models:ImagePSF.evaluate',
              'photutils.psf.image_models:ImagePSF.copy',
              'photutils.psf.gridded_models:GriddedPSFModel.evaluate',
              'photutils.psf.gridded_models:GriddedPSFModel._find_bounding_points',
              'photutils.psf.gridded_models:GriddedPSFModel._calc_bilinear_weights',
              'photutils.psf.gridded_models:GriddedPSFModel._calc_interpolator',
              'photutils.psf.gridded_models:GriddedPSFModel.copy',
              'photutils.psf.model_helpers:grid_from_epsfs']
ANCHOR_FILES = ['psf/functional_models.py', 'psf/image_models.py', 'psf/gridded_models.py', 'psf/model_helpers.py']
MIN_NONTRIVIAL = {'quick': 1000, 'thorough': 20000}
ASSUMPTIONS = ['scipy.special (ndtr, j0, j1), numpy Gauss-Legendre nodes and scipy RectBivariateSpline are trusted',
               'astropy.modeling parameter handling (Model.__call__, Parameter) is trusted',
               'a lattice sum / disc integral is truncated where the analytic tail is < 1e-14 of the flux '
               '(Gaussians 8.5 sigma; Moffat and Airy tails added in closed form)']

PRFS = ['CircularGaussianPRF', 'GaussianPRF', 'CircularGaussianSigmaPRF', 'IntegratedGaussianPRF']
PSFS = ['GaussianPSF', 'CircularGaussianPSF', 'MoffatPSF', 'AiryDiskPSF']


def plan(tier):
    if tier == 'thorough':
        return dict(shards=16, cases=9000, timeout=2400, budget_s=540)
    return dict(shards=8, cases=700, timeout=600, budget_s=55)


def selftest():
    R.selftest()


# ----------------------------------------------------------------------------------------
# generators
# ----------------------------------------------------------------------------------------
def _logu(rng, lo, hi):
    return float(np.exp(rng.uniform(np.log(lo), np.log(hi))))


def _centre(rng):
    k = int(rng.integers(0, 6))
    if k == 0:
        return float(rng.choice([0.0, 0.5, -0.5, 0.25])), float(rng.choice([0.0, 0.5, -0.5, 0.125]))
    if k == 1:
        return float(rng.uniform(-0.5, 0.5)), float(rng.uniform(-0.5, 0.5))
    return float(rng.uniform(-3, 3)), float(rng.uniform(-3, 3))


def _theta(rng):
    k = int(rng.integers(0, 5))
    if k == 0:
        return 0.0
    if k == 1:
        return float(rng.choice([90.0, 180.0, 270.0, -90.0, 360.0]))
    return float(rng.uniform(-180, 360))


def _flux(rng):
    """About half 'plain' magnitudes, the rest powers of two 2**-60..2**40 and decimal 1e-20..1e10."""
    k = rng.random()
    if k < 0.55:
        return _logu(rng, 1e-3, 1e6)
    if k < 0.8:
        return float(2.0 ** int(rng.integers(-60, 41)))
    return float(10.0 ** rng.uniform(-20, 10))


def _far(rng, v, nmax=2 ** 20):
    """Move a coordinate far from the origin by an integer number of pixels (sub-pixel phase kept exactly when it is
    dyadic)."""
    n = int(2 ** rng.uniform(8, np.log2(nmax))) * (1 if rng.random() < 0.5 else -1)
    return float(n + v)


# ----------------------------------------------------------------------------------------
# call forms (generic axes): how parameters and coordinates are handed to the model
# ----------------------------------------------------------------------------------------
LENGTH_UNITS = [('cm', 'mm'), ('arcsec', 'arcmin'), ('pix', 'pix'), ('m', 'km'), ('deg', 'arcsec')]
SIZE_KEYS = ('fwhm', 'sigma', 'x_fwhm', 'y_fwhm', 'alpha', 'radius')


def _draw_form(case, kind, quantity='all', layouts=True):
    """Draw the parameter call form and the coordinate layout independently; about half of the cases stay plain.
    quantity: 'all' | 'same' (one unit for everything, no conversion: exact-arithmetic classes) | 'none'."""
    rng = case.rng
    f = dict(pform='plain', cform='plain')
    k = rng.random()
    if k < 0.5:
        pass
    elif k < 0.6:
        f['pform'] = 'npscalar'
    elif k < 0.7:
        f['pform'] = 'zerod'
    elif quantity != 'none':
        forms = ['q_same', 'q_same_flux'] + (['q_mixed', 'q_mixed_flux', 'q_coords_other'] if quantity == 'all' else [])
        f['pform'] = forms[int(rng.integers(0, len(forms)))]
        base, other = LENGTH_UNITS[int(rng.integers(0, len(LENGTH_UNITS)))]
        if rng.random() < 0.5 and base != other:
            base, other = other, base
        f['base'], f['other'] = base, other
        f['funit'] = ['Jy', 'mJy', 'electron', 'adu'][int(rng.integers(0, 4))]
        f['theta_unit'] = ['deg', 'rad', 'arcmin', None][int(rng.integers(0, 4))]
        prf = kind in PRFS
        mixed = f['pform'] in ('q_mixed', 'q_mixed_flux', 'q_coords_other')
        if prf:
            # pixel-integrated models: the pixel is one unit of the centre / coordinate unit; with coordinates in
            # another unit than the centre the documentation does not say which unit the pixel has -> not generated;
            # the widths may come in any equivalent unit
            if f['pform'] == 'q_coords_other':
                f['pform'] = 'q_mixed'
            f['centre_unit'] = f['coord_unit'] = base
            f['size_unit'] = other if mixed else base
        else:
            # sampled models are normalised per squared unit of their size parameter: 'base' is that unit (integrals
            # are taken in it); centre and evaluation coordinates may come in any equivalent unit
            f['size_unit'] = base
            f['centre_unit'] = other if (mixed and rng.random() < 0.6) else base
            f['coord_unit'] = other if (f['pform'] == 'q_coords_other' or (mixed and rng.random() < 0.5)) else base
    if layouts and rng.random() < 0.45:
        f['cform'] = ['fortran', 'strided', 'bigendian', 'float32', 'int', 'list', 'offset', 'uint8', 'uint16', 'int8',
                      'int16', 'uint64', 'float16'][int(rng.integers(0, 13))]
    # second list (x): a model with a history - evaluated elsewhere, then copied - instead of a fresh one
    f['prov'] = bool(rng.random() < 0.2)
    if f['prov']:
        case.note('axis2_provenance_model_evaluated_and_copied')
    case.note('axis_callform_' + f['pform'])
    case.note('axis_layout_' + f['cform'])
    if f['cform'] in ('uint8', 'uint16', 'int8', 'int16', 'uint64', 'float16', 'float32'):
        case.note('axis2_coordinate_dtype_' + f['cform'])
    return f


class _M:
    """A model together with the form in which parameters / coordinates are handed over.  Calling it returns a
    plain float ndarray (value in the flux unit, lengths understood in the base unit), whatever the form."""

    def __init__(self, kind, p, form):
        import astropy.units as u
        import photutils.psf as P
        self.kind, self.p, self.form = kind, dict(p), form or dict(pform='plain', cform='plain')
        f = self.form
        kw = {}
        for k, v in p.items():
            if f['pform'] == 'npscalar':
                kw[k] = np.float64(v)
            elif f['pform'] == 'zerod':
                kw[k] = np.array(v, dtype=float)
            elif f['pform'].startswith('q_'):
                if k in ('x_0', 'y_0'):
                    kw[k] = (v * u.Unit(f['base'])).to(u.Unit(f['centre_unit']))
                elif k in SIZE_KEYS:
                    kw[k] = (v * u.Unit(f['base'])).to(u.Unit(f['size_unit']))
                elif k == 'theta':
                    kw[k] = v if f['theta_unit'] is None else (v * u.deg).to(u.Unit(f['theta_unit']))
                elif k == 'flux':
                    kw[k] = v * u.Unit(f['funit']) if f['pform'].endswith('flux') else v
                else:
                    kw[k] = v
            else:
                kw[k] = v
        self.model = getattr(P, kind)(**kw)
        if f.get('prov'):
            m0 = self.model
            xs = np.linspace(-3.0, 3.0, 7)
            if f['pform'].startswith('q_'):
                xs = xs * u.Unit(f['coord_unit'])
            _ = m0(xs, xs)
            self.model = m0.copy()
            _ = self.model(xs, xs)
        self.unit_checks = []

    def __getattr__(self, name):
        if name in ('model', 'form', 'kind', 'p', 'unit_checks'):
            raise AttributeError(name)
        return getattr(self.model, name)

    def set_flux(self, value):
        import astropy.units as u
        f = self.form
        self.model.flux = value * u.Unit(f['funit']) if f['pform'].endswith('flux') else value

    def length(self, q):
        """A derived length attribute (fwhm, sigma, ...) as a float in the base unit."""
        import astropy.units as u
        if hasattr(q, 'unit') and hasattr(q, 'to_value') and self.form['pform'].startswith('q_'):
            return float(q.to_value(u.Unit(self.form['base'])))
        return float(getattr(q, 'value', q))

    def fluxval(self, q):
        import astropy.units as u
        if hasattr(q, 'to_value') and self.form['pform'].endswith('flux'):
            return float(q.to_value(u.Unit(self.form['funit'])))
        return float(getattr(q, 'value', q))

    def __call__(self, x, y):
        import astropy.units as u
        f = self.form
        x = np.asarray(x, float)
        y = np.asarray(y, float)
        shape = x.shape
        xs, ys = _layout(x, f['cform']), _layout(y, f['cform'])
        if f['pform'].startswith('q_'):
            if f['cform'] == 'list':
                xs, ys = np.asarray(xs, float), np.asarray(ys, float)
            xs = (xs * u.Unit(f['base'])).to(u.Unit(f['coord_unit']))
            ys = (ys * u.Unit(f['base'])).to(u.Unit(f['coord_unit']))
        out = self.model(xs, ys)
        if f['pform'].endswith('flux'):
            ok = getattr(out, 'unit', None) == u.Unit(f['funit'])
            self.unit_checks.append(bool(ok))
            out = out.to_value(u.Unit(f['funit'])) if hasattr(out, 'to_value') else out
        elif hasattr(out, 'unit'):
            self.unit_checks.append(bool(out.unit == u.dimensionless_unscaled))
            out = out.to_value(u.dimensionless_unscaled)
        return np.asarray(out, float).reshape(shape)


def _layout(a, cform):
    """The same numbers in another memory layout / container (only where they are represented exactly)."""
    if cform == 'plain' or a.ndim == 0:
        return a
    if cform == 'fortran':
        b = a if a.ndim == 2 else a.reshape(-1, 1)
        return np.asfortranarray(b).reshape(a.shape) if a.ndim != 2 else np.asfortranarray(b)
    if cform == 'strided':
        big = np.zeros(tuple(2 * n for n in a.shape), dtype=a.dtype)
        big[(slice(None, None, 2),) * a.ndim] = a
        return big[(slice(None, None, 2),) * a.ndim]
    if cform == 'offset':
        big = np.full(tuple(n + 3 for n in a.shape), np.nan)
        big[(slice(2, -1),) * a.ndim] = a
        return big[(slice(2, -1),) * a.ndim]
    if cform == 'bigendian':
        return a.astype('>f8')
    if cform == 'float32':
        b = a.astype(np.float32)
        return b if np.array_equal(b.astype(float), a) else a
    if cform == 'int':
        b = a.astype(np.int64)
        return b if np.array_equal(b.astype(float), a) else a
    if cform == 'list':
        return a.tolist() if a.ndim == 1 and a.size <= 400 else a
    if cform in ('uint8', 'uint16', 'int8', 'int16', 'uint64', 'float16'):
        # narrow / unsigned coordinate dtypes, only where they hold the numbers exactly
        with np.errstate(all='ignore'):
            b = a.astype(cform)
        return b if np.array_equal(b.astype(float), a) else a
    return a


def _gen_params(rng, kind, wmax=12.0):
    """Random parameter dict for model class `kind` + (sx, sy) effective sigmas (or scale lengths)."""
    x0, y0 = _centre(rng)
    p = dict(flux=_flux(rng), x_0=x0, y_0=y0)
    if kind in ('CircularGaussianPRF', 'CircularGaussianPSF'):
        p['fwhm'] = _logu(rng, 0.2, wmax)
    elif kind in ('CircularGaussianSigmaPRF', 'IntegratedGaussianPRF'):
        p['sigma'] = _logu(rng, 0.2, wmax * R.FWHM2SIG)
    elif kind in ('GaussianPRF', 'GaussianPSF'):
        w = _logu(rng, 0.2, wmax)
        ratio = _logu(rng, 0.2, 5.0) if rng.random() < 0.8 else 1.0
        p['x_fwhm'] = w
        p['y_fwhm'] = float(min(max(w * ratio, 0.2), wmax))
        p['theta'] = _theta(rng)
    elif kind == 'MoffatPSF':
        p['alpha'] = _logu(rng, 0.1, 10.0)
        p['beta'] = _logu(rng, 1.05, 12.0)
    elif kind == 'AiryDiskPSF':
        p['radius'] = _logu(rng, 0.2, 20.0)
    return p


def _sigmas(kind, p):
    if 'fwhm' in p:
        s = p['fwhm'] * R.FWHM2SIG
        return s, s
    if 'sigma' in p:
        return p['sigma'], p['sigma']
    if 'x_fwhm' in p:
        return p['x_fwhm'] * R.FWHM2SIG, p['y_fwhm'] * R.FWHM2SIG
    if 'alpha' in p:
        return p['alpha'], p['alpha']
    return p['radius'], p['radius']


def _make(kind, p, form=None):
    return _M(kind, p, form)


def _unit_verdict(case, m, mech):
    if m.unit_checks:
        case.check(all(m.unit_checks), 'output_carries_flux_unit', mech, form=m.form['pform'])


def _rotated(p):
    return 'theta' in p and (p['theta'] % 90.0) != 0.0


def _mech(kind, p, **kw):
    m = {'model': kind, 'rotated': bool(_rotated(p))}
    m.update(kw)
    return m


# ----------------------------------------------------------------------------------------
# analytic models
# ----------------------------------------------------------------------------------------
def _case_prf_sum(case):
    rng = case.rng
    kind = PRFS[int(rng.integers(0, len(PRFS)))]
    p = _gen_params(rng, kind, wmax=9.0)
    sx, sy = _sigmas(kind, p)
    smin, smax = min(sx, sy), max(sx, sy)
    rot = _rotated(p)
    aliasing = bool(rot and 8.0 * np.exp(-2 * np.pi ** 2 * smin ** 2) >= 1e-10)
    # window: centre offset + the largest lattice shift used below (2) + half a pixel + 8.5 sigma
    # (a fixed margin of 4 px was too small for |x_0| ~ 3 together with the shifted lattice: the tail
    # beyond the window was 6e-8 of the flux in one thorough case - a harness error, not a library one)
    form = _draw_form(case, kind)
    if rng.random() < 0.2:
        p['x_0'], p['y_0'] = _far(rng, p['x_0']), _far(rng, p['y_0'])
        case.note('axis_position_far_from_origin')
    cx, cy = int(np.round(p['x_0'])), int(np.round(p['y_0']))
    half = int(np.ceil(max(abs(p['x_0'] - cx), abs(p['y_0'] - cy)) + 2.5
                       + 8.5 * smax * (np.sqrt(2.0) if rot else 1.0)))
    half = max(half, 5)
    case.params = dict(kind=kind, **p, half=half, form=form)
    case.nontrivial = (p['x_0'], p['y_0']) != (0.0, 0.0)
    m = _make(kind, p, form)
    yy, xx = np.mgrid[-half:half + 1, -half:half + 1]
    xx, yy = xx + cx, yy + cy
    vals = np.asarray(m(xx, yy), float)
    mech = _mech(kind, p, aliasing=aliasing)
    case.check(bool(np.all(vals >= 0)), 'nonnegative', mech, min=float(vals.min()))
    case.close(float(vals.sum()), p['flux'], 'prf_lattice_sum', rtol=1e-8, mech=mech,
               params=p, form=form)
    if not aliasing:
        case.dev('prf_lattice_sum[excluding rotated narrow GaussianPRF]', abs(float(vals.sum()) / p['flux'] - 1))
    # lattice offset by an integer vector: the same sum (grid position independence)
    if rng.random() < 0.3:
        sh = int(rng.integers(-2, 3))
        vals2 = np.asarray(m(xx + sh, yy - sh), float)
        case.close(float(vals2.sum()), p['flux'], 'prf_lattice_sum', rtol=1e-8, mech=mech, shift=sh)
    # degenerate call forms: empty and scalar coordinate input
    if rng.random() < 0.2:
        e = m.model(np.array([]), np.array([])) if not form['pform'].startswith('q_') else None
        if e is not None:
            case.check(np.shape(e) == (0,), 'empty_input_gives_empty_output', mech, shape=list(np.shape(e)))
            case.note('axis_degenerate_empty_coordinates')
    _unit_verdict(case, m, mech)


def _case_prf_value(case):
    rng = case.rng
    kind = PRFS[int(rng.integers(0, len(PRFS)))]
    p = _gen_params(rng, kind)
    sx, sy = _sigmas(kind, p)
    n = 300
    span = 6.0 * max(sx, sy) + 1.5
    form = _draw_form(case, kind)
    if rng.random() < 0.2:
        p['x_0'], p['y_0'] = _far(rng, p['x_0'], 2 ** 16), _far(rng, p['y_0'], 2 ** 16)
        case.note('axis_position_far_from_origin')
    if rng.random() < 0.5:            # integer pixel grid
        h = int(min(np.ceil(span), 12))
        yy, xx = np.mgrid[-h:h + 1, -h:h + 1]
        x = xx.ravel().astype(float) + np.round(p['x_0'])
        y = yy.ravel().astype(float) + np.round(p['y_0'])
    else:
        x = p['x_0'] + rng.uniform(-span, span, n)
        y = p['y_0'] + rng.uniform(-span, span, n)
    case.params = dict(kind=kind, **p, npts=len(x), form=form)
    case.nontrivial = (p['x_0'], p['y_0']) != (0.0, 0.0)
    m = _make(kind, p, form)
    obs = np.asarray(m(x, y), float)
    exp = R.prf_gauss(x, y, p['flux'], p['x_0'], p['y_0'], sx, sy, p.get('theta', 0.0))
    # (a parameter converted to another unit and back differs by an ulp or two: with a centre far from the origin
    # that is eps*|x_0| in the argument; the atol term covers it in proportion to the slope flux/sigma)
    conv = 4e-16 * max(abs(p['x_0']), abs(p['y_0'])) / min(sx, sy) if form['pform'].startswith('q_') else 0.0
    case.close(obs, exp, 'prf_vs_cdf_pixel_integral', rtol=1e-9, atol=(2e-15 + conv) * p['flux'],
               mech=_mech(kind, p), form=form)
    _unit_verdict(case, m, _mech(kind, p))


def _case_psf_integral(case):
    rng = case.rng
    kind = PSFS[int(rng.integers(0, len(PSFS)))]
    p = _gen_params(rng, kind, wmax=20.0)
    form = _draw_form(case, kind, layouts=False)
    if rng.random() < 0.15:
        p['x_0'], p['y_0'] = _far(rng, p['x_0'], 2 ** 12), _far(rng, p['y_0'], 2 ** 12)
        case.note('axis_position_far_from_origin')
    case.params = dict(kind=kind, **p, form=form)
    case.nontrivial = (p['x_0'], p['y_0']) != (0.0, 0.0)
    m = _make(kind, p, form)
    fn = lambda x, y: m(x, y)  # noqa: E731
    F = p['flux']
    mech = _mech(kind, p)
    if kind in ('GaussianPSF', 'CircularGaussianPSF'):
        sx, sy = _sigmas(kind, p)
        smin, smax = min(sx, sy), max(sx, sy)
        edges = np.arange(0.0, 8.5 * smax + 2 * smin, 2.0 * smin)
        total = R.polar_integral(fn, p['x_0'], p['y_0'], edges, nphi=256 if smax > smin else 16, ngl=32)
        exp = F
    elif kind == 'MoffatPSF':
        a, b = p['alpha'], p['beta']
        Rmax = 60.0 * a
        edges = np.concatenate([[0.0], np.geomspace(0.05 * a, Rmax, 90)])
        inner = R.polar_integral(fn, p['x_0'], p['y_0'], edges, nphi=8, ngl=32)
        total = inner + R.moffat_tail(F, a, b, Rmax)
        exp = F
        case.dev('moffat_tail_fraction', R.moffat_tail(1.0, a, b, Rmax))
    else:
        rad = p['radius']
        a = rad / R.RZ
        Rmax = 40.0 * a / np.pi
        edges = np.linspace(0.0, Rmax, 41)
        total = R.polar_integral(fn, p['x_0'], p['y_0'], edges, nphi=8, ngl=24)
        exp = R.airy_encircled(F, rad, Rmax)
        # the closed form must itself approach F: 1 - EE(R) ~ 2/(pi u)
        case.dev('airy_outside_fraction', 1 - exp / F)
    case.close(total, exp, 'psf_integral', rtol=1e-9, mech=mech, params=p, form=form)
    # the same integral taken about a displaced origin (large disc) for Gaussians: independent of where we centre
    if kind in ('GaussianPSF', 'CircularGaussianPSF') and rng.random() < 0.3:
        sx, sy = _sigmas(kind, p)
        smin, smax = min(sx, sy), max(sx, sy)
        off = 0.7 * smin
        edges = np.arange(0.0, 8.5 * smax + off + 2 * smin, 2.0 * smin)
        t2 = R.polar_integral(fn, p['x_0'] + off, p['y_0'] - off, edges, nphi=512, ngl=32)
        case.close(t2, F, 'psf_integral_offcentre', rtol=1e-9, mech=mech)
    _unit_verdict(case, m, mech)


def _case_shape(case):
    rng = case.rng
    kinds = PRFS + PSFS
    kind = kinds[int(rng.integers(0, len(kinds)))]
    p = _gen_params(rng, kind)
    # dyadic centre so that x0 +- d is exact
    p['x_0'] = float(rng.integers(-512, 513)) / 64.0
    p['y_0'] = float(rng.integers(-512, 513)) / 64.0
    form = _draw_form(case, kind, quantity='same')
    if rng.random() < 0.25:
        p['x_0'], p['y_0'] = _far(rng, p['x_0']), _far(rng, p['y_0'])       # still exactly representable
        case.note('axis_position_far_from_origin')
    sx, sy = _sigmas(kind, p)
    scale = max(sx, sy)
    case.params = dict(kind=kind, **p, form=form)
    case.nontrivial = True
    m = _make(kind, p, form)
    mech = _mech(kind, p)
    F = p['flux']
    n = 200
    q = np.maximum(1, int(64 * min(scale * 5 + 1, 40)))
    d = rng.integers(-q, q + 1, n) / 64.0
    e = rng.integers(-q, q + 1, n) / 64.0
    a = np.asarray(m(p['x_0'] + d, p['y_0'] + e), float)
    b = np.asarray(m(p['x_0'] - d, p['y_0'] - e), float)
    case.close(a, b, 'point_symmetry_about_centre', rtol=1e-13, atol=1e-300, mech=mech)
    case.check(bool(np.all(a >= 0) and np.all(b >= 0)), 'nonnegative', mech, min=float(min(a.min(), b.min())))
    # far tail / random points non-negative and finite
    xf = p['x_0'] + rng.normal(0, 30 * scale + 5, 50)
    yf = p['y_0'] + rng.normal(0, 30 * scale + 5, 50)
    far = np.asarray(m(xf, yf), float)
    case.check(bool(np.all(np.isfinite(far)) and np.all(far >= 0)), 'nonnegative', mech, where='far')
    peak = float(np.asarray(m(p['x_0'], p['y_0'])))
    case.check(peak > 0 and bool(np.all(a <= peak * (1 + 1e-13))) and bool(np.all(far <= peak * (1 + 1e-13))),
               'maximum_at_centre', mech, peak=peak, amax=float(a.max()))
    # circular models: mirror and x<->y swap symmetry
    if kind not in ('GaussianPRF', 'GaussianPSF'):
        c = np.asarray(m(p['x_0'] - d, p['y_0'] + e), float)
        s = np.asarray(m(p['x_0'] + e, p['y_0'] + d), float)
        case.close(c, a, 'mirror_symmetry_circular', rtol=1e-13, atol=1e-300, mech=mech)
        case.close(s, a, 'xy_swap_symmetry_circular', rtol=1e-13, atol=1e-300, mech=mech)
    # linearity in flux
    k = float(rng.choice([2.0, 0.5, -1.0, 3.7, 1e-3, 12345.678]))
    p2 = dict(p, flux=F * k)
    a2 = np.asarray(_make(kind, p2, form)(p['x_0'] + d, p['y_0'] + e), float)
    case.close(a2, a * k, 'linear_in_flux', rtol=1e-14, atol=1e-300, mech=mech, k=k)
    z = np.asarray(_make(kind, dict(p, flux=0.0), form)(p['x_0'] + d, p['y_0'] + e), float)
    case.check(bool(np.all(z == 0)), 'zero_flux_is_zero', mech)
    # setting the parameter on a live model == constructing with it
    m.set_flux(F * k)
    a3 = np.asarray(m(p['x_0'] + d, p['y_0'] + e), float)
    case.close(a3, a2, 'flux_setter_equals_constructor', mech=mech)
    _check_bbox(case, m, kind, p, mech)
    # translation covariance by an exactly representable shift
    sh = float(rng.integers(-640, 641)) / 64.0
    m2 = _make(kind, dict(p, x_0=p['x_0'] + sh, y_0=p['y_0'] - sh), form)
    a4 = np.asarray(m2(p['x_0'] + sh + d, p['y_0'] - sh + e), float)
    case.close(a4, a, 'translation_covariance', rtol=1e-13, atol=1e-300, mech=mech)


def _check_bbox(case, m, kind, p, mech):
    """model.bounding_box against its documented extent (bbox_factor x sigma for the Gaussians - the box tangent to
    the rotated bbox_factor-sigma ellipse -, bbox_factor x FWHM for Moffat and Airy) and against the model itself:
    on and outside the box a Gaussian PSF is below exp(-bbox_factor**2 / 2) of its peak."""
    rng = case.rng
    sx, sy = _sigmas(kind, p)
    factor = None if rng.random() < 0.6 else float(rng.uniform(2.0, 9.0))
    if factor is not None:
        m.model.bbox_factor = factor
    f = factor if factor is not None else (10.0 if kind in ('MoffatPSF', 'AiryDiskPSF') else 5.5)
    if kind == 'MoffatPSF':
        fw = 2.0 * p['alpha'] * np.sqrt(2 ** (1.0 / p['beta']) - 1)
        dx = dy = f * fw
    elif kind == 'AiryDiskPSF':
        dx = dy = f * m.length(m.fwhm)
    else:
        t = np.deg2rad(p.get('theta', 0.0))
        a, b = f * sx, f * sy
        dx = np.sqrt((a * np.cos(t)) ** 2 + (b * np.sin(t)) ** 2)
        dy = np.sqrt((a * np.sin(t)) ** 2 + (b * np.cos(t)) ** 2)
    (ylo, yhi), (xlo, xhi) = m.model.bounding_box.bounding_box()
    got = [m.length(v) for v in (xlo, xhi, ylo, yhi)]
    exp = [p['x_0'] - dx, p['x_0'] + dx, p['y_0'] - dy, p['y_0'] + dy]
    scale = max(dx, dy)
    theta_float = bool('theta' in p and p['theta'] != 0.0 and not (
        m.form['pform'].startswith('q_') and m.form.get('theta_unit') is not None))
    mech = dict(mech, theta_float_nonzero=theta_float)
    case.close(got, exp, 'bounding_box_is_documented_extent', rtol=1e-12, atol=1e-12 * scale + 4e-16 * max(
        abs(p['x_0']), abs(p['y_0'])), mech=dict(mech, factor_set=factor is not None))
    case.note('axis2_bounding_box_judged')
    if kind in ('GaussianPSF', 'CircularGaussianPSF'):
        # points on the boundary of the library's own box
        peak = abs(float(np.asarray(m(p['x_0'], p['y_0']))))
        u_ = rng.uniform(0, 1, 40)
        gx0, gx1, gy0, gy1 = got
        bx = np.concatenate([gx0 + (gx1 - gx0) * u_, np.full(40, gx1), np.full(40, gx0)])
        by = np.concatenate([np.where(rng.random(40) < 0.5, gy1, gy0), gy0 + (gy1 - gy0) * u_, gy0 + (gy1 - gy0) * u_])
        vals = np.abs(np.asarray(m(bx, by), float))
        lim = peak * np.exp(-0.5 * f * f)
        case.check(bool(np.all(vals <= lim * (1 + 1e-6) + 1e-300)), 'model_negligible_outside_bounding_box',
                   mech, worst=float(np.max(vals) / max(lim, 1e-300)))


def _case_consistency(case):
    import photutils.psf as P
    rng = case.rng
    sub = ['circ_vs_ell_psf', 'circ_vs_ell_prf', 'sigma_vs_fwhm', 'halfmax', 'rot90'][int(rng.integers(0, 5))]
    x0, y0 = _centre(rng)
    F = _flux(rng)
    case.nontrivial = True
    if sub in ('circ_vs_ell_psf', 'circ_vs_ell_prf'):
        fw = _logu(rng, 0.2, 12.0)
        th = _theta(rng)
        s = fw * R.FWHM2SIG
        n = 300
        x = x0 + rng.uniform(-6 * s - 1, 6 * s + 1, n)
        y = y0 + rng.uniform(-6 * s - 1, 6 * s + 1, n)
        if rng.random() < 0.4:
            h = int(min(np.ceil(6 * s + 1), 10))
            yy, xx = np.mgrid[-h:h + 1, -h:h + 1]
            x, y = xx.ravel().astype(float), yy.ravel().astype(float)
        prf = sub.endswith('prf')
        A = (P.CircularGaussianPRF if prf else P.CircularGaussianPSF)(flux=F, x_0=x0, y_0=y0, fwhm=fw)
        B = (P.GaussianPRF if prf else P.GaussianPSF)(flux=F, x_0=x0, y_0=y0, x_fwhm=fw, y_fwhm=fw, theta=th)
        kind = 'GaussianPRF' if prf else 'GaussianPSF'
        p = dict(flux=F, x_0=x0, y_0=y0, fwhm=fw, theta=th)
        case.params = dict(sub=sub, **p)
        a, b = np.asarray(A(x, y), float), np.asarray(B(x, y), float)
        case.close(b, a, 'circular_equals_elliptical_equal_widths', rtol=1e-11,
                   atol=(2e-15 * F if prf else 1e-300), mech=_mech(kind, p))
        if not (prf and _rotated(p)):
            case.dev('circular_equals_elliptical_equal_widths[excluding rotated GaussianPRF]',
                     core.same(b, a, 1e-11, 2e-15 * F if prf else 1e-300)[1])
        return
    if sub == 'sigma_vs_fwhm':
        s = _logu(rng, 0.2 * R.FWHM2SIG, 6.0)
        fw = s / R.FWHM2SIG
        n = 300
        x = x0 + rng.uniform(-6 * s - 1, 6 * s + 1, n)
        y = y0 + rng.uniform(-6 * s - 1, 6 * s + 1, n)
        A = P.CircularGaussianSigmaPRF(flux=F, x_0=x0, y_0=y0, sigma=s)
        B = P.CircularGaussianPRF(flux=F, x_0=x0, y_0=y0, fwhm=fw)
        C = P.IntegratedGaussianPRF(flux=F, x_0=x0, y_0=y0, sigma=s)
        D = P.GaussianPRF(flux=F, x_0=x0, y_0=y0, x_fwhm=fw, y_fwhm=fw)
        case.params = dict(sub=sub, flux=F, x_0=x0, y_0=y0, sigma=s)
        mech = {'model': 'CircularGaussianSigmaPRF', 'rotated': False}
        a = np.asarray(A(x, y), float)
        case.close(np.asarray(B(x, y), float), a, 'sigma_form_equals_fwhm_form', rtol=1e-10, atol=1e-14 * F, mech=mech)
        case.close(np.asarray(C(x, y), float), a, 'integratedgaussianprf_equals_sigma_prf', mech=mech)
        case.close(np.asarray(D(x, y), float), a, 'sigma_form_equals_fwhm_form', rtol=1e-10, atol=1e-14 * F,
                   mech={'model': 'GaussianPRF', 'rotated': False})
        # derived attributes
        case.close(float(A.fwhm), fw, 'derived_width_attribute', rtol=1e-14, mech=mech)
        case.close(float(B.sigma), s, 'derived_width_attribute', rtol=1e-14,
                   mech={'model': 'CircularGaussianPRF', 'rotated': False})
        G = P.GaussianPSF(flux=F, x_0=x0, y_0=y0, x_fwhm=fw, y_fwhm=2 * fw, theta=11.0)
        case.close([float(G.x_sigma), float(G.y_sigma)], [s, 2 * s], 'derived_width_attribute', rtol=1e-14,
                   mech={'model': 'GaussianPSF', 'rotated': True})
        Cg = P.CircularGaussianPSF(flux=F, x_0=x0, y_0=y0, fwhm=fw)
        case.close(float(Cg.sigma), s, 'derived_width_attribute', rtol=1e-14,
                   mech={'model': 'CircularGaussianPSF', 'rotated': False})
        # the sigma- and FWHM-parametrised PSF forms: CircularGaussianPSF(fwhm) is my Gaussian with sigma
        case.close(np.asarray(Cg(x, y), float), R.gauss2d(x, y, F, x0, y0, s, s), 'psf_equals_textbook_gaussian',
                   rtol=1e-11, atol=1e-300, mech={'model': 'CircularGaussianPSF', 'rotated': False})
        return
    if sub == 'halfmax':
        kind = PSFS[int(rng.integers(0, 4))]
        p = _gen_params(rng, kind)
        p.update(x_0=x0, y_0=y0, flux=F)
        form = _draw_form(case, kind, layouts=False)
        m = _make(kind, p, form)
        case.params = dict(sub=sub, kind=kind, **p, form=form)
        mech = _mech(kind, p)
        peak = float(np.asarray(m(x0, y0)))
        ang = rng.uniform(0, 2 * np.pi)
        if kind == 'GaussianPSF':
            t = np.deg2rad(p['theta'])
            pts = [(x0 + 0.5 * p['x_fwhm'] * np.cos(t), y0 + 0.5 * p['x_fwhm'] * np.sin(t)),
                   (x0 - 0.5 * p['y_fwhm'] * np.sin(t), y0 + 0.5 * p['y_fwhm'] * np.cos(t))]
        else:
            fw = m.length(m.fwhm) if kind != 'CircularGaussianPSF' else p['fwhm']
            pts = [(x0 + 0.5 * fw * np.cos(ang), y0 + 0.5 * fw * np.sin(ang))]
        for (px, py) in pts:
            case.close(float(np.asarray(m(px, py))), 0.5 * peak, 'fwhm_is_full_width_at_half_maximum',
                       rtol=1e-9, mech=mech)
        if kind in ('GaussianPSF', 'CircularGaussianPSF'):
            case.close(m.fluxval(m.amplitude), peak, 'amplitude_is_peak_value', rtol=1e-13, mech=mech)
            sx, sy = _sigmas(kind, p)
            case.close(peak, F / (2 * np.pi * sx * sy), 'peak_equals_textbook', rtol=1e-13, mech=mech)
            xs = x0 + rng.uniform(-5 * sx, 5 * sx, 100)
            ys = y0 + rng.uniform(-5 * sy, 5 * sy, 100)
            case.close(np.asarray(m(xs, ys), float), R.gauss2d(xs, ys, F, x0, y0, sx, sy, p.get('theta', 0.0)),
                       'psf_equals_textbook_gaussian', rtol=1e-10, atol=1e-300, mech=mech)
        if kind == 'MoffatPSF':
            case.close(peak, F * (p['beta'] - 1) / (np.pi * p['alpha'] ** 2), 'peak_equals_textbook', rtol=1e-13,
                       mech=mech)
        if kind == 'AiryDiskPSF':
            zero = float(np.asarray(m(x0 + p['radius'] * np.cos(ang), y0 + p['radius'] * np.sin(ang))))
            case.check(abs(zero) <= 1e-24 * peak, 'airy_first_zero_at_radius', mech, value=zero, peak=peak, form=form)
        _unit_verdict(case, m, mech)
        return
    # rot90: theta -> theta+180 identical; theta+90 == swapped widths
    prf = rng.random() < 0.5
    cls = P.GaussianPRF if prf else P.GaussianPSF
    kind = 'GaussianPRF' if prf else 'GaussianPSF'
    p = _gen_params(rng, kind)
    p.update(x_0=x0, y_0=y0, flux=F)
    case.params = dict(sub=sub, kind=kind, **p)
    sx, sy = _sigmas(kind, p)
    n = 300
    span = 5 * max(sx, sy) + 1
    x = x0 + rng.uniform(-span, span, n)
    y = y0 + rng.uniform(-span, span, n)
    a = np.asarray(cls(**p)(x, y), float)
    b = np.asarray(cls(**dict(p, theta=p['theta'] + 180.0))(x, y), float)
    c = np.asarray(cls(**dict(p, theta=p['theta'] + 90.0, x_fwhm=p['y_fwhm'], y_fwhm=p['x_fwhm']))(x, y), float)
    mech = {'model': kind, 'rotated': False, 'relation': 'theta_period'}
    atol = 4e-15 * F if prf else 1e-300
    case.close(b, a, 'theta_plus_180_is_identity', rtol=1e-9, atol=atol, mech=mech)
    case.close(c, a, 'theta_plus_90_swaps_widths', rtol=1e-9, atol=atol, mech=mech)
    # unrotated: swapping the axes of the evaluation grid == swapping the widths
    p0 = dict(p, theta=0.0)
    a0 = np.asarray(cls(**p0)(x, y), float)
    s0 = np.asarray(cls(**dict(p0, x_0=y0, y_0=x0, x_fwhm=p['y_fwhm'], y_fwhm=p['x_fwhm']))(y, x), float)
    case.close(s0, a0, 'axis_swap_covariance', rtol=1e-13, atol=1e-300, mech=mech)


# ----------------------------------------------------------------------------------------
# ImagePSF
# ----------------------------------------------------------------------------------------
def _arr_form(rng, a, note=None):
    """(values as float64 C array, the object handed to the library): same numbers in another layout / dtype."""
    k = rng.random()
    form = 'plain'
    if k < 0.5:
        out = a
    else:
        form = ['fortran', 'strided', 'offset', 'bigendian', 'float32', 'int', 'transposed_view', 'uint8', 'uint16',
                'int8', 'int16', 'uint64', 'float16'][int(rng.integers(0, 13))]
        if form == 'float32':
            out = a.astype(np.float32)
            a = out.astype(np.float64)
        elif form == 'int':
            sc = 1000.0 / max(float(np.max(np.abs(a))), 1e-300)
            out = np.round(a * sc).astype(np.int64)
            a = out.astype(np.float64)
        elif form in ('uint8', 'uint16', 'int8', 'int16', 'uint64', 'float16'):
            # narrow / unsigned dtypes up to their limits (uint64 beyond 2**53): judged on the values they hold
            if form == 'float16':
                out = (a / max(float(np.max(np.abs(a))), 1e-300) * 100.0).astype(np.float16)
            else:
                info = np.iinfo(form)
                top = float(min(info.max, 2 ** 62))
                span = float(np.max(a) - np.min(a)) or 1.0
                if info.min < 0:
                    out = np.round((a - np.min(a)) / span * 2 * top * 0.99 - top * 0.99).astype(form)
                else:
                    out = np.round((a - np.min(a)) / span * top * 0.99).astype(form)
            a = out.astype(np.float64)
        elif form == 'fortran':
            out = np.asfortranarray(a)
        elif form == 'bigendian':
            out = a.astype('>f8')
        elif form == 'transposed_view':
            out = np.ascontiguousarray(np.swapaxes(a, -1, -2)).swapaxes(-1, -2)
        elif form == 'strided':
            big = np.zeros(tuple(2 * n for n in a.shape))
            big[(slice(None, None, 2),) * a.ndim] = a
            out = big[(slice(None, None, 2),) * a.ndim]
        else:
            big = np.full(tuple(n + 3 for n in a.shape), -1.0)
            big[(slice(2, -1),) * a.ndim] = a
            out = big[(slice(2, -1),) * a.ndim]
    if note is not None:
        note('axis_data_layout_' + form)
        if form in ('uint8', 'uint16', 'int8', 'int16', 'uint64', 'float16', 'float32'):
            note('axis2_data_dtype_' + form)
    return np.ascontiguousarray(a, dtype=np.float64), out


def _gen_image(rng, smooth=None):
    ny, nx = int(rng.integers(4, 14)), int(rng.integers(4, 14))
    k = rng.random()
    if k < 0.1:
        ny, nx = int(rng.integers(4, 6)), int(rng.integers(25, 41))          # strongly elongated
    elif k < 0.2:
        ny, nx = int(rng.integers(25, 41)), int(rng.integers(4, 6))
    if rng.random() < 0.04:
        return np.full((ny, nx), float(rng.uniform(0.1, 3)))                  # degenerate: constant image
    if smooth is None:
        smooth = rng.random() < 0.5
    if smooth:
        yy, xx = np.mgrid[:ny, :nx]
        data = R.gauss2d(xx, yy, 1.0, (nx - 1) / 2 + rng.uniform(-1, 1), (ny - 1) / 2 + rng.uniform(-1, 1),
                         rng.uniform(0.8, 3), rng.uniform(0.8, 3), rng.uniform(0, 180))
        data = data + 0.01 * rng.random((ny, nx))
    else:
        data = rng.normal(0, 1, (ny, nx))
    return data


def _gen_osamp(rng):
    k = int(rng.integers(0, 3))
    if k == 0:
        return 1
    if k == 1:
        return int(rng.integers(1, 6))
    return (int(rng.integers(1, 6)), int(rng.integers(1, 6)))     # (y, x)


def _os_pair(os_):
    if np.ndim(os_) == 0:
        return int(os_), int(os_)
    return int(os_[0]), int(os_[1])


def _gen_imagepsf_cfg(rng, note=None):
    data = _gen_image(rng)
    if rng.random() < 0.3:
        data = data * float(2.0 ** int(rng.integers(-40, 31)))                # magnitude of the array itself
    data, data_in = _arr_form(rng, data, note)
    ny, nx = data.shape
    os_ = _gen_osamp(rng)
    k = int(rng.integers(0, 4))
    if k == 0:
        origin = None
    elif k == 1:
        origin = (float(rng.integers(0, nx)), float(rng.integers(0, ny)))
    else:
        origin = (float(rng.uniform(-1, nx)), float(rng.uniform(-1, ny)))
    fill = [0.0, float('nan'), -7.25, 3.0][int(rng.integers(0, 4))] if rng.random() < 0.6 else 0.0
    x0 = float(rng.uniform(-20, 20)) if rng.random() < 0.8 else float(rng.integers(-5, 6))
    y0 = float(rng.uniform(-20, 20)) if rng.random() < 0.8 else float(rng.integers(-5, 6))
    if rng.random() < 0.15:
        x0, y0 = _far(rng, x0, 2 ** 9), _far(rng, y0, 2 ** 9)
        if note is not None:
            note('axis_position_far_from_origin')
    flux = _flux(rng) * (1 if rng.random() < 0.9 else -1)
    if note is not None:
        osy, osx = _os_pair(os_)
        if osy != osx:
            note('axis2_unequal_oversampling')
        note('axis2_array_parity_' + ('even' if ny % 2 == 0 else 'odd') + '_' + ('even' if nx % 2 == 0 else 'odd'))
    return dict(data=data, data_in=data_in, oversampling=os_, origin=origin, fill_value=fill, x_0=x0, y_0=y0,
                flux=flux)


def _image_ref(cfg, x, y, sp=None, params=None):
    """Reference value of an image PSF: (values, band) where band marks points within 1e-9 of the footprint
    boundary (either the interpolated value or fill_value is accepted there)."""
    data = cfg['data']
    ny, nx = data.shape
    osy, osx = _os_pair(cfg['oversampling'])
    origin = cfg['origin']
    if origin is None:
        origin = ((nx - 1) / 2.0, (ny - 1) / 2.0)
    prm = params or cfg
    xi = R.image_index(x, prm['x_0'], origin[0], osx)
    yi = R.image_index(y, prm['y_0'], origin[1], osy)
    sp = sp or R.spline(data)
    val = prm['flux'] * sp(xi, yi, grid=False)
    eps = 1e-9
    outside = (xi < -eps) | (xi > nx - 1 + eps) | (yi < -eps) | (yi > ny - 1 + eps)
    inside = (xi > eps) & (xi < nx - 1 - eps) & (yi > eps) & (yi < ny - 1 - eps)
    return val, inside, outside, xi, yi


def _image_points(rng, cfg, prm=None):
    """Evaluation points: all sample points of the array + fractional points + points outside."""
    data = cfg['data']
    ny, nx = data.shape
    osy, osx = _os_pair(cfg['oversampling'])
    origin = cfg['origin'] if cfg['origin'] is not None else ((nx - 1) / 2.0, (ny - 1) / 2.0)
    prm = prm or cfg
    jj, ii = np.mgrid[:ny, :nx]
    xs = prm['x_0'] + (ii.ravel() - origin[0]) / osx
    ys = prm['y_0'] + (jj.ravel() - origin[1]) / osy
    nf = 60
    xf = prm['x_0'] + (rng.uniform(-2, nx + 1, nf) - origin[0]) / osx
    yf = prm['y_0'] + (rng.uniform(-2, ny + 1, nf) - origin[1]) / osy
    return xs, ys, ii.ravel(), jj.ravel(), xf, yf


def _check_image_eval(case, model, cfg, prm, mech, sp, tag=''):
    rng = case.rng
    data = cfg['data']
    xs, ys, ii, jj, xf, yf = _image_points(rng, cfg, prm)
    fill = cfg['fill_value']
    scale = abs(prm['flux']) * float(np.max(np.abs(data)))
    # (a) sample points: model == flux * data
    obs = np.asarray(model(xs, ys), float)
    ny, nx = data.shape
    interior = (ii > 0) & (ii < nx - 1) & (jj > 0) & (jj < ny - 1)
    exp = prm['flux'] * data[jj, ii]
    if interior.any():
        case.close(obs[interior], exp[interior], 'imagepsf_reproduces_data_at_interior_samples' + tag,
                   rtol=1e-10, atol=1e-11 * scale, mech=mech)
    # boundary samples: data value or fill (rounding may put them a hair outside)
    edge = ~interior
    ok = core.same(obs[edge], exp[edge], 1e-10, 1e-11 * scale)[0]
    if not ok:
        o, e = obs[edge], exp[edge]
        good = np.isclose(o, e, rtol=1e-10, atol=1e-11 * scale) | _is_fill(o, fill)
        ok = bool(np.all(good))
    case.check(ok, 'imagepsf_edge_samples_data_or_fill' + tag, mech)
    # (b) fractional points: documented cubic spline inside, fill outside
    obs = np.asarray(model(xf, yf), float)
    val, inside, outside, xi, yi = _image_ref(cfg, xf, yf, sp, prm)
    if inside.any():
        case.close(obs[inside], val[inside], 'imagepsf_vs_cubic_spline' + tag, rtol=1e-10, atol=1e-11 * scale,
                   mech=mech)
    if outside.any() and fill is not None:
        case.check(bool(np.all(_is_fill(obs[outside], fill))), 'imagepsf_fill_value_outside' + tag, mech,
                   fill=fill, obs=obs[outside][:5])
    return int(interior.sum()), int(outside.sum())


def _is_fill(o, fill):
    if fill is None:
        return np.ones_like(o, bool)
    if fill != fill:
        return np.isnan(o)
    return o == fill


def _case_imagepsf(case):
    from photutils.psf import ImagePSF
    rng = case.rng
    cfg = _gen_imagepsf_cfg(rng, case.note)
    data = cfg['data']
    ny, nx = data.shape
    case.params = {k: (v if k not in ('data', 'data_in') else [list(v.shape), str(v.dtype), bool(v.flags.c_contiguous)])
                   for k, v in cfg.items()}
    case.digest = core.arr_digest(data) + core.digest(case.params)
    d_in = np.array(cfg['data_in'], copy=True)
    m = ImagePSF(cfg['data_in'], flux=cfg['flux'], x_0=cfg['x_0'], y_0=cfg['y_0'], origin=cfg['origin'],
                 oversampling=cfg['oversampling'], fill_value=cfg['fill_value'])
    osy, osx = _os_pair(cfg['oversampling'])
    mech = {'model': 'ImagePSF', 'os_tuple': np.ndim(cfg['oversampling']) > 0, 'origin_given': cfg['origin'] is not None}
    sp = R.spline(data)
    nin, nout = _check_image_eval(case, m, cfg, cfg, mech, sp)
    case.nontrivial = nin > 0 and nout > 0
    # 2-D input arrays and scalar input
    xs, ys, ii, jj, xf, yf = _image_points(rng, cfg)
    o2 = np.asarray(m(xs.reshape(ny, nx), ys.reshape(ny, nx)), float)
    case.close(o2.ravel(), np.asarray(m(xs, ys), float), 'imagepsf_2d_input_equals_1d', mech=mech)
    k = int(rng.integers(0, len(xs)))
    case.close(float(np.asarray(m(xs[k], ys[k]))), float(np.asarray(m(xs, ys))[k]), 'imagepsf_scalar_equals_array',
               mech=mech)
    # linear in flux, via parameter edit on a copy; the original must not change
    before = np.asarray(m(xf, yf), float)
    c = m.copy()
    kf = float(rng.choice([2.0, -0.5, 10.0]))
    c.flux = cfg['flux'] * kf
    c.x_0 = cfg['x_0'] + 1.0
    after_c = np.asarray(c(xf + 1.0, yf), float)
    val, inside, outside, _, _ = _image_ref(cfg, xf, yf, sp)
    scale = abs(cfg['flux']) * float(np.max(np.abs(data)))
    if inside.any():
        case.close(after_c[inside], kf * val[inside], 'imagepsf_copy_scaled_shifted', rtol=1e-9,
                   atol=1e-10 * scale * abs(kf), mech=mech)
    case.close(np.asarray(m(xf, yf), float), before, 'imagepsf_original_unchanged_by_copy_edit', mech=mech)
    # bounding box = sample extent +- half an (oversampled) sample
    origin = cfg['origin'] if cfg['origin'] is not None else ((nx - 1) / 2.0, (ny - 1) / 2.0)
    bb = m.bounding_box
    (ylo, yhi), (xlo, xhi) = bb.bounding_box()
    expbb = [cfg['x_0'] + (-0.5 - origin[0]) / osx, cfg['x_0'] + (nx - 0.5 - origin[0]) / osx,
             cfg['y_0'] + (-0.5 - origin[1]) / osy, cfg['y_0'] + (ny - 0.5 - origin[1]) / osy]
    case.close([float(xlo), float(xhi), float(ylo), float(yhi)], expbb, 'imagepsf_bounding_box_is_data_footprint',
               rtol=1e-12, atol=1e-12, mech=mech)
    case.check(core.exact(np.asarray(cfg['data_in']), d_in), 'inputs_unchanged', mech)


def _case_imagepsf_hist(case):
    from photutils.psf import ImagePSF
    rng = case.rng
    cfg = _gen_imagepsf_cfg(rng, case.note)
    data = cfg['data']
    case.params = {k: (v if k not in ('data', 'data_in') else [list(v.shape), str(v.dtype)]) for k, v in cfg.items()}
    mech = {'model': 'ImagePSF', 'history': True}
    sp = R.spline(data)

    def fresh(prm):
        return ImagePSF(data.copy(), flux=prm['flux'], x_0=prm['x_0'], y_0=prm['y_0'], origin=cfg['origin'],
                        oversampling=cfg['oversampling'], fill_value=cfg['fill_value'])

    first = ImagePSF(cfg['data_in'], flux=cfg['flux'], x_0=cfg['x_0'], y_0=cfg['y_0'], origin=cfg['origin'],
                     oversampling=cfg['oversampling'], fill_value=cfg['fill_value'])
    live = [(first, dict(flux=cfg['flux'], x_0=cfg['x_0'], y_0=cfg['y_0']))]
    steps = []
    nsteps = int(rng.integers(3, 9))
    for _ in range(nsteps):
        op = ['eval', 'eval', 'copy', 'deepcopy', 'edit', 'stdcopy'][int(rng.integers(0, 6))]
        idx = int(rng.integers(0, len(live)))
        m, prm = live[idx]
        steps.append(op)
        if op == 'copy':
            live.append((m.copy(), dict(prm)))
        elif op == 'deepcopy':
            live.append((m.deepcopy(), dict(prm)))
        elif op == 'stdcopy':
            live.append((_copy.deepcopy(m), dict(prm)))
        elif op == 'edit':
            prm['x_0'] = float(rng.uniform(-20, 20))
            prm['y_0'] = float(rng.uniform(-20, 20))
            prm['flux'] = _logu(rng, 1e-2, 1e3)
            m.x_0, m.y_0, m.flux = prm['x_0'], prm['y_0'], prm['flux']
        # after every step: every live model answers like a fresh one with its parameters
        for (mm, pp) in live:
            xs, ys, ii, jj, xf, yf = _image_points(rng, cfg, pp)
            f = fresh(pp)
            case.close(np.asarray(mm(xf, yf), float), np.asarray(f(xf, yf), float),
                       'imagepsf_history_vs_fresh_model', mech=mech, steps=steps)
        mm, pp = live[int(rng.integers(0, len(live)))]
        _check_image_eval(case, mm, cfg, pp, mech, sp, tag='_after_history')
    case.params['steps'] = steps
    case.digest = core.arr_digest(data) + core.digest(case.params)
    case.nontrivial = len(steps) >= 3
    case.note('history_steps', len(steps))


# ----------------------------------------------------------------------------------------
# GriddedPSFModel
# ----------------------------------------------------------------------------------------
def _gen_grid_cfg(rng, degenerate=False):
    if degenerate:
        nxg, nyg = [(1, int(rng.integers(2, 4))), (int(rng.integers(2, 4)), 1), (1, 1)][int(rng.integers(0, 3))]
    else:
        nxg, nyg = int(rng.integers(2, 5)), int(rng.integers(2, 5))
        k = rng.random()
        if k < 0.2:
            nxg, nyg = int(rng.integers(4, 7)), 2                            # nx >= ny + 2
        elif k < 0.4:
            nxg, nyg = 2, int(rng.integers(4, 7))                            # ny >= nx + 2

    def axis(n):
        if rng.random() < 0.4:
            step = float(rng.integers(5, 60))
            return float(rng.integers(-20, 20)) + step * np.arange(n)
        v = np.sort(rng.uniform(-50, 300, n))
        while n > 1 and np.min(np.diff(v)) < 1.0:
            v = np.sort(rng.uniform(-50, 300, n))
        return np.round(v, 3)
    xg, yg = axis(nxg), axis(nyg)
    ny, nx = int(rng.integers(4, 11)), int(rng.integers(4, 11))
    pos = [(float(x), float(y)) for y in yg for x in xg]
    epsf = {}
    for p in pos:
        yy, xx = np.mgrid[:ny, :nx]
        epsf[p] = (R.gauss2d(xx, yy, 1.0, (nx - 1) / 2 + rng.uniform(-.5, .5), (ny - 1) / 2 + rng.uniform(-.5, .5),
                             rng.uniform(0.8, 2.5), rng.uniform(0.8, 2.5), rng.uniform(0, 180))
                   + 0.02 * rng.random((ny, nx)))
    order = rng.permutation(len(pos))
    os_ = _gen_osamp(rng)
    fill = [0.0, float('nan'), -2.5][int(rng.integers(0, 3))] if rng.random() < 0.5 else 0.0
    lay = ['plain', 'plain', 'plain', 'fortran', 'bigendian', 'strided'][int(rng.integers(0, 6))]
    return dict(xg=xg, yg=yg, shape=(ny, nx), epsf=epsf, order=[pos[i] for i in order], oversampling=os_,
                fill_value=fill, cube_layout=lay)


def _build_grid(cfg, flux=1.0, x_0=0.0, y_0=0.0, via_helper=False):
    from astropy.nddata import NDData
    from photutils.psf import GriddedPSFModel
    cube = np.array([cfg['epsf'][p] for p in cfg['order']])
    lay = cfg.get('cube_layout', 'plain')
    if lay == 'fortran':
        cube = np.asfortranarray(cube)
    elif lay == 'bigendian':
        cube = cube.astype('>f8')
    elif lay == 'strided':
        big = np.zeros(tuple(2 * n for n in cube.shape))
        big[::2, ::2, ::2] = cube
        cube = big[::2, ::2, ::2]
    if via_helper:
        # the documented helper: a list of ImagePSF models + their fiducial positions
        from photutils.psf import ImagePSF, grid_from_epsfs
        epsfs = [ImagePSF(cfg['epsf'][p].copy(), oversampling=cfg['oversampling'], fill_value=cfg['fill_value'])
                 for p in cfg['order']]
        m = grid_from_epsfs(epsfs, grid_xypos=list(cfg['order']))
        m.flux, m.x_0, m.y_0 = flux, x_0, y_0
        return m
    meta = {'grid_xypos': list(cfg['order']), 'oversampling': cfg['oversampling']}
    nd = NDData(cube, meta=meta)
    return GriddedPSFModel(nd, flux=flux, x_0=x_0, y_0=y_0, fill_value=cfg['fill_value'])


def _grid_position(rng, cfg, kind):
    xg, yg = cfg['xg'], cfg['yg']

    def inside(g):
        if len(g) == 1:
            return float(g[0])
        i = int(rng.integers(0, len(g) - 1))
        return float(rng.uniform(g[i], g[i + 1]))

    def node(g):
        return float(g[int(rng.integers(0, len(g)))])

    def out(g):
        return float(g[0] - rng.uniform(0.5, 40)) if rng.random() < 0.5 else float(g[-1] + rng.uniform(0.5, 40))
    if kind == 'at_grid':
        return node(xg), node(yg)
    if kind == 'interior':
        return inside(xg), inside(yg)
    if kind == 'on_line':
        return (node(xg), inside(yg)) if rng.random() < 0.5 else (inside(xg), node(yg))
    if kind == 'outside_x':
        return out(xg), (inside(yg) if rng.random() < 0.7 else node(yg))
    if kind == 'outside_y':
        return (inside(xg) if rng.random() < 0.7 else node(xg)), out(yg)
    return out(xg), out(yg)


POSKINDS = ['at_grid', 'interior', 'on_line', 'outside_x', 'outside_y', 'outside_corner']


def _grid_ref(cfg, splines, flux, x0, y0, x, y):
    ny, nx = cfg['shape']
    osy, osx = _os_pair(cfg['oversampling'])
    xi = R.image_index(x, x0, (nx - 1) / 2.0, osx)
    yi = R.image_index(y, y0, (ny - 1) / 2.0, osy)
    xg, yg = cfg['xg'], cfg['yg']
    if len(xg) >= 2 and len(yg) >= 2:
        corners = R.bilinear_corners(xg, yg, x0, y0)
    else:
        # degenerate layouts: linear blend along the non-degenerate axis, the single value along the other
        def lin(g, v):
            if len(g) == 1:
                return [(float(g[0]), 1.0)]
            vc = min(max(v, g[0]), g[-1])
            i = min(max(int(np.searchsorted(g, vc, side='right') - 1), 0), len(g) - 2)
            t = (vc - g[i]) / (g[i + 1] - g[i])
            return [(float(g[i]), 1 - t), (float(g[i + 1]), t)]
        corners = [((gx, gy), wx * wy) for gx, wx in lin(xg, x0) for gy, wy in lin(yg, y0) if wx * wy != 0]
    val = 0.0
    for p, w in corners:
        val = val + w * splines[p](xi, yi, grid=False)
    val = flux * val
    eps = 1e-9
    outside = (xi < -eps) | (xi > nx - 1 + eps) | (yi < -eps) | (yi > ny - 1 + eps)
    inside = (xi > eps) & (xi < nx - 1 - eps) & (yi > eps) & (yi < ny - 1 - eps)
    return val, inside, outside, corners


def _grid_points(rng, cfg, x0, y0):
    ny, nx = cfg['shape']
    osy, osx = _os_pair(cfg['oversampling'])
    jj, ii = np.mgrid[:ny, :nx]
    xs = x0 + (ii.ravel() - (nx - 1) / 2.0) / osx
    ys = y0 + (jj.ravel() - (ny - 1) / 2.0) / osy
    nf = 40
    xf = x0 + (rng.uniform(-2, nx + 1, nf) - (nx - 1) / 2.0) / osx
    yf = y0 + (rng.uniform(-2, ny + 1, nf) - (ny - 1) / 2.0) / osy
    return np.concatenate([xs, xf]), np.concatenate([ys, yf]), len(xs)


def _check_grid_eval(case, model, cfg, splines, flux, x0, y0, mech, how='call', tag=''):
    rng = case.rng
    x, y, nsamp = _grid_points(rng, cfg, x0, y0)
    if how == 'call':
        obs = np.asarray(model(x, y), float)
    elif how == 'call2d' and len(x) % 2 == 0:
        obs = np.asarray(model(x.reshape(2, -1), y.reshape(2, -1)), float).ravel()
    else:
        obs = np.asarray(model.evaluate(x, y, flux, x0, y0), float)
    val, inside, outside, corners = _grid_ref(cfg, splines, flux, x0, y0, x, y)
    scale = abs(flux) * max(float(np.max(np.abs(v))) for v in cfg['epsf'].values())
    if inside.any():
        case.close(obs[inside], val[inside], 'gridded_vs_bilinear_blend_of_corner_epsfs' + tag, rtol=1e-11,
                   atol=1e-12 * scale, mech=mech, x_0=x0, y_0=y0, corners=[list(p) for p, _ in corners],
                   weights=[w for _, w in corners])
    fill = cfg['fill_value']
    if outside.any():
        case.check(bool(np.all(_is_fill(obs[outside], fill))), 'gridded_fill_value_outside' + tag, mech, fill=fill)
    # at a grid position the model is that ePSF: its samples times flux
    if len(corners) == 1:
        ny, nx = cfg['shape']
        jj, ii = np.mgrid[:ny, :nx]
        interior = ((ii > 0) & (ii < nx - 1) & (jj > 0) & (jj < ny - 1)).ravel()
        exp = flux * cfg['epsf'][corners[0][0]].ravel()
        case.close(obs[:nsamp][interior], exp[interior], 'gridded_equals_stored_epsf_at_grid_position' + tag,
                   rtol=1e-10, atol=1e-11 * scale, mech=mech, x_0=x0, y_0=y0)
    return int(inside.sum()), int(outside.sum())


def _case_gridded(case, degenerate=False):
    rng = case.rng
    cfg = _gen_grid_cfg(rng, degenerate=degenerate)
    splines = {p: R.spline(d) for p, d in cfg['epsf'].items()}
    cube_in = np.array([cfg['epsf'][p] for p in cfg['order']])
    case.params = dict(xg=cfg['xg'].tolist(), yg=cfg['yg'].tolist(), shape=list(cfg['shape']),
                       oversampling=cfg['oversampling'], fill_value=cfg['fill_value'])
    flux = _flux(rng)
    via_helper = bool(rng.random() < 0.3) and not (cfg['fill_value'] != cfg['fill_value'])
    m = _build_grid(cfg, flux=flux, via_helper=via_helper)
    case.params['via_grid_from_epsfs'] = via_helper
    case.note('axis_data_layout_' + cfg['cube_layout'])
    if len(set(_os_pair(cfg['oversampling']))) > 1:
        case.note('axis2_unequal_oversampling')
    case.note('axis2_array_parity_' + ('even' if cfg['shape'][0] % 2 == 0 else 'odd') + '_'
              + ('even' if cfg['shape'][1] % 2 == 0 else 'odd'))
    case.note('axis_grid_shape_' + ('wide' if len(cfg['xg']) >= len(cfg['yg']) + 2 else
                                   'tall' if len(cfg['yg']) >= len(cfg['xg']) + 2 else 'squarish'))
    mech0 = {'model': 'GriddedPSFModel', 'degenerate_grid': bool(degenerate)}
    # documented internal order: sorted by y then x, data follows the positions
    gx = np.asarray(m.grid_xypos, float)
    ok = all(np.array_equal(m.data[k], cfg['epsf'][(float(gx[k, 0]), float(gx[k, 1]))]) for k in range(len(gx)))
    case.check(ok, 'gridded_data_follow_grid_xypos', mech0)
    srt = np.lexsort((gx[:, 0], gx[:, 1]))
    case.check(bool(np.array_equal(srt, np.arange(len(gx)))), 'gridded_sorted_by_y_then_x', mech0)
    nin = nout = 0
    kinds = list(POSKINDS)
    rng.shuffle(kinds)
    poslog = []
    for kind in kinds[:int(rng.integers(3, 7))]:
        x0, y0 = _grid_position(rng, cfg, kind)
        m.x_0, m.y_0 = x0, y0
        how = ['call', 'call2d', 'evaluate'][int(rng.integers(0, 3))]
        a, b = _check_grid_eval(case, m, cfg, splines, flux, x0, y0, dict(mech0, position=kind), how=how)
        nin += a
        nout += b
        poslog.append(kind)
    case.params['positions'] = poslog
    case.digest = core.arr_digest(cube_in, cfg['xg'], cfg['yg']) + core.digest(case.params)
    case.nontrivial = nin > 0 and nout > 0
    # bounding box: footprint of the ePSF array about (x_0, y_0)
    ny, nx = cfg['shape']
    osy, osx = _os_pair(cfg['oversampling'])
    (ylo, yhi), (xlo, xhi) = m.bounding_box.bounding_box()
    case.close([float(xlo), float(xhi), float(ylo), float(yhi)],
               [x0 - nx / 2 / osx, x0 + nx / 2 / osx, y0 - ny / 2 / osy, y0 + ny / 2 / osy],
               'gridded_bounding_box_is_data_footprint', rtol=1e-12, atol=1e-12, mech=mech0)
    case.check(core.exact(np.array([cfg['epsf'][p] for p in cfg['order']]), cube_in), 'inputs_unchanged', mech0)


def _case_gridded_hist(case):
    rng = case.rng
    cfg = _gen_grid_cfg(rng)
    splines = {p: R.spline(d) for p, d in cfg['epsf'].items()}
    case.params = dict(xg=cfg['xg'].tolist(), yg=cfg['yg'].tolist(), shape=list(cfg['shape']),
                       oversampling=cfg['oversampling'], fill_value=cfg['fill_value'])
    flux = _flux(rng)
    live = [(_build_grid(cfg, flux=flux), dict(flux=flux, x_0=0.0, y_0=0.0))]
    visited = []
    steps = []
    mech = {'model': 'GriddedPSFModel', 'degenerate_grid': False, 'history': True}
    for _ in range(int(rng.integers(4, 11))):
        op = ['move', 'move', 'move', 'revisit', 'copy', 'deepcopy', 'stdcopy', 'evaluate_direct'][
            int(rng.integers(0, 8))]
        idx = int(rng.integers(0, len(live)))
        m, prm = live[idx]
        if op == 'revisit' and not visited:
            op = 'move'
        steps.append(op)
        if op == 'move':
            kind = POSKINDS[int(rng.integers(0, len(POSKINDS)))]
            prm['x_0'], prm['y_0'] = _grid_position(rng, cfg, kind)
            visited.append((prm['x_0'], prm['y_0']))
            m.x_0, m.y_0 = prm['x_0'], prm['y_0']
        elif op == 'revisit':
            prm['x_0'], prm['y_0'] = visited[int(rng.integers(0, len(visited)))]
            m.x_0, m.y_0 = prm['x_0'], prm['y_0']
        elif op == 'copy':
            live.append((m.copy(), dict(prm)))
        elif op == 'deepcopy':
            live.append((m.deepcopy(), dict(prm)))
        elif op == 'stdcopy':
            live.append((_copy.deepcopy(m), dict(prm)))
        elif op == 'evaluate_direct':
            # evaluate() with explicit parameters must not disturb the live parameter state
            kind = POSKINDS[int(rng.integers(0, len(POSKINDS)))]
            ex, ey = _grid_position(rng, cfg, kind)
            _check_grid_eval(case, m, cfg, splines, 2.0 * flux, ex, ey, dict(mech, position=kind), how='evaluate',
                             tag='_after_history')
        for (mm, pp) in live:
            x, y, _n = _grid_points(rng, cfg, pp['x_0'], pp['y_0'])
            f = _build_grid(cfg, flux=pp['flux'], x_0=pp['x_0'], y_0=pp['y_0'])
            case.close(np.asarray(mm(x, y), float), np.asarray(f(x, y), float), 'gridded_history_vs_fresh_model',
                       mech=mech, steps=steps)
        mm, pp = live[int(rng.integers(0, len(live)))]
        _check_grid_eval(case, mm, cfg, splines, pp['flux'], pp['x_0'], pp['y_0'], mech, tag='_after_history')
    case.params['steps'] = steps
    case.digest = core.arr_digest(np.array([cfg['epsf'][p] for p in cfg['order']])) + core.digest(case.params)
    case.nontrivial = len(steps) >= 3
    case.note('history_steps', len(steps))


# ----------------------------------------------------------------------------------------
def run_case(case):
    cls = case.cls
    if cls == 'prf_sum':
        _case_prf_sum(case)
    elif cls == 'prf_value':
        _case_prf_value(case)
    elif cls == 'psf_integral':
        _case_psf_integral(case)
    elif cls == 'shape':
        _case_shape(case)
    elif cls == 'consistency':
        _case_consistency(case)
    elif cls == 'imagepsf':
        _case_imagepsf(case)
    elif cls == 'imagepsf_hist':
        _case_imagepsf_hist(case)
    elif cls == 'gridded':
        _case_gridded(case)
    elif cls == 'gridded_hist':
        _case_gridded_hist(case)
    elif cls == 'gridded_degenerate':
        _case_gridded(case, degenerate=True)
    else:  # pragma: no cover
        raise ValueError(cls)
    if case.digest is None:
        case.digest = core.digest(case.params)
